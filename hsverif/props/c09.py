"""C09  Capacity primitives never over-admit or leak, wake in order, and let time pass.

Monitor shape: generated worker processes (generator handlers of a harness
entity) call the real primitives inside a real Simulation under the engine
probe.  A holder ledger is written at the client boundary (request before the
call, grant after the primitive answered, release after the call returned);
public counters are sampled after every delivery and at every clock advance
(= end of the previous instant).  Oracles are the clauses of the property
statement, nothing else; see notes/design-C09.md.
"""

from __future__ import annotations

import math
import random

from hsverif.core import Family, Result
from hsverif.c09_common import TS, Run, at, drive, max_overlap_blocked, simultaneous

PID = "C09"
LEVEL = "exploration"
RULE = (
    "Each case is a JSON script: primitive + parameters, and per worker an arrival tick (1 tick = 1/512 s, many "
    "workers on the same tick) and a list of steps (blocking acquire / try_acquire, amount, priority, hold ticks "
    "0 or positive, gap ticks); for request-shaped components (Bulkhead, ThreadPool, Server) a list of arrivals "
    "with service times and weights; the concurrency models are also driven directly by acquire/release/has_capacity/"
    "set_limit op strings against plain counting.  The script is executed by harness worker processes inside a real Simulation "
    "(auto-terminating, control hooks attached) under EngineProbe with an instant cap.  Non-trivial: at some logical "
    "moment >= 2 acquirers were blocked by the primitive at once while a holder with a positive scripted hold held "
    "it (measured from the ledger; for Barrier/Condition: >= 2 parties parked at once and simulated time had to "
    "pass before their release).  Distinct by hash of the case."
)
ASSUMPTIONS = [
    "clients follow the API: every grant is released exactly once by its holder (double release of one Grant is "
    "exercised separately because Grant.release documents idempotence), amounts are within capacity",
    "sim.control hooks do not change behaviour (C04) and same-instant delivery is FIFO among run-created events (C01)",
    "an instant with more than instant_cap (2500) deliveries under a workload of <= 14 processes is a frozen clock",
    "ConnectionPool waiters poll every min(0.1, timeout/10) s by design: the notice delay of a handed-over "
    "connection is not counted as a violation, the hand-over order (on_acquire callback) is what is checked",
    "eventually = at the fixpoint of an auto-terminating run (no primary event left)",
]
MUST_OBSERVE = ["grants_checked", "counter_samples", "end_of_instant_checks"]

EPS = 1e-9


# ==========================================================================
# Resource / PreemptibleResource  (SimFuture based)


def _gen_steps(rng, cap, floaty, n_steps, preemptible):
    steps = []
    for _ in range(n_steps):
        if floaty == "binary":
            amt = rng.choice([0.25, 0.5, 0.75, 1.0, 1.5, cap])
            amt = min(amt, cap)
        elif floaty == "decimal":
            amt = rng.choice([0.1, 0.2, 0.3, 0.7, cap])
            amt = min(amt, cap)
        elif floaty == "mixed":
            # int capacity, float and int amounts mixed: the free capacity becomes a float carrying residue
            amt = rng.choice([0.1, 0.1, 0.3, 0.3, 0.7, 1 / 3, 0.2, 1, cap])
            amt = min(amt, cap)
        else:
            amt = rng.choice([1, 1, 1, 2, 3, cap]) if cap > 1 else 1
            amt = min(amt, cap)
        st = {
            "op": "try" if rng.random() < 0.15 and not preemptible else "acq",
            "amt": amt,
            "hold": rng.choice([0, 0, 1, 2, 3, 5, 8]),
            "gap": rng.choice([0, 0, 0, 1, 2, 4]),
            "twice": rng.random() < 0.1,
        }
        if preemptible:
            st["prio"] = rng.choice([0, 1, 1, 2, 3, 5])
            st["preempt"] = rng.random() < 0.6
            # what the holder's on_preempt callback does: nothing, or re-request from inside the callback
            # (a resumable job re-queues itself: same amount / one unit)
            st["on_pre"] = rng.choice([None, None, "reacq", "reacq", "reacq1"])
            if cap >= 2 and rng.random() < 0.25:
                # the job holds two grants at once; the on_preempt callback of one releases the other
                # (a job that gives everything back when it loses a part)
                a1 = rng.randint(1, cap - 1)
                st.update({"op": "pair", "amt": a1, "amt2": rng.randint(1, cap - a1), "on_pre": "rel_other",
                           "cb_on": rng.choice(["first", "second", "both"])})
        steps.append(st)
    return steps


def gen_resource(rng: random.Random, tier: str) -> dict:
    floaty = rng.choices(["int", "binary", "decimal", "mixed"], [0.55, 0.12, 0.13, 0.2])[0]
    if floaty == "int":
        cap = rng.choice([1, 1, 2, 3, 4, 6])
    elif floaty == "mixed":
        cap = rng.choice([1, 1, 1, 2, 3])
    elif floaty == "binary":
        cap = rng.choice([1.0, 1.5, 2.0, 2.5])
    else:
        cap = rng.choice([0.3, 0.7, 1.0, 1.2])
    nw = rng.randint(2, 12)
    base = rng.choice([0, 0, 3])
    spread = rng.choice([0, 0, 1, 2, 6])
    workers = []
    for _ in range(nw):
        workers.append({"at": base + rng.randint(0, spread), "steps": _gen_steps(rng, cap, floaty, rng.randint(1, 3), False)})
    if floaty == "mixed":
        # ... then requests for exactly what is free once the float traffic has come and (mostly) gone
        late = base + spread + rng.choice([4, 10, 20, 60])
        for k in range(rng.randint(1, 2)):
            workers.append({"at": late + k, "steps": [{"op": "acq", "amt": cap, "hold": rng.choice([0, 1, 2]), "gap": 0, "twice": False}]})
    return {"kind": "Resource", "capacity": cap, "amounts": floaty, "workers": workers}


def gen_preemptible(rng: random.Random, tier: str) -> dict:
    cap = rng.choice([1, 2, 3, 4, 5])
    nw = rng.randint(2, 10)
    spread = rng.choice([0, 1, 2, 6])
    workers = []
    for _ in range(nw):
        workers.append({"at": rng.randint(0, spread), "steps": _gen_steps(rng, cap, "int", rng.randint(1, 3), True)})
    return {"kind": "PreemptibleResource", "capacity": cap, "amounts": "int", "workers": workers}


def _key(r):
    return (r.prio, r.s_req)


def run_resource(case: dict) -> Result:
    from happysimulator.components.industrial.preemptible_resource import PreemptibleResource
    from happysimulator.components.resource import Resource

    res = Result()
    comp = case["kind"]
    cap = case["capacity"]
    pre = comp == "PreemptibleResource"
    prim = PreemptibleResource("prim", capacity=cap) if pre else Resource("prim", capacity=cap)
    run = Run(res, [prim])
    led = run.ledger
    amounts = case.get("amounts", "int")
    tol = EPS * max(1.0, cap) if amounts in ("decimal", "mixed") else 0
    kind_shape = {"int": "int-amounts", "binary": "float-amounts-exact", "decimal": "float-amounts-decimal",
                  "mixed": "int-capacity-float-amounts"}[amounts]

    def fits_spec(avail, amount):
        """The library's documented fit rule (Resource._fits): exact, or equal up to rel 1e-9 / abs 1e-12*capacity
        when floats are involved.  The oracles never ask for more than this."""
        if avail >= amount:
            return True
        if amounts in ("decimal", "mixed"):
            return math.isclose(avail, amount, rel_tol=1e-9, abs_tol=1e-12 * cap)
        return False

    flagged: set = set()

    def flag(oracle, shape, detail, witness=None):
        k = (oracle, shape)
        if k in flagged:
            return
        flagged.add(k)
        res.add(oracle, comp, shape, detail, witness if witness is not None else {"history": led.history()})

    preempt_seen = [0]
    corrupt = [False]  # set after a release raised: later counter mismatches are consequences, not new findings

    def worker(wi, spec):
        def proc():
            first = True
            for st in spec["steps"]:
                if not first or st["gap"]:
                    yield st["gap"] * TS
                first = False
                if st["op"] == "pair":
                    yield from pair_step(wi, st)
                    continue
                r = led.request(wi, amount=st["amt"], prio=st.get("prio", 0), hold=st["hold"], how=st["op"])
                grant = None
                if st["op"] == "try":
                    avail_before = prim.available
                    try:
                        grant = prim.try_acquire(st["amt"])
                    except ValueError as exc:
                        r.outcome = "error"
                        flag("acquire-raises", kind_shape, f"try_acquire({st['amt']}) raised {exc!r} with capacity {cap}")
                        continue
                    r.blocked = False
                    if grant is None:
                        r.outcome = "denied"
                        if fits_spec(avail_before, st["amt"]):
                            flag("try-denied-although-fits", kind_shape, f"try_acquire({st['amt']}) denied with available={avail_before}")
                        continue
                    r.extra = grant
                    led.granted(r)
                    r.d_res = led.delivery
                else:
                    try:
                        if pre:
                            ctx = {"avail": prim.available, "done": 0, "nested": 0, "req": r, "rel_other": False}
                            call_ctx.append(ctx)
                            try:
                                fut = prim.acquire(st["amt"], priority=st["prio"], preempt=st["preempt"],
                                                   on_preempt=_mk_on_preempt(r, st.get("on_pre")))
                            finally:
                                call_ctx.pop()
                        else:
                            ctx = None
                            fut = prim.acquire(st["amt"])
                    except ValueError as exc:
                        r.outcome = "error"
                        if ctx is not None and ctx["rel_other"]:
                            flag("acquire-raises", "on-preempt-callback-releases-other-grant",
                                 f"acquire({st['amt']}, preempt={st['preempt']}) raised {exc!r} after a victim's on_preempt callback "
                                 f"released its holder's other grant; available={prim.available} capacity={cap}")
                            corrupt[0] = True
                        else:
                            flag("acquire-raises", kind_shape, f"acquire({st['amt']}) raised {exc!r} with capacity {cap}")
                        continue
                    r.fut = fut
                    r.blocked = not fut.is_resolved
                    grant = yield fut
                    led.granted(r)
                    r.extra = grant
                    if pre and grant.preempted:
                        r.outcome = "preempted"
                        led.released(r)
                t0 = run.now_ns()
                yield st["hold"] * TS
                if run.now_ns() - t0 != st["hold"] * 1_953_125:
                    flag("duplicate-wake", kind_shape, f"a hold of {st['hold']} ticks lasted {run.now_ns() - t0} ns: the process was resumed twice", None)
                try:
                    grant.release()
                    if st.get("twice"):
                        grant.release()
                except ValueError as exc:
                    flag("release-raises", kind_shape, f"release of {r.amount} raised {exc!r}; available={prim.available} capacity={cap}")
                    corrupt[0] = True
                if r.outcome == "granted":
                    led.released(r)
                elif r.outcome == "preempted" and r.s_rel is None:
                    led.released(r)
                # the job re-queued itself from its on_preempt callback: finish it on the new grant
                r2 = requeued.pop(r.rid, None)
                if r2 is not None:
                    g2 = yield r2.fut
                    led.granted(r2)
                    r2.extra = g2
                    if g2.preempted:
                        r2.outcome = "preempted"
                        led.released(r2)
                    yield 1 * TS
                    g2.release()
                    if r2.s_rel is None:
                        led.released(r2)

        return proc

    def pair_step(wi, st):
        """Hold two grants of the same resource at once; on_preempt of one releases the other."""
        pair: list = []

        def release_other(me):
            def action():
                for o in pair:
                    if o is not me and o.fut is not None and o.fut.is_resolved and not o.fut.value.released:
                        res.count("callback_releases_other_grant")
                        ctx = call_ctx[-1] if call_ctx else None
                        if ctx is not None:
                            ctx["done"] += o.amount  # given back by its holder during the preemptor's call
                        o.fut.value.release()
                        if o.s_grant is not None and o.s_rel is None and o.outcome == "granted":
                            led.released(o)
            return action

        for k, amt in enumerate((st["amt"], st["amt2"])):
            r = led.request(wi, amount=amt, prio=st["prio"], hold=st["hold"], how="acq")
            pair.append(r)
            with_cb = st["cb_on"] == "both" or (st["cb_on"] == "first") == (k == 0)
            call_ctx.append({"avail": prim.available, "done": 0, "nested": 0, "req": r, "rel_other": False})
            try:
                fut = prim.acquire(amt, priority=st["prio"], preempt=st["preempt"],
                                   on_preempt=_mk_on_preempt(r, None, release_other(r) if with_cb else None))
            except ValueError as exc:
                r.outcome = "error"
                shape = "on-preempt-callback-releases-other-grant" if call_ctx[-1]["rel_other"] else kind_shape
                flag("acquire-raises", shape, f"acquire({amt}, preempt={st['preempt']}) raised {exc!r} with capacity {cap}")
                corrupt[0] = call_ctx[-1]["rel_other"] or corrupt[0]
                call_ctx.pop()
                break
            call_ctx.pop()
            r.fut = fut
            r.blocked = not fut.is_resolved
            g = yield fut
            led.granted(r)
            r.extra = g
            if g.preempted:
                r.outcome = "preempted"
                led.released(r)
            elif g.released:
                led.released(r)  # given back by the sibling's callback before this process resumed
        yield st["hold"] * TS
        for r in pair:
            if r.fut is not None and r.fut.is_resolved:
                r.fut.value.release()
                if r.s_grant is not None and r.s_rel is None:
                    led.released(r)

    call_ctx: list = []   # the acquire() call in progress (preemption only happens inside one)
    requeued: dict = {}   # rid of a preempted request -> the request its callback issued

    def _mk_on_preempt(r, action=None, extra=None):
        def cb():
            preempt_seen[0] += 1
            if extra is not None:
                if call_ctx:
                    call_ctx[-1]["rel_other"] = True
                extra()
            if r.s_grant is not None and r.s_rel is None:
                r.outcome = "preempted"
                led.released(r)
            else:
                r.outcome = "preempted"
            ctx = call_ctx[-1] if call_ctx else None
            if action in ("reacq", "reacq1"):
                amt2 = r.amount if action == "reacq" else 1
                r2 = led.request(r.worker, amount=amt2, prio=r.prio, hold=1, how="acq")
                fut2 = prim.acquire(amt2, priority=r.prio, preempt=False, on_preempt=_mk_on_preempt(r2))
                r2.fut = fut2
                r2.blocked = not fut2.is_resolved
                requeued[r.rid] = r2
                res.count("reentrant_acquires")
                if ctx is not None and fut2.is_resolved:
                    # What the victim's re-request may take on the spot is what was free before its own eviction:
                    # free at the preemptor's call + amounts of victims already evicted - earlier nested grants.
                    # Its own amount was freed *for the preemptor* (better priority, earlier arrival).
                    expected = ctx["avail"] + ctx["done"] - ctx["nested"]
                    a = ctx["req"]
                    if amt2 > expected and _key(a) < _key(r2):
                        flag("grant-out-of-order", "reentrant-on-preempt/priority-then-arrival",
                             f"request {r2.rid} (key {_key(r2)}), issued from the on_preempt callback of victim {r.rid}, "
                             f"was granted {amt2} on the spot out of the capacity freed for preemptor {a.rid} (key {_key(a)}); "
                             f"free before the eviction: {expected}")
                    ctx["nested"] += amt2
            if ctx is not None:
                ctx["done"] += r.amount

        return cb

    for wi, spec in enumerate(case["workers"]):
        run.spawn(spec["at"], worker(wi, spec))

    def resource_side_held():
        tot = 0
        for r in led.reqs:
            if r.fut is not None:
                if r.fut.is_resolved and not r.fut.value.released:
                    tot += r.amount
            elif r.extra is not None and not r.extra.released:
                tot += r.amount
        return tot

    def after_delivery(ev):
        d = led.delivery
        newly = []
        unresolved = []
        for r in led.reqs:
            if r.fut is None:
                continue
            if r.fut.is_resolved:
                if r.d_res is None:
                    r.d_res = d
                    newly.append(r)
            else:
                unresolved.append(r)
        # arrival (priority) order among blocked acquirers
        for b in newly:
            if not b.blocked:
                continue
            res.count("grants_checked")
            for a in unresolved:
                if a.d_req < d - 1 and _key(a) < _key(b):  # a was already waiting when this delivery began
                    flag(
                        "grant-out-of-order",
                        ("priority-then-arrival" if pre else "arrival-order") + "/" + kind_shape,
                        f"request {b.rid} (key {_key(b)}) granted while earlier/better request {a.rid} (key {_key(a)}, amount {a.amount}) still waits",
                    )
        # counters
        res.count("counter_samples")
        if corrupt[0]:
            return
        avail = prim.available
        if avail < -tol or avail > cap + tol:
            flag("available-out-of-range", kind_shape, f"available={avail} capacity={cap}")
        held_r = resource_side_held()
        if abs(held_r + avail - cap) > tol:
            flag("held-plus-available", kind_shape, f"granted-and-unreleased {held_r} + available {avail} != capacity {cap}")
        held_c = sum(r.amount for r in led.holders())
        if held_c > cap + tol:
            flag("over-admission", kind_shape, f"clients hold {held_c} of capacity {cap}")

    def head_check(where):
        res.count("end_of_instant_checks")
        waiting = [r for r in led.reqs if r.fut is not None and not r.fut.is_resolved]
        if not waiting or corrupt[0]:
            return
        head = min(waiting, key=_key)
        if fits_spec(prim.available, head.amount):
            partial = pre and preempt_seen[0] > 0
            shape = ("after-preemption/" if partial else "") + kind_shape
            flag(
                "head-waiter-fits-free-capacity",
                shape,
                f"{where}: head waiter {head.rid} wants {head.amount}, available={prim.available}, capacity={cap}",
            )

    status = run.go(after_delivery, lambda t: head_check("end-of-instant"))
    if status == "spin":
        flag("frozen-clock", "waiter-blocked/" + kind_shape, "instant cap exceeded", run.spin_witness())
    elif status == "completed":
        head_check("fixpoint")
        if not led.pending() and not led.holders() and not corrupt[0]:
            if abs(prim.available - cap) > tol:
                flag("leak", kind_shape, f"all holders released but available={prim.available} capacity={cap}")
    for r in led.reqs:
        if r.how == "try" and r.outcome == "denied":
            res.count("try_denied")
    res.count("requests", len(led.reqs))
    res.count("blocked_requests", sum(1 for r in led.reqs if r.blocked))
    res.count("preemptions_seen", preempt_seen[0])
    mb = max_overlap_blocked(led.reqs)
    res.nontrivial = mb >= 2 and any(r.hold > 0 and r.s_grant is not None for r in led.reqs)
    res.seen("components", comp)
    return res



# ==========================================================================
# Mutex / Semaphore / RWLock  (generator based acquire)


def gen_lock(rng: random.Random, tier: str) -> dict:
    kind = rng.choice(["Mutex", "Semaphore", "Semaphore", "RWLock", "RWLock"])
    case = {"kind": kind}
    cap = 1
    if kind == "Semaphore":
        cap = rng.choice([1, 2, 3, 4])
        case["cap"] = cap
    if kind == "RWLock":
        case["max_readers"] = rng.choice([None, None, 1, 2, 3])
    nw = rng.randint(2, 12)
    spread = rng.choice([0, 0, 1, 3, 8])
    # a third of the cases keep every hold at zero: those run to completion on a tree whose waits spin
    zero_holds = rng.random() < 0.35
    workers = []
    for _ in range(nw):
        steps = []
        for _ in range(rng.randint(1, 3)):
            st = {
                "op": "try" if rng.random() < 0.15 else "acq",
                "hold": 0 if zero_holds else rng.choice([0, 1, 2, 3, 5, 8]),
                "gap": rng.choice([0, 0, 0, 1, 2, 4]),
            }
            if kind == "Semaphore":
                st["amt"] = min(cap, rng.choice([1, 1, 1, 2, 3]))
            if kind == "RWLock":
                st["mode"] = rng.choice(["r", "r", "w"])
            if st["op"] == "acq" and rng.random() < 0.2:
                # API misuse that the primitive documents as an error: releasing more permits than fit the pool
                # (Semaphore) / releasing without holding (Mutex, RWLock) - attempted only when HEAD must refuse it
                st["misuse"] = rng.choice([1, 1, 2]) if kind == "Semaphore" else True
            steps.append(st)
        workers.append({"at": rng.randint(0, spread), "steps": steps})
    if kind == "Mutex":
        # owner labels are documented as debugging aids: whatever the callers pass, the lock stays exclusive
        scheme = rng.choice(["distinct", "none", "shared", "shared", "pairs", "mixed"])
        for wi, w in enumerate(workers):
            if scheme == "distinct":
                w["owner"] = f"w{wi}"
            elif scheme == "none":
                w["owner"] = None
            elif scheme == "shared":
                w["owner"] = "entity-A"          # e.g. every handler of one entity passing owner=self.name
            elif scheme == "pairs":
                w["owner"] = f"entity-{wi % 2}"  # labels shared across groups of callers
            else:
                w["owner"] = rng.choice([None, "entity-A", "entity-A", f"w{wi}"])
        case["owners"] = scheme
    case["workers"] = workers
    return case


def run_lock(case: dict) -> Result:
    from happysimulator.components.sync.mutex import Mutex
    from happysimulator.components.sync.rwlock import RWLock
    from happysimulator.components.sync.semaphore import Semaphore

    res = Result()
    comp = case["kind"]
    if comp == "Mutex":
        prim = Mutex("prim")
        cap = 1
    elif comp == "Semaphore":
        cap = case["cap"]
        prim = Semaphore("prim", initial_count=cap)
    else:
        prim = RWLock("prim", max_readers=case.get("max_readers"))
        cap = case.get("max_readers")
    run = Run(res, [prim])
    led = run.ledger
    flagged: set = set()
    variant = comp if comp != "RWLock" else ("RWLock/max_readers" if cap else "RWLock/unbounded")
    if comp == "Mutex":
        labels = [w["owner"] for w in case["workers"] if w.get("owner") is not None]
        if len(set(labels)) < len(labels):
            variant = "Mutex/shared-owner-label"  # two callers pass the same non-None owner label

    def flag(oracle, shape, detail, witness=None):
        k = (oracle, shape)
        if k in flagged:
            return
        flagged.add(k)
        res.add(oracle, comp, shape, detail, witness if witness is not None else {"history": led.history()})

    def label(wi):
        spec = case["workers"][wi]
        return spec["owner"] if "owner" in spec else f"w{wi}"

    def do_acquire(r, wi):
        if comp == "Mutex":
            return prim.acquire(owner=label(wi))
        if comp == "Semaphore":
            return prim.acquire(r.amount)
        return prim.acquire_read() if r.mode == "r" else prim.acquire_write()

    def do_try(r, wi):
        if comp == "Mutex":
            free = not prim.is_locked
            return prim.try_acquire(owner=label(wi)), free
        if comp == "Semaphore":
            free = prim.available >= r.amount
            return prim.try_acquire(r.amount), free
        if r.mode == "r":
            free = not prim.is_write_locked and prim.waiters == 0 and (not cap or prim.active_readers < cap)
            return prim.try_acquire_read(), free
        free = not prim.is_write_locked and prim.active_readers == 0 and prim.waiters == 0
        return prim.try_acquire_write(), free

    def do_release(r):
        if comp == "Mutex":
            return prim.release()
        if comp == "Semaphore":
            return prim.release(r.amount)
        return prim.release_read() if r.mode == "r" else prim.release_write()

    def worker(wi, spec):
        def proc():
            first = True
            for st in spec["steps"]:
                if not first or st["gap"]:
                    yield st["gap"] * TS
                first = False
                mode = st.get("mode", "x")
                if st.get("misuse") and comp != "Semaphore":
                    # release without holding anything, attempted only when nobody holds in that mode (HEAD raises)
                    nothing = (not prim.is_locked) if comp == "Mutex" else (
                        prim.active_readers == 0 if mode == "r" else not prim.is_write_locked)
                    if nothing:
                        res.count("over_releases_attempted")
                        before = (prim.waiters,) + ((prim.is_locked,) if comp == "Mutex" else (prim.active_readers, prim.is_write_locked))
                        try:
                            if comp == "Mutex":
                                prim.release()
                            elif mode == "r":
                                prim.release_read()
                            else:
                                prim.release_write()
                        except RuntimeError:
                            pass
                        else:
                            flag("over-release-accepted", variant + "/release-without-hold", f"release ({mode}) by a non-holder was accepted")
                        after = (prim.waiters,) + ((prim.is_locked,) if comp == "Mutex" else (prim.active_readers, prim.is_write_locked))
                        if after != before:
                            flag("over-release-changed-state", variant + "/release-without-hold", f"state went {before} -> {after}")
                r = led.request(wi, mode=mode, amount=st.get("amt", 1), hold=st["hold"], how=st["op"])
                if st["op"] == "try":
                    ok, free = do_try(r, wi)
                    r.blocked = False
                    if not ok:
                        r.outcome = "denied"
                        if free:
                            flag("try-denied-although-free", variant, f"try ({mode}, {r.amount}) denied on a free primitive")
                        continue
                    led.granted(r)
                else:
                    w_before = prim.waiters

                    def after_first(_yielded, r=r, w_before=w_before):
                        r.blocked = prim.waiters > w_before

                    yield from drive(do_acquire(r, wi), after_first)
                    led.granted(r)
                t0 = run.now_ns()
                yield st["hold"] * TS
                if run.now_ns() - t0 != st["hold"] * 1_953_125:
                    flag("duplicate-wake", variant, f"a hold of {st['hold']} ticks lasted {run.now_ns() - t0} ns")
                if st.get("misuse") and comp == "Semaphore":
                    n = r.amount + st["misuse"]
                    if prim.available + n > cap:
                        # must be refused: the pool would exceed its capacity (waiters may be queued right now)
                        before = (prim.available, prim.waiters)
                        res.count("over_releases_attempted")
                        if prim.waiters:
                            res.count("over_releases_with_waiters_queued")
                        try:
                            prim.release(n)
                        except ValueError:
                            if (prim.available, prim.waiters) != before:
                                flag("over-release-changed-state", variant + "/release-more-than-held",
                                     f"release({n}) was refused but (available, waiters) went {before} -> {(prim.available, prim.waiters)}")
                        else:
                            flag("over-release-accepted", variant + "/release-more-than-held",
                                 f"holder of {r.amount} called release({n}) with available={before[0]} capacity={cap} "
                                 f"waiters={before[1]}: accepted")
                            led.released(r)
                            continue
                try:
                    evs = do_release(r)
                except (RuntimeError, ValueError) as exc:
                    flag("release-raises", variant, f"release by holder {r.rid} raised {exc!r}")
                    evs = None
                led.released(r)
                if evs:
                    yield 0.0, evs

        return proc

    for wi, spec in enumerate(case["workers"]):
        run.spawn(spec["at"], worker(wi, spec))

    def client_state():
        hs = led.holders()
        nr = sum(1 for r in hs if r.mode == "r")
        nw = sum(1 for r in hs if r.mode == "w")
        amt = sum(r.amount for r in hs if r.mode == "x")
        return nr, nw, amt

    def after_delivery(ev):
        res.count("counter_samples")
        nr, nw, amt = client_state()
        if comp == "Mutex":
            if amt > 1:
                flag("over-admission", variant, f"{amt} clients hold the mutex")
            if amt == 1 and not prim.is_locked:
                flag("held-plus-available", variant, "a client holds the mutex but is_locked is False")
        elif comp == "Semaphore":
            if amt > cap:
                flag("over-admission", variant, f"clients hold {amt} permits of {cap}")
            a = prim.available
            if a < 0 or a > cap:
                flag("available-out-of-range", variant, f"available={a} capacity={cap}")
            if amt + a > cap:
                flag("held-plus-available", variant, f"client-held {amt} + available {a} > capacity {cap}")
        else:
            if nw > 1 or (nw == 1 and nr > 0):
                flag("over-admission", variant, f"writer not exclusive: {nw} writers, {nr} readers hold")
            if cap and nr > cap:
                flag("over-admission", variant, f"{nr} readers hold with max_readers={cap}")
            if nr > prim.active_readers or (nw == 1 and not prim.is_write_locked):
                flag("held-plus-available", variant, f"clients hold r={nr} w={nw}; lock says readers={prim.active_readers} write_locked={prim.is_write_locked}")

    def head_fits(head):
        if comp == "Mutex":
            return not prim.is_locked
        if comp == "Semaphore":
            return prim.available >= head.amount
        if head.mode == "r":
            return not prim.is_write_locked and (not cap or prim.active_readers < cap)
        return not prim.is_write_locked and prim.active_readers == 0

    def quiescent_check(where):
        res.count("end_of_instant_checks")
        nr, nw, amt = client_state()
        if comp == "Mutex":
            if prim.is_locked != (amt == 1):
                flag("held-plus-available", variant, f"{where}: is_locked={prim.is_locked} but {amt} client holders")
        elif comp == "Semaphore":
            if amt + prim.available != cap:
                flag("held-plus-available", variant, f"{where}: client-held {amt} + available {prim.available} != capacity {cap}")
        else:
            if prim.active_readers != nr or prim.is_write_locked != (nw == 1):
                flag("held-plus-available", variant, f"{where}: lock readers={prim.active_readers} write_locked={prim.is_write_locked}; clients r={nr} w={nw}")
        pend = [r for r in led.pending() if r.blocked]
        if pend:
            head = min(pend, key=lambda r: r.s_req)
            if head_fits(head):
                flag("head-waiter-fits-free-capacity", variant, f"{where}: head waiter {head.rid} ({head.mode},{head.amount}) fits the free capacity")

    status = run.go(after_delivery, lambda t: quiescent_check("end-of-instant"))
    if status == "spin":
        pend = [r for r in led.pending() if r.blocked]
        shape = "waiter-blocked-behind-positive-hold" if pend else "no-waiter"
        flag("frozen-clock", shape, f"{len(pend)} blocked waiter(s); holder is inside a positive hold", run.spin_witness())
    elif status == "completed":
        quiescent_check("fixpoint")
        # arrival order among blocked acquirers, judged on simulated time (same-instant notice order is not judged)
        bl = [r for r in led.reqs if r.blocked]
        for i, a in enumerate(bl):
            for b in bl[i + 1:]:
                if b.t_grant is None:
                    continue
                res.count("grants_checked")
                if a.t_grant is None or a.t_grant > b.t_grant:
                    flag("grant-out-of-order", variant + "/later-arrival-served-at-earlier-time",
                         f"blocked request {b.rid} (arrived later) granted at {b.t_grant} ns, earlier request {a.rid} at {a.t_grant}")
        if led.pending() and not led.holders():
            flag("stranded-waiter", variant, f"{len(led.pending())} acquirers never served although nobody holds the primitive")
    res.count("requests", len(led.reqs))
    res.count("blocked_requests", sum(1 for r in led.reqs if r.blocked))
    res.count("grants_checked", sum(1 for r in led.reqs if r.s_grant is not None))
    mb = max_overlap_blocked(led.reqs)
    res.nontrivial = mb >= 2 and any(r.hold > 0 and r.s_grant is not None for r in led.reqs)
    res.seen("components", variant)
    return res


# ==========================================================================
# Barrier


def gen_barrier(rng: random.Random, tier: str) -> dict:
    parties = rng.choice([1, 2, 2, 3, 4, 5])
    groups = rng.choice([1, 1, 2])
    nw = parties * groups
    ctl = []
    if rng.random() < 0.5:
        # reset()/abort() issued by a controller process while parties may be parked, then further rounds
        for _ in range(rng.randint(1, 3)):
            ctl.append({"at": rng.randint(0, 12), "op": rng.choice(["reset", "reset", "abort", "abort_reset"])})
        if all(c["op"] == "abort" for c in ctl):
            ctl.append({"at": max(c["at"] for c in ctl) + rng.randint(0, 3), "op": "reset"})
    rounds = rng.randint(2, 5) if ctl else rng.randint(1, 3)
    same = rng.random() < (0.1 if ctl else 0.3)
    workers = []
    for _ in range(nw):
        workers.append({"at": 0 if same else rng.randint(0, 4),
                        "rounds": [0 if same else rng.choice([0, 0, 1, 2, 5]) for _ in range(rounds)]})
    case = {"kind": "Barrier", "parties": parties, "workers": workers}
    if ctl:
        case["ctl"] = ctl
    return case


def run_barrier(case: dict) -> Result:
    from happysimulator.components.sync.barrier import Barrier

    res = Result()
    comp = "Barrier"
    n = case["parties"]
    prim = Barrier("prim", parties=n)
    run = Run(res, [prim])
    led = run.ledger
    flagged: set = set()
    ctl = case.get("ctl", [])
    tag = "/after-reset-or-abort" if ctl else ""

    # Round bookkeeping at the client boundary (plain counting): a round is *complete* when its
    # `parties`-th party has called wait(), or when reset()/abort() was called while it was open.
    class Round:
        __slots__ = ("members", "complete", "why")

        def __init__(self):
            self.members = []
            self.complete = False
            self.why = None

    state = {"round": Round(), "broken": False, "ctl_calls": 0, "parked_at_ctl": 0}

    def flag(oracle, shape, detail, witness=None):
        k = (oracle, shape)
        if k in flagged:
            return
        flagged.add(k)
        res.add(oracle, comp, shape, detail, witness if witness is not None else {"history": led.history()})

    def close_round(why):
        rd = state["round"]
        rd.complete = True
        rd.why = why
        state["round"] = Round()

    def worker(wi, spec):
        def proc():
            for work in spec["rounds"]:
                yield work * TS
                r = led.request(wi)
                expect_broken = state["broken"]
                rd = state["round"]
                if not expect_broken:
                    rd.members.append(r)
                    r.extra = rd
                    if len(rd.members) >= n:
                        close_round("tripped")

                def after_first(yielded, r=r):
                    r.blocked = yielded

                try:
                    yield from drive(prim.wait(), after_first)
                except RuntimeError as exc:
                    if expect_broken or state["broken"]:
                        r.outcome = "broken"  # documented: wait() raises on a broken barrier
                        res.count("waits_refused_broken")
                        continue
                    r.outcome = "error"
                    if r.extra is not None and r in r.extra.members and not r.extra.complete:
                        r.extra.members.remove(r)
                    flag("wait-raises", "barrier-not-broken", f"wait() raised {exc!r} although the barrier is not broken")
                    return
                if r.extra is None:
                    # admitted although the harness saw abort() without reset(): count it as an arrival of the open round
                    rd = state["round"]
                    rd.members.append(r)
                    r.extra = rd
                    if len(rd.members) >= n:
                        close_round("tripped")
                if not r.extra.complete:
                    flag("over-admission", "passed-before-all-parties-arrived" + tag,
                         f"arrival #{r.rid} passed although its round has only {len(r.extra.members)} of {n} parties "
                         f"and no reset()/abort() released it")
                led.granted(r)
                res.count("grants_checked")

        return proc

    def controller(spec):
        def proc():
            parked = len(state["round"].members)
            state["ctl_calls"] += 1
            state["parked_at_ctl"] += parked
            if spec["op"] in ("abort", "abort_reset"):
                close_round("abort")
                state["broken"] = True
                prim.abort()
                if spec["op"] == "abort_reset":
                    yield 1 * TS
                    close_round("reset")
                    state["broken"] = False
                    prim.reset()
            else:
                close_round("reset")
                state["broken"] = False
                prim.reset()
            return
            yield  # pragma: no cover  (makes this a generator for every branch)

        return proc

    for wi, spec in enumerate(case["workers"]):
        run.spawn(spec["at"], worker(wi, spec))
    for spec in ctl:
        run.spawn(spec["at"], controller(spec))

    def after_delivery(ev):
        res.count("counter_samples")
        if prim.waiting > n - 1:
            flag("over-admission", "more-waiting-than-parties" + tag, f"waiting={prim.waiting} parties={n}")

    def quiescent(where):
        res.count("end_of_instant_checks")
        for r in led.reqs:
            if r.s_grant is None and r.outcome is None and r.extra is not None and r.extra.complete:
                flag("party-not-released", "generation-complete" + tag,
                     f"{where}: arrival #{r.rid} still waits although its round is complete ({r.extra.why}, "
                     f"{len(r.extra.members)} parties, parties={n})")
                break
        open_members = len(state["round"].members)
        if prim.waiting != open_members:
            flag("held-plus-available", "waiting-count" + tag,
                 f"{where}: waiting={prim.waiting}, parties in the open round={open_members}, parties={n}")

    status = run.go(after_delivery, lambda t: quiescent("end-of-instant"))
    if status == "spin":
        pend = led.pending()
        flag("frozen-clock", "party-waiting-for-later-arrival" if pend else "no-waiter",
             f"{len(pend)} parties parked at the barrier", run.spin_witness())
    elif status == "completed":
        quiescent("fixpoint")
    res.count("requests", len(led.reqs))
    res.count("blocked_requests", sum(1 for r in led.reqs if r.blocked))
    res.count("barrier_ctl_calls", state["ctl_calls"])
    res.count("barrier_parties_parked_at_ctl", state["parked_at_ctl"])
    mb = max_overlap_blocked(led.reqs)
    waited = any(r.blocked and r.t_grant is not None and r.t_grant > r.t_req for r in led.reqs)
    later = len({w["at"] + sum(w["rounds"][:1]) for w in case["workers"]}) > 1
    res.nontrivial = mb >= 2 and (waited or (status == "spin" and later))
    res.seen("components", comp + tag)
    return res


# ==========================================================================
# Condition (+ its Mutex)


def gen_condition(rng: random.Random, tier: str) -> dict:
    nc = rng.randint(1, 6)
    np_ = rng.randint(1, 4)
    same = rng.random() < 0.3
    consumers = [{"at": 0 if same else rng.randint(0, 3), "hold": 0 if same else rng.choice([0, 0, 1, 2])} for _ in range(nc)]
    producers = []
    for i in range(np_):
        producers.append({
            "at": 0 if same else rng.randint(1, 8),
            "n": rng.choice([1, 1, 2, 3, "all"]),
            "hold": 0 if same else rng.choice([0, 0, 1, 3]),
        })
    # a last notify_all so that every consumer can finish
    producers.append({"at": 0 if same else rng.randint(9, 12), "n": "all", "hold": 0})
    # owner labels of the condition's mutex: distinct per process, none, or one label shared by every process
    return {"kind": "Condition", "consumers": consumers, "producers": producers,
            "owners": rng.choice(["distinct", "distinct", "none", "shared", "shared"])}


def run_condition(case: dict) -> Result:
    from happysimulator.components.sync.condition import Condition
    from happysimulator.components.sync.mutex import Mutex

    res = Result()
    comp = "Condition"
    mutex = Mutex("lock")
    cond = Condition("cond", lock=mutex)
    run = Run(res, [mutex, cond])
    led = run.ledger
    flagged: set = set()
    in_cs = [0]           # clients inside a critical section (hold the mutex at the client boundary)
    model_q: list = []    # consumers waiting, in wait order (what "arrival order" refers to)
    allowed: list = []    # consumers that some notify has selected, in selection order
    woke: list = []

    def flag(oracle, shape, detail, witness=None):
        k = (oracle, shape)
        if k in flagged:
            return
        flagged.add(k)
        res.add(oracle, comp, shape, detail, witness if witness is not None else {"history": led.history(), "woke": woke[:20], "allowed": [r.rid for r in allowed][:20]})

    def enter():
        in_cs[0] += 1
        if in_cs[0] > 1:
            flag("over-admission", "mutex-shared", f"{in_cs[0]} processes are inside the critical section")

    def owner_label(own):
        scheme = case.get("owners", "distinct")
        return own if scheme == "distinct" else (None if scheme == "none" else "entity-A")

    def consumer(wi, spec):
        def proc():
            yield from mutex.acquire(owner=owner_label(f"c{wi}"))
            enter()
            r = led.request(wi, mode="wait")
            model_q.append(r)
            in_cs[0] -= 1  # wait() releases the mutex in its first step

            def after_first(yielded, r=r):
                r.blocked = True

            try:
                yield from drive(cond.wait(), after_first)
            except RuntimeError as exc:
                flag("wait-raises", "holding-mutex", f"wait() raised {exc!r}")
                return
            enter()
            led.granted(r)
            woke.append(r.rid)
            res.count("grants_checked")
            if r not in allowed:
                flag("over-admission", "woken-without-notify", f"consumer {r.rid} returned from wait() but no notify selected it")
            if not mutex.is_locked:
                flag("held-plus-available", "woken-without-mutex", f"consumer {r.rid} returned from wait() and the mutex is not locked")
            yield spec["hold"] * TS
            in_cs[0] -= 1
            mutex.release()
            led.released(r)

        return proc

    def producer(wi, spec):
        def proc():
            yield from mutex.acquire(owner=owner_label(f"p{wi}"))
            enter()
            yield spec["hold"] * TS
            k = len(model_q) if spec["n"] == "all" else min(spec["n"], len(model_q))
            for _ in range(k):
                allowed.append(model_q.pop(0))
            if spec["n"] == "all":
                cond.notify_all()
            else:
                cond.notify(spec["n"])
            in_cs[0] -= 1
            mutex.release()

        return proc

    for wi, spec in enumerate(case["consumers"]):
        run.spawn(spec["at"], consumer(wi, spec))
    for wi, spec in enumerate(case["producers"]):
        run.spawn(spec["at"], producer(wi, spec))

    def after_delivery(ev):
        res.count("counter_samples")
        if in_cs[0] == 1 and not mutex.is_locked:
            flag("held-plus-available", "mutex-flag", "a client is inside the critical section but is_locked is False")
        if cond.waiters != len(model_q):
            flag("held-plus-available", "waiter-count", f"Condition.waiters={cond.waiters}, consumers waiting={len(model_q)}")

    def quiescent(where):
        res.count("end_of_instant_checks")
        if mutex.is_locked != (in_cs[0] == 1):
            flag("held-plus-available", "mutex-flag", f"{where}: is_locked={mutex.is_locked}, clients in critical section={in_cs[0]}")

    status = run.go(after_delivery, lambda t: quiescent("end-of-instant"))
    if status == "spin":
        wit = run.spin_witness()
        if cond.waiters > 0:
            flag("frozen-clock", "waiter-parked-until-later-notify", f"{cond.waiters} consumers wait for a notify", wit)
        if mutex.waiters > 0:
            # the Condition's mutex spins on its own (same mechanism and key as in the lock family)
            res.add("frozen-clock", "Mutex", "waiter-blocked-behind-positive-hold",
                    f"{mutex.waiters} processes wait for the condition's mutex", wit)
        if cond.waiters == 0 and mutex.waiters == 0:
            flag("frozen-clock", "no-waiter", "nobody waits", wit)
    elif status == "completed":
        quiescent("fixpoint")
        for r in allowed:
            if r.s_grant is None:
                flag("stranded-waiter", "notified-never-returned", f"consumer {r.rid} was selected by a notify and never returned from wait()")
                break
        # wake order = wait order, judged on simulated time
        for i, a in enumerate(allowed):
            for b in allowed[i + 1:]:
                if a.t_grant is not None and b.t_grant is not None and a.t_grant > b.t_grant:
                    flag("grant-out-of-order", "later-waiter-returned-at-earlier-time",
                         f"consumer {b.rid} returned at {b.t_grant} ns before earlier waiter {a.rid} at {a.t_grant}")
    res.count("requests", len(led.reqs))
    res.count("blocked_requests", sum(1 for r in led.reqs if r.blocked))
    mb = max_overlap_blocked(led.reqs)
    res.nontrivial = mb >= 2 and (any(r.t_grant is not None and r.t_grant > r.t_req for r in led.reqs) or status == "spin")
    res.seen("components", comp)
    return res



# ==========================================================================
# ConnectionPool


def gen_connpool(rng: random.Random, tier: str) -> dict:
    mx = rng.choice([1, 1, 2, 3, 4])
    mn = rng.choice([0, 0, 0, 1, mx])
    mn = min(mn, mx)
    lat = rng.choice([0, 1, 2, 4, 8, 16])           # connection set-up latency in ticks
    # seconds; round 8 adds timeouts of a few milliseconds (the waiters' poll interval is timeout/10: C09-r8-1 rounded
    # it to whole milliseconds, so a timeout below 5 ms made a blocked acquire() poll every 0 s at a frozen clock)
    timeout = rng.choice([0.05, 0.2, 1.0, 5.0, 0.002, 0.004, 0.013])
    idle = rng.choice([3, 10, 40, 400])             # ticks
    nw = rng.randint(2, 10)
    spread = rng.choice([0, 0, 1, 3, 10, 20])
    workers = []
    for _ in range(nw):
        steps = [{"hold": rng.choice([0, 1, 2, 5, 10, 30]), "gap": rng.choice([0, 0, 1, 3, 12])} for _ in range(rng.randint(1, 3))]
        workers.append({"at": rng.randint(0, spread), "steps": steps})
    case = {
        "kind": "ConnectionPool", "max": mx, "min": mn, "latency": lat, "timeout": timeout, "idle": idle,
        "warmup": (rng.choice([None, 0, 0, 2]) if mn > 0 else None), "workers": workers,
    }
    if rng.random() < 0.15:
        # close_all() while clients hold connections / wait in the queue, then the pool is used again
        case["close_at"] = rng.randint(1, spread + 15)
        for w in workers:
            w["steps"].append({"hold": rng.choice([0, 1, 5]), "gap": rng.choice([0, 2, 8])})
    return case


def run_connpool(case: dict) -> Result:
    from happysimulator.components.client.connection_pool import ConnectionPool
    from happysimulator.core.entity import Entity
    from happysimulator.distributions.constant import ConstantLatency

    class Sink(Entity):
        def handle_event(self, event):
            return None

    res = Result()
    comp = "ConnectionPool"
    mx, mn, lat = case["max"], case["min"], case["latency"]
    handovers: list = []  # (seq, conn_id) for every activation, via the public on_acquire callback

    longest = max(sum(st["gap"] + st["hold"] + lat + int(case["timeout"] * 512) + 60 for st in w["steps"]) + w["at"] for w in case["workers"])
    end_tick = longest + mn * lat + case["idle"] + 50
    pool_box = []
    run_box = []

    def on_acquire(conn):
        handovers.append((run_box[0].ledger._tick(), conn.id))

    pool = ConnectionPool(
        "pool", target=Sink("sink"), min_connections=mn, max_connections=mx,
        connection_timeout=case["timeout"], idle_timeout=case["idle"] * TS,
        connection_latency=ConstantLatency(lat * TS), on_acquire=on_acquire,
    )
    pool_box.append(pool)
    run = Run(res, [pool], end_tick=end_tick, total_cap=400_000)
    run_box.append(run)
    led = run.ledger
    flagged: set = set()
    setups = [0]          # client requests currently inside a connection set-up
    setup_overlap = [False]
    warm_until = None
    if case.get("warmup") is not None and mn > 0:
        warm_until = (case["warmup"] + mn * lat) * 1_953_125

    def flag(oracle, shape, detail, witness=None):
        k = (oracle, shape)
        if k in flagged:
            return
        flagged.add(k)
        res.add(oracle, comp, shape, detail, witness if witness is not None else {"history": led.history(), "handovers": handovers[:40]})

    latched = []

    def over_shape():
        if not latched:
            latched.append(_over_shape())
        return latched[0]

    def _over_shape():
        if warm_until is not None and run.now_ns() <= warm_until + lat * 1_953_125:
            return "arrivals-during-warmup"
        if setup_overlap[0]:
            return "arrivals-during-setup"
        return "no-overlapping-setup"

    def worker(wi, spec):
        def proc():
            first = True
            for st in spec["steps"]:
                if not first or st["gap"]:
                    yield st["gap"] * TS
                first = False
                r = led.request(wi, hold=st["hold"])
                p_before = pool.pending_requests
                in_setup = [False]

                def after_first(yielded, r=r, p_before=p_before, in_setup=in_setup):
                    r.blocked = pool.pending_requests > p_before
                    if yielded and not r.blocked:
                        in_setup[0] = True
                        if setups[0] > 0 or (warm_until is not None and case["warmup"] * 1_953_125 <= run.now_ns() < warm_until):
                            setup_overlap[0] = True
                        setups[0] += 1

                try:
                    conn = yield from drive(pool.acquire(), after_first)
                except TimeoutError:
                    if r.outcome == "timeout":
                        continue  # woken with None by close_all(): it left the queue at the close
                    r.outcome = "timeout"
                    r.s_rel = led._tick()
                    res.count("timeouts")
                    if not latched and (pool.idle_connections > 0 or pool.total_connections < mx):
                        flag("timeout-with-free-capacity", "waiter-timed-out", f"acquire timed out while idle={pool.idle_connections} total={pool.total_connections} max={mx}")
                    continue
                finally:
                    if in_setup[0]:
                        setups[0] -= 1
                led.granted(r)
                res.count("grants_checked")
                r.extra = conn.id
                if conn.id <= closed_upto[0]:
                    # handed over before close_all() and noticed after it: the connection is gone, not a holder
                    r.outcome = "closed"
                    led.released(r)
                for o in led.holders():
                    if o is not r and o.extra == conn.id:
                        flag("over-admission", "connection-shared", f"connection {conn.id} handed to request {r.rid} while request {o.rid} still holds it")
                yield st["hold"] * TS
                evs = pool.release(conn)  # a connection closed by close_all() is unknown to the pool: ignored
                if r.s_rel is None:
                    led.released(r)
                yield 0.0, evs

        return proc

    closed_upto = [0]  # highest connection id that existed when close_all() was called

    def closer():
        res.count("pool_close_all_calls")
        res.count("pool_holders_at_close", len(led.holders()))
        res.count("pool_waiters_at_close", pool.pending_requests)
        for r in led.holders():
            r.outcome = "closed"
            led.released(r)
        for r in led.pending():
            if r.blocked:
                r.outcome = "timeout"  # leaves the queue now; its acquire() raises at its next poll
                r.s_rel = led._tick()
        closed_upto[0] = max([cid for _, cid in handovers] + [pool.stats.connections_created])
        pool.close_all()
        return None
        yield  # pragma: no cover

    for wi, spec in enumerate(case["workers"]):
        run.spawn(spec["at"], worker(wi, spec))
    if case.get("close_at") is not None:
        run.spawn(case["close_at"], closer)
    if case.get("warmup") is not None and mn > 0:
        ev = pool.warmup()
        ev.time = at(case["warmup"])
        run.schedule(ev)

    def after_delivery(ev):
        res.count("counter_samples")
        a, i, t = pool.active_connections, pool.idle_connections, pool.total_connections
        held = len(led.holders())
        if held > mx:
            flag("over-admission", over_shape(), f"{held} clients hold a connection, max_connections={mx}")
        if a > mx or t > mx:
            flag("over-admission", over_shape(), f"pool reports active={a} total={t}, max_connections={mx}")
        if a + i > t or a < 0 or i < 0:
            flag("held-plus-available", "active-idle-total", f"active={a} idle={i} total={t}")
        if held > a:
            flag("held-plus-available", "client-held-exceeds-active", f"clients hold {held}, pool says active={a}")

    def quiescent(where):
        res.count("end_of_instant_checks")
        if latched:
            return  # the pool is already beyond its limit: what follows is a consequence of the over-admission
        if pool.pending_requests > 0 and (pool.idle_connections > 0 or pool.total_connections < mx):
            flag("head-waiter-fits-free-capacity", "waiter-queued", f"{where}: pending={pool.pending_requests} idle={pool.idle_connections} total={pool.total_connections} max={mx}")

    status = run.go(after_delivery, lambda t: quiescent("end-of-instant"))
    if status == "spin":
        flag("frozen-clock", "pool", "instant cap exceeded", run.spin_witness())
    elif status == "completed":
        quiescent("fixpoint")
        if led.pending():
            res.inconclusive = "end_time reached with acquirers still waiting"
        elif not led.holders():
            if pool.active_connections != 0 or pool.idle_connections != pool.total_connections:
                flag("leak", "all-released", f"everything released: active={pool.active_connections} idle={pool.idle_connections} total={pool.total_connections}")
            st = pool.stats
            if st.connections_created - st.connections_closed != pool.total_connections:
                flag("leak", "created-closed-total", f"created={st.connections_created} closed={st.connections_closed} total={pool.total_connections}")
        # hand-over order among queued acquirers (pool side, from on_acquire)
        bl = [r for r in led.reqs if r.blocked]
        def handover_seq(r):
            if r.s_grant is None:
                return None
            c = [s for s, cid in handovers if cid == r.extra and s < r.s_grant]
            return c[-1] if c else None
        hs = {r.rid: handover_seq(r) for r in bl}
        for x, a in enumerate(bl):
            for b in bl[x + 1:]:
                hb = hs[b.rid]
                if hb is None:
                    continue
                ha = hs[a.rid]
                a_end = a.s_rel if a.outcome == "timeout" else (ha if ha is not None else float("inf"))
                if a.outcome == "timeout" and a_end < hb:
                    continue  # a had left the queue before b was served
                if ha is None or ha > hb:
                    flag("grant-out-of-order", "queued-acquirers", f"queued request {b.rid} got its connection before earlier queued request {a.rid}")
    res.count("requests", len(led.reqs))
    res.count("blocked_requests", sum(1 for r in led.reqs if r.blocked))
    mb = max_overlap_blocked(led.reqs)
    res.nontrivial = (mb >= 2 and any(r.hold > 0 and r.s_grant is not None for r in led.reqs)) or setup_overlap[0]
    if setup_overlap[0]:
        res.count("cases_with_overlapping_setup")
    res.seen("components", comp)
    return res



# ==========================================================================
# Bulkhead (request shaped: permits are taken and returned by the component itself)


def gen_bulkhead(rng: random.Random, tier: str) -> dict:
    mc = rng.choice([1, 1, 2, 3, 4])
    mq = rng.choice([0, 1, 2, 5, 20])
    mwt = rng.choice([None, None, 1, 3, 8])  # ticks
    n = rng.randint(2, 14)
    spread = rng.choice([0, 0, 2, 6, 15])
    reqs = [{"at": rng.randint(0, spread), "hold": rng.choice([0, 1, 2, 3, 5, 8])} for _ in range(n)]
    # caller-side correlation ids riding in metadata["request_id"], as the library's Client writes them (1, 2, 3, ...
    # per client): several clients behind one bulkhead produce equal ids on overlapping requests
    scheme = rng.choice(["none", "distinct", "per-client", "per-client", "all-equal", "small-ints"])
    if scheme != "none":
        nclients = rng.choice([2, 2, 3])
        counters = [0] * nclients
        for i, q in enumerate(sorted(reqs, key=lambda q: q["at"])):
            if scheme == "distinct":
                q["request_id"] = 1000 + i
            elif scheme == "per-client":
                c = i % nclients
                counters[c] += 1
                q["client"] = c
                q["request_id"] = counters[c]
            elif scheme == "all-equal":
                q["request_id"] = 7
            else:
                q["request_id"] = rng.randint(1, 4)  # also collides with the bulkhead's own numbering
    return {"kind": "Bulkhead", "max_concurrent": mc, "max_wait_queue": mq, "max_wait_time": mwt, "reqs": reqs}


def run_bulkhead(case: dict) -> Result:
    from happysimulator.components.resilience.bulkhead import Bulkhead
    from happysimulator.core.entity import Entity
    from happysimulator.core.event import Event

    res = Result()
    comp = "Bulkhead"
    mc, mq, mwt = case["max_concurrent"], case["max_wait_queue"], case["max_wait_time"]
    flagged: set = set()
    box = []

    ids = [q["request_id"] for q in case["reqs"] if "request_id" in q]
    id_tag = "/colliding-request-ids" if len(set(ids)) < len(ids) else ""

    def flag(oracle, shape, detail, witness=None):
        shape = shape + id_tag
        k = (oracle, shape)
        if k in flagged:
            return
        flagged.add(k)
        led = box[0].ledger
        res.add(oracle, comp, shape, detail, witness if witness is not None else {"history": led.history()})

    by_rid: dict = {}

    class SlowTarget(Entity):
        def handle_event(self, event):
            rid = event.context["metadata"]["rid"]
            r = by_rid.get(rid)
            led = box[0].ledger
            if r is None:
                flag("granted-twice", "unknown-request", f"target received request {rid} that never arrived at the bulkhead")
                return None
            if r.s_grant is not None:
                flag("granted-twice", "same-request-started-twice", f"request {rid} entered the target twice")
            led.granted(r)
            res.count("grants_checked")
            yield r.hold * TS
            led.released(r)
            return None

    target = SlowTarget("target")
    bh = Bulkhead("bh", target, max_concurrent=mc, max_wait_queue=mq, max_wait_time=(mwt * TS if mwt else None))
    run = Run(res, [bh, target])
    box.append(run)
    led = run.ledger
    for i, q in enumerate(case["reqs"]):
        md = {"rid": i, "hold": q["hold"]}
        if "request_id" in q:
            md["request_id"] = q["request_id"]
        if "client" in q:
            md["client"] = f"client-{q['client']}"
        run.schedule(Event(time=at(q["at"]), event_type="c09.req", target=bh, context={"metadata": md}))
    last = {"rej": 0, "queued": 0, "to": 0}
    timed_out_total = [0]

    def after_delivery(ev):
        res.count("counter_samples")
        st = bh.stats
        if ev.target is bh and ev.event_type == "c09.req":
            rid = ev.context["metadata"]["rid"]
            r = led.request(rid, hold=case["reqs"][rid]["hold"])
            r.rid = rid
            by_rid[rid] = r
            if st.rejected_requests > last["rej"]:
                r.outcome = "denied"
                r.blocked = False
                if bh.active_count < mc:
                    flag("try-denied-although-free", "rejected", f"request {rid} rejected with active={bh.active_count} max={mc}")
            elif st.queued_requests > last["queued"]:
                r.blocked = True
            else:
                r.blocked = False
        last["rej"], last["queued"] = st.rejected_requests, st.queued_requests
        timed_out_total[0] = st.timed_out_requests
        if mwt and st.timed_out_requests:
            # a queued request may be given up only after it waited max_wait_time (and was not admitted meanwhile)
            now = run.now_ns()
            due = sum(1 for q in led.reqs if q.blocked and q.s_grant is None and q.t_req + mwt * 1_953_125 <= now)
            res.count("queue_timeouts_checked")
            if st.timed_out_requests > due:
                flag("timed-out-before-max-wait-time", "queued-request",
                     f"timed_out_requests={st.timed_out_requests} but only {due} unserved queued request(s) have waited "
                     f"max_wait_time ({mwt} ticks) by now")
        inserv = len(led.holders())
        if inserv > mc:
            flag("over-admission", "in-service-above-limit", f"{inserv} requests inside the target, max_concurrent={mc}")
        if bh.active_count > mc or bh.active_count < 0:
            flag("over-admission", "active-count", f"active_count={bh.active_count} max_concurrent={mc}")
        if bh.active_count + bh.available_permits != mc:
            flag("held-plus-available", "permits", f"active={bh.active_count} + available={bh.available_permits} != {mc}")
        if bh.queue_depth > mq:
            flag("over-admission", "wait-queue", f"queue_depth={bh.queue_depth} max_wait_queue={mq}")
        if inserv > bh.active_count:
            flag("held-plus-available", "in-service-exceeds-active", f"{inserv} in service, active_count={bh.active_count}")

    def quiescent(where):
        res.count("end_of_instant_checks")
        if bh.queue_depth > 0 and bh.active_count < mc:
            flag("head-waiter-fits-free-capacity", "queued-request", f"{where}: queue_depth={bh.queue_depth} active={bh.active_count} max={mc}")
        if bh.active_count != len(led.holders()):
            flag("held-plus-available", "active-vs-in-service", f"{where}: active_count={bh.active_count}, in service={len(led.holders())}")

    status = run.go(after_delivery, lambda t: quiescent("end-of-instant"))
    if status == "spin":
        flag("frozen-clock", "bulkhead", "instant cap exceeded", run.spin_witness())
    elif status == "completed":
        quiescent("fixpoint")
        started = sum(1 for r in led.reqs if r.s_grant is not None)
        st = bh.stats
        if bh.active_count != 0 or bh.queue_depth != 0:
            flag("leak", "after-all-completed", f"run over: active_count={bh.active_count} queue_depth={bh.queue_depth}")
        if started + st.rejected_requests + st.timed_out_requests != len(case["reqs"]):
            flag("stranded-waiter", "request-neither-served-nor-refused",
                 f"arrivals={len(case['reqs'])} started={started} rejected={st.rejected_requests} timed_out={st.timed_out_requests}")
        # FIFO among queued requests (logical order: everything here is event driven and deterministic)
        q = [r for r in led.reqs if r.blocked]
        n_unserved = 0
        for x, a in enumerate(q):
            for b in q[x + 1:]:
                if b.s_grant is None:
                    continue
                if a.s_grant is None:
                    n_unserved += 1
                    continue  # a may have timed out in the queue (not attributable from public state)
                if a.s_grant > b.s_grant:
                    flag("grant-out-of-order", "queued-requests", f"queued request {b.rid} started before earlier queued request {a.rid}")
        if mwt is None and any(r.blocked and r.s_grant is None for r in led.reqs):
            flag("stranded-waiter", "queued-no-timeout", "a queued request was never started although no wait timeout is configured")
    res.count("requests", len(led.reqs))
    res.count("blocked_requests", sum(1 for r in led.reqs if r.blocked))
    mb = max_overlap_blocked(led.reqs)
    res.nontrivial = mb >= 2 and any(r.hold > 0 and r.s_grant is not None for r in led.reqs)
    res.seen("components", comp)
    return res


# ==========================================================================
# ThreadPool / Server with the concurrency models (queue + driver + limiter)


def gen_limiter(rng: random.Random, tier: str) -> dict:
    kind = rng.choice(["ThreadPool", "Server", "Server"])
    model = "int" if kind == "ThreadPool" else rng.choice(["int", "fixed", "dynamic", "weighted"])
    limit = rng.choice([1, 2, 2, 3, 4])
    n = rng.randint(2, 14)
    spread = rng.choice([0, 0, 2, 6, 15])
    reqs = []
    for _ in range(n):
        q = {"at": rng.randint(0, spread), "pt": rng.choice([0, 1, 2, 3, 5, 8])}
        if model == "weighted":
            q["weight"] = min(limit, rng.choice([1, 1, 2, 3]))
        reqs.append(q)
    if model != "weighted" and rng.random() < 0.5:
        # weight metadata riding along into a model that counts requests, not weights (legal: the weight is ignored)
        for q in reqs:
            q["weight"] = rng.choice([1, 2, 2, 3])
    case = {"kind": kind, "model": model, "limit": limit, "reqs": reqs}
    if model == "dynamic":
        case["limit_script"] = [{"at": rng.randint(1, spread + 10), "limit": rng.choice([1, 2, 3, 4, 5])} for _ in range(rng.randint(0, 3))]
    return case


def run_limiter(case: dict) -> Result:
    from happysimulator.components.server.concurrency import DynamicConcurrency, FixedConcurrency, WeightedConcurrency
    from happysimulator.components.server.server import Server
    from happysimulator.components.server.thread_pool import ThreadPool
    from happysimulator.core.entity import Entity
    from happysimulator.core.event import Event
    from happysimulator.core.temporal import Duration
    from happysimulator.distributions.latency_distribution import LatencyDistribution

    res = Result()
    comp = case["kind"]
    model_kind = case["model"]
    limit0 = case["limit"]
    reqs = case["reqs"]
    flagged: set = set()
    box = []
    variant = comp if comp == "ThreadPool" else f"Server/{model_kind}"
    if model_kind != "weighted" and any(q.get("weight", 1) > 1 for q in reqs):
        variant += "/weight-metadata"  # requests carry metadata weight > 1 into a model that takes one slot each
    burst = simultaneous([q["at"] for q in reqs])
    limit_changed = [False]
    prev_limit = [limit0]

    def flag(oracle, shape, detail, witness=None):
        k = (oracle, shape)
        if k in flagged:
            return
        flagged.add(k)
        res.add(oracle, comp, shape, detail, witness if witness is not None else {"starts": starts[:40], "arrivals": arrivals[:40]})

    starts: list = []    # (seq, rid or None, t_ns)
    arrivals: list = []  # (seq, rid, t_ns)
    ended: list = []     # rids seen by the downstream sink (Server only)
    seq = [0]

    def tick():
        seq[0] += 1
        return seq[0]

    if comp == "ThreadPool":
        def extractor(task):
            rid = task.context["metadata"]["rid"]
            starts.append((tick(), rid, box[0].now_ns()))
            return reqs[rid]["pt"] * TS

        prim = ThreadPool("prim", num_workers=limit0, processing_time_extractor=extractor)
        model = None
    else:
        class StartLatency(LatencyDistribution):
            """Service time of the k-th service start = pt of the k-th arrival (FIFO makes them the same request)."""

            def __init__(self):
                super().__init__(0.0)

            def get_latency(self, now):
                k = len(starts)
                rid = arrivals[k - rejected_at_dequeue()][1] if 0 <= k - rejected_at_dequeue() < len(arrivals) else None
                starts.append((tick(), rid, box[0].now_ns()))
                pt = reqs[rid]["pt"] if rid is not None else 1
                return Duration.from_seconds(pt * TS)

        class EndSink(Entity):
            """Downstream of the server: sees every request that finished service (ground truth for 'ended')."""

            def handle_event(self, event):
                ended.append(event.context["metadata"]["rid"])
                return None

        sink = EndSink("sink")
        if model_kind == "int":
            model = None
            prim = Server("prim", concurrency=limit0, service_time=StartLatency(), downstream=sink)
        else:
            model = {"fixed": lambda: FixedConcurrency(limit0), "dynamic": lambda: DynamicConcurrency(limit0, min_limit=1, max_limit=8),
                     "weighted": lambda: WeightedConcurrency(limit0)}[model_kind]()
            prim = Server("prim", concurrency=model, service_time=StartLatency(), downstream=sink)

    def rejected_at_dequeue():
        return 0  # start index == arrival index only while nothing was rejected at dequeue; re-checked below

    class Knob(Entity):
        def handle_event(self, event):
            prev_limit[0] = min(prev_limit[0], model.limit)  # lowest limit so far
            model.set_limit(event.context["metadata"]["limit"])
            limit_changed[0] = True
            return None

    knob = Knob("knob")
    run = Run(res, [prim, knob] + ([sink] if comp == "Server" else []))
    box.append(run)
    for i, q in enumerate(reqs):
        md = {"rid": i, "request_id": 1 + i % 3}  # colliding caller-side correlation ids ride along
        if "weight" in q:
            md["weight"] = q["weight"]
        run.schedule(Event(time=at(q["at"]), event_type="c09.task", target=prim, context={"metadata": md}))
    for ls in case.get("limit_script", []):
        run.schedule(Event(time=at(ls["at"]), event_type="c09.limit", target=knob, context={"metadata": {"limit": ls["limit"]}}))

    def counters():
        if comp == "ThreadPool":
            return prim.active_workers, prim.idle_workers, prim.num_workers, prim.stats.tasks_completed, prim.stats.tasks_rejected
        return prim.active_requests, prim.available_capacity, prim.concurrency, prim.stats.requests_completed, prim.stats.requests_rejected

    peak_depth = [0]
    done_seen = [0]
    completion_instants: set = set()

    def after_delivery(ev):
        res.count("counter_samples")
        if ev.target is prim and ev.event_type == "c09.task":
            arrivals.append((tick(), ev.context["metadata"]["rid"], run.now_ns()))
        active, avail, lim, done, rej = counters()
        if done > done_seen[0]:
            done_seen[0] = done
            completion_instants.add(run.now_ns())
        peak_depth[0] = max(peak_depth[0], prim.depth)
        if model_kind == "weighted":
            pass
        else:
            inserv = len(starts) - done
            if not limit_changed[0] and inserv > lim:
                flag("over-admission", variant, f"{inserv} requests in service, limit={lim}")
        if not limit_changed[0]:
            if active > lim:
                flag("over-admission", variant, f"active={active} limit={lim}")
            if active + avail != lim:
                flag("held-plus-available", variant, f"active={active} + available={avail} != limit={lim}")
        elif active <= lim and active + avail != lim:
            flag("held-plus-available", variant + "/after-limit-change", f"active={active} + available={avail} != limit={lim}")
        if active < 0 or avail < 0:
            flag("available-out-of-range", variant, f"active={active} available={avail}")

    def head_weight():
        if model_kind != "weighted":
            return 1  # these models take one slot per request whatever its metadata says
        k = len(starts) + counters()[4]
        if 0 <= k < len(arrivals):
            return reqs[arrivals[k][1]].get("weight", 1)
        return 1

    def quiescent(where):
        res.count("end_of_instant_checks")
        active, avail, lim, done, rej = counters()
        if comp == "Server" and rej == 0 and not limit_changed[0]:
            # independent in-service ledger: started (service-time distribution) minus ended (downstream sink)
            gone = set(ended)
            live = [rid for _, rid, _ in starts if rid is not None and rid not in gone]
            if model_kind == "weighted":
                w = sum(reqs[rid].get("weight", 1) for rid in live)
                if w > lim:
                    flag("over-admission", variant, f"{where}: requests in service carry weight {w}, capacity {lim}")
            elif len(live) > lim:
                flag("over-admission", variant, f"{where}: {len(live)} requests between service start and downstream, limit={lim}")
        if prim.depth > 0 and avail >= head_weight():
            if limit_changed[0] and active >= prev_limit[0]:
                shape = "after-limit-increase"  # the free slots exist only because the limit was raised
            elif burst:
                shape = "same-instant-burst"
            elif limit_changed[0]:
                shape = "after-limit-increase"
            elif model_kind == "weighted" and any(q.get("weight", 1) > 1 for q in reqs):
                shape = "weighted-release-frees-several-units"
            else:
                shape = "no-burst"
            flag("head-waiter-fits-free-capacity", shape, f"{where}: queue depth={prim.depth}, active={active}, available={avail}, limit={lim}")

    status = run.go(after_delivery, lambda t: quiescent("end-of-instant"))
    if status == "spin":
        flag("frozen-clock", variant, "instant cap exceeded", run.spin_witness())
    elif status == "completed":
        quiescent("fixpoint")
        active, avail, lim, done, rej = counters()
        if active != 0:
            flag("leak", variant, f"run over: active={active}")
        if prim.depth > 0:
            flag("stranded-waiter", "same-instant-burst" if burst else variant, f"run over with {prim.depth} queued requests never started")
        if rej:
            res.count("rejected_at_dequeue", rej)
            coincide = any(t in completion_instants for _, _, t in arrivals)
            if model_kind == "weighted" and any(q.get("weight", 1) > 1 for q in reqs):
                shape = "weight-above-one"
                why = "the driver asks has_capacity() for weight 1, acquire needs the request's weight"
            elif coincide:
                shape = "arrival-at-completion-instant"
                why = "two polls were in flight: has_capacity() said yes to both, acquire() refused the second"
            else:
                shape = "other"
                why = "has_capacity() said yes, acquire() said no"
            flag("waiter-dropped", shape, f"{rej} queued request(s) were taken from the queue and dropped instead of served: {why}")
        # FIFO start order (ThreadPool gives the identity of each start)
        if comp == "ThreadPool":
            order = [rid for _, rid, _ in starts]
            arr = [rid for _, rid, _ in arrivals]
            pos = {rid: i for i, rid in enumerate(arr)}
            for x in range(1, len(order)):
                if pos.get(order[x], 0) < pos.get(order[x - 1], 0):
                    flag("grant-out-of-order", variant, f"task {order[x]} (arrival #{pos[order[x]]}) started after task {order[x-1]} (arrival #{pos[order[x-1]]})")
                    break
            if len(set(order)) != len(order):
                flag("granted-twice", variant, "a task was started twice")
    res.count("grants_checked", len(starts))
    res.count("requests", len(reqs))
    res.nontrivial = peak_depth[0] >= 2 and any(q["pt"] > 0 for q in reqs)
    res.seen("components", variant)
    return res


# ==========================================================================
# concurrency models as plain objects (no simulation): op strings against counting


def gen_concmodel(rng: random.Random, tier: str) -> dict:
    model = rng.choice(["fixed", "dynamic", "weighted"])
    limit = rng.choice([1, 2, 3, 5])
    ops = []
    for _ in range(rng.randint(5, 60)):
        x = rng.random()
        if x < 0.45:
            ops.append(["acquire", rng.choice([1, 1, 2, 3])])
        elif x < 0.8:
            ops.append(["release", rng.randrange(0, 8)])
        elif x < 0.9 or model != "dynamic":
            ops.append(["has", rng.choice([1, 1, 2, 3])])
        else:
            ops.append(["limit", rng.choice([1, 2, 3, 4, 6])])
    return {"kind": "concmodel", "model": model, "limit": limit, "ops": ops}


def run_concmodel(case: dict) -> Result:
    from happysimulator.components.server.concurrency import DynamicConcurrency, FixedConcurrency, WeightedConcurrency

    res = Result()
    kind = case["model"]
    comp = {"fixed": "FixedConcurrency", "dynamic": "DynamicConcurrency", "weighted": "WeightedConcurrency"}[kind]
    m = {"fixed": lambda: FixedConcurrency(case["limit"]), "dynamic": lambda: DynamicConcurrency(case["limit"], min_limit=1, max_limit=6),
         "weighted": lambda: WeightedConcurrency(case["limit"])}[kind]()
    held: list = []  # weights of outstanding holders
    lowered = False
    full_seen = False
    for op, arg in case["ops"]:
        cost = arg if kind == "weighted" else 1
        used = sum(held)
        lim = m.limit
        if op == "acquire":
            if kind == "weighted" and arg > lim:
                continue
            said = m.has_capacity(arg)
            ok = m.acquire(arg)
            res.count("grants_checked")
            if ok and used + cost > lim:
                res.add("over-admission", comp, "acquire-above-limit", f"acquire({arg}) granted with {used} in use, limit {lim}")
            if not ok and used + cost <= lim:
                res.add("try-denied-although-free", comp, "acquire", f"acquire({arg}) refused with {used} in use, limit {lim}")
            if said != ok:
                res.add("has-capacity-disagrees", comp, "has-then-acquire", f"has_capacity({arg})={said} but acquire({arg})={ok}")
            if ok:
                held.append(cost)
            else:
                full_seen = True
        elif op == "release":
            if held:
                w = held.pop(arg % len(held))
                m.release(w)
        elif op == "has":
            said = m.has_capacity(arg)
            if kind == "weighted" and said != (used + arg <= lim):
                res.add("has-capacity-disagrees", comp, "weighted", f"has_capacity({arg})={said} with {used}/{lim}")
        else:
            if arg < m.limit:
                lowered = True
            m.set_limit(arg)
        res.count("counter_samples")
        res.count("end_of_instant_checks")
        used = sum(held)
        if m.active != used:
            res.add("held-plus-available", comp, "active-vs-holders", f"active={m.active}, outstanding holders={used}")
            break
        if used <= m.limit and m.active + m.available != m.limit:
            res.add("held-plus-available", comp, "active-plus-available", f"active={m.active} available={m.available} limit={m.limit}")
            break
        if used > m.limit and not lowered:
            res.add("over-admission", comp, "holders-above-limit", f"{used} held with limit {m.limit}")
            break
    res.nontrivial = full_seen and len(case["ops"]) >= 10
    res.seen("components", comp)
    return res


FAMILIES = {
    "resource": Family("resource", gen_resource, run_resource, case_timeout=30.0),
    "preemptible": Family("preemptible", gen_preemptible, run_resource, case_timeout=30.0),
    "lock": Family("lock", gen_lock, run_lock, case_timeout=30.0),
    "barrier": Family("barrier", gen_barrier, run_barrier, case_timeout=30.0),
    "condition": Family("condition", gen_condition, run_condition, case_timeout=30.0),
    "connpool": Family("connpool", gen_connpool, run_connpool, case_timeout=30.0),
    "bulkhead": Family("bulkhead", gen_bulkhead, run_bulkhead, case_timeout=30.0),
    "limiter": Family("limiter", gen_limiter, run_limiter, case_timeout=30.0),
    "concmodel": Family("concmodel", gen_concmodel, run_concmodel, case_timeout=10.0),
}
BUDGET = {
    "quick": {"resource": 600, "preemptible": 400, "lock": 600, "barrier": 200, "condition": 200, "connpool": 400,
              "bulkhead": 300, "limiter": 400, "concmodel": 500},
    "thorough": {"resource": 30000, "preemptible": 20000, "lock": 40000, "barrier": 8000, "condition": 8000,
                 "connpool": 20000, "bulkhead": 10000, "limiter": 20000, "concmodel": 10000},
}
# process start-up (importing the library) costs more than a shard of these millisecond cases: keep shards large
for _name, _size in {"resource": 150, "preemptible": 200, "lock": 75, "barrier": 100, "condition": 100, "connpool": 100,
                     "bulkhead": 300, "limiter": 200, "concmodel": 500}.items():
    FAMILIES[_name].shard_size = _size

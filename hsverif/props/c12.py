"""C12  Paxos-family protocols decide at most one value per instance, and a proposed one;
leader election never reports two leaders for one term; lock fencing tokens strictly increase.

Monitor shape: the real components run on hsverif.chaosnet ChaosLinks under generated delay
scripts / loss / partitions / crashes while a sampler (sim.control.on_event) reads the public
decision state of every node after every delivered event; client-boundary histories (propose /
submit futures, lock grants) are checked against that state.

Families (helpers in hsverif/c12_*.py):
  single    PaxosNode, 3-5 nodes, 1-3 proposers (+ re-proposals), retries; 12 % fault-free liveness cases
  single_adv scripted adversaries for PaxosNode: (a) retry_delay below the round trip, Nack mid phase 2, Accepted replies of
            the abandoned ballot arriving after the retry; (b) stale lower-ballot Accept reaches an acceptor after a value was chosen,
            third proposer's phase-1 quorum meets the choosing quorum in that acceptor only (random roles / timing)
  flex      FlexiblePaxosNode, every (Q1, Q2) with Q1 + Q2 > N
  multi     MultiPaxosNode, take-over, heartbeats
  multi_handover  fault-free Multi-Paxos hand-over, client commands forwarded (MultiPaxosForward) to the old leader at
            offsets swept across the hand-over round trip, the new leader bringing its own command
  election  LeaderElection x {Bully, Ring, Randomized}, member views full / converging / join, crashes
  lock      DistributedLock, 1-3 lock names on one manager, random acquire / try / release (own, stale, bogus token) /
            expiry strings; tokens strictly increasing over all grants of the manager in grant-time order
"""

from __future__ import annotations

from hsverif.core import Family, ensure_repo_on_path

ensure_repo_on_path()

from hsverif import c12_election, c12_lock, c12_log, c12_single  # noqa: E402

PID = "C12"
LEVEL = "exploration"
RULE = (
    "Cases are JSON values drawn from a per-case RNG: cluster size 3-5, proposal / start / submit times, a chaosnet "
    "delay script (uniform, bimodal with a tail slower than the retry / heartbeat timeout, per-link asymmetric, "
    "targeted per message type; iid loss up to 30 %), symmetric and asymmetric partition windows, crash windows "
    "(election), proposal values / commands that are unique and in a third of the cases include one falsy value (0, '', False, 0.0, [], {}), quorum pair (flex: uniformly among all Q1+Q2>N), lock op strings with gaps around the lease. "
    "12-15 % of the Paxos cases are fault-free (loss-free, every delay <= max_delay) and carry the bounded-liveness "
    "clause: single proposer decided at every node within 6 message delays; command submitted to an established "
    "leader applied at every node within 3 heartbeat intervals + 6 message delays. "
    "single_adv = scripted per-message rules (one very slow link, targeted drops) building the stale-Accept-after-choice "
    "schedule with random roles and timing; non-trivial when a lower-ballot Accept reached an acceptor that had already "
    "answered Accepted for a higher ballot and two proposers each collected an Accepted quorum. "
    "multi_handover = fault-free constant-delay hand-over with commands forwarded to the old leader at offsets in "
    "[-1.5, +4.5] link delays around the campaign; non-trivial when two leaders were seen, a slot was decided and a Forward "
    "reached the old leader between the Prepare it answered and the new leader's first heartbeat. "
    "Non-trivial: single = >= 2 proposals and two proposers whose phase 1 was open at the same time (measured from the "
    "Prepare / Accept sends seen on the wire), fault-free single = every node decided; flex / multi = >= 2 distinct "
    "nodes became leader and >= 1 slot was reported decided (fault-free: >= 1 slot decided); election = >= 2 "
    "participants reported a leader and >= 2 terms were seen; lock = >= 3 grants to >= 2 holders with a grant to a "
    "woken waiter or a lease expiry. Distinctness = hash of the case."
)
ASSUMPTIONS = [
    "a slot of FlexiblePaxosNode / MultiPaxosNode counts as decided at node n when slot <= n.log.commit_index (DESIGN C12)",
    "a validity check compares with the values proposed / submitted so far at the moment of the decision",
    "'a proposer's future resolves with the decided value' is read as safety: a resolved future carries the decided value / "
    "its own slot; futures of losing proposers that never resolve are not reported",
    "70 % of the chaotic flex / multi cases replicate a command submitted to a leader with node._replicate_slot(), the way "
    "examples/distributed/flexible_paxos_quorums.py does (the public API alone never replicates it: known finding)",
    "DistributedLock lease-expiry events are taken from lock._pending_expiry and scheduled once each, as the repository's "
    "integration tests do (the component has no public way to hand them to the simulation)",
    "the global `random` module is seeded per case (PaxosNode retry jitter, RandomizedStrategy ballots)",
    "labels (`shape`) are computed from the observed wire / state history; they never decide a verdict",
]
MUST_OBSERVE = ["decisions_checked", "futures_checked", "applies_checked", "reports_checked", "grants_checked", "liveness_runs"]

FAMILIES = {
    "single": Family("single", c12_single.gen_single, c12_single.run_single, case_timeout=30.0),
    "single_adv": Family("single_adv", c12_single.gen_single_adv, c12_single.run_single, case_timeout=30.0),
    "flex": Family("flex", c12_log.gen_log("flex"), c12_log.run_log("flex"), case_timeout=30.0),
    "multi": Family("multi", c12_log.gen_log("multi"), c12_log.run_log("multi"), case_timeout=30.0),
    "multi_handover": Family("multi_handover", c12_log.gen_handover, c12_log.run_log("multi"), case_timeout=30.0),
    "election": Family("election", c12_election.gen_election, c12_election.run_election, case_timeout=30.0),
    "lock": Family("lock", c12_lock.gen_lock, c12_lock.run_lock, shrink=c12_lock.shrink_lock, case_timeout=20.0),
}

BUDGET = {
    "quick": {"single": 6000, "single_adv": 800, "flex": 400, "multi": 400, "multi_handover": 600, "election": 600, "lock": 2000},
    "thorough": {"single": 400000, "single_adv": 20000, "flex": 40000, "multi": 40000, "multi_handover": 20000, "election": 30000, "lock": 200000},
}

"""C12  Paxos-family protocols decide at most one value per instance, and a proposed one;
leader election never reports two leaders for one term; lock fencing tokens strictly increase.

Monitor shape: the real components run on hsverif.chaosnet ChaosLinks under generated delay
scripts / loss / partitions while a sampler (sim.control.on_event) reads the public decision
state of every node after every delivered event.
"""

from __future__ import annotations

from hsverif.core import Family, ensure_repo_on_path

ensure_repo_on_path()

from hsverif import c12_log, c12_single  # noqa: E402

PID = "C12"
LEVEL = "exploration"
RULE = "TBD"
ASSUMPTIONS = []
MUST_OBSERVE = ["decisions_checked"]

FAMILIES = {
    "single": Family("single", c12_single.gen_single, c12_single.run_single, case_timeout=30.0),
    "flex": Family("flex", c12_log.gen_log("flex"), c12_log.run_log("flex"), case_timeout=30.0),
    "multi": Family("multi", c12_log.gen_log("multi"), c12_log.run_log("multi"), case_timeout=30.0),
}

BUDGET = {
    "quick": {"single": 6000, "flex": 400, "multi": 400},
    "thorough": {"single": 400000, "flex": 20000, "multi": 20000},
}

"""C17  Replication: acknowledged writes are where the mode promises, replicas converge.

Monitor shape: unambiguous histories + invariants at a hook.  Every write carries a
unique value, so the value found in a replica's store identifies the write it came
from.  After *every* delivered event (`sim.control.on_event`) the monitor samples the
public store of every replica (`store.get_sync`) and polls the reply futures of the
client operations (`SimFuture.is_resolved`); the oracles are evaluated at the very
delivery that resolves a reply ("the instant the write is acknowledged") and at
quiescence.

Families
    pb      PrimaryNode + 1..4 BackupNode, SYNC / SEMI_SYNC / ASYNC
    chain   build_chain(2..5), with and without CRAQ
    ml      2..4 LeaderNode with LastWriterWins / VectorClockMerge / CustomResolver
            and periodic anti-entropy
    rstore  datastore.ReplicatedStore over 2..5 KVStore replicas, concurrent clients

All node-to-node traffic goes over hsverif.chaosnet.ChaosLink links whose per-message
delay comes from a JSON delay script (no loss: the property presupposes delivery).
"""

from __future__ import annotations

import random

from hsverif.chaosnet import ChaosLink, DelayScript
from hsverif.core import Family, Result, ddmin
from hsverif.probe import EngineProbe, quiet_library_logging

from happysimulator.components.datastore.kv_store import KVStore  # noqa: E402
from happysimulator.components.datastore.replicated_store import ConsistencyLevel, ReplicatedStore  # noqa: E402
from happysimulator.components.network.network import Network  # noqa: E402
from happysimulator.components.replication.chain_replication import build_chain  # noqa: E402
from happysimulator.components.replication.conflict_resolver import (  # noqa: E402
    CustomResolver,
    LastWriterWins,
    VectorClockMerge,
    VersionedValue,
)
from happysimulator.components.replication.multi_leader import LeaderNode  # noqa: E402
from happysimulator.components.replication.primary_backup import BackupNode, PrimaryNode, ReplicationMode  # noqa: E402
from happysimulator.core.callback_entity import CallbackEntity  # noqa: E402
from happysimulator.core.entity import Entity  # noqa: E402
from happysimulator.core.event import Event, ProcessContinuation  # noqa: E402
from happysimulator.core.sim_future import SimFuture  # noqa: E402
from happysimulator.core.simulation import Simulation  # noqa: E402
from happysimulator.core.temporal import Instant  # noqa: E402
from happysimulator.distributions.constant import ConstantLatency  # noqa: E402

PID = "C17"
LEVEL = "exploration"
RULE = (
    "Generated cases = (scheme parameters, per-replica store latencies, client op list with repeated keys at generated instants, "
    "values either one text per write or (45 %) drawn from a 1-3 letter alphabet with A-B-A / A-A-B bursts on the hot key "
    "inside one store write latency - every written value is a TV (str subclass equal by text, carrying the index of its "
    "write) so the monitor identifies the write a store holds by identity, not by text, JSON delay script for every directed link: uniform / bimodal / per-link asymmetric / "
    "targeted per-message rules / fixed (FIFO control group), optionally quantised to a grid so that same-instant ties "
    "occur; no loss). The real PrimaryNode/BackupNode, ChainNode (build_chain), LeaderNode and ReplicatedStore run under "
    "the engine; after every delivered event the monitor samples every replica's public store and polls the reply "
    "futures. Oracles: SYNC ack -> no backup behind; SEMI_SYNC ack -> not all backups behind; chain ack -> no chain "
    "node behind; chain read (tail, or any node with CRAQ) -> value already held by the tail's store; every scheme -> "
    "equal stores at quiescence (empty heap; multi-leader: for every ordered pair the anti-entropy timer fired for that "
    "peer after the last state change / last operation / end of the last partition or loss window, early enough for an "
    "exchange to have finished, state unchanged since). Family mlpart adds Network.partition or scripted drop windows "
    "that swallow anti-entropy rounds of each side after its last write, then a healed quiescent phase of up to 60 "
    "intervals (non-trivial there: replicas differed at the heal and some pair had rounds swallowed both ways). 'Behind' = holds neither the acked "
    "value nor a value the primary/head applied later for that key. Non-trivial: some receiver got two replication "
    "messages for one key out of their send order (rstore: two puts of one key overlapped in time). Distinct by hash "
    "of the case."
)
ASSUMPTIONS = [
    "pb cases may carry Network.partition windows between the primary and one / all backups (symmetric or asymmetric) that "
    "are active while writes arrive: the ack oracles apply unchanged (on the correct tree such a write is simply never "
    "acknowledged), the pb convergence oracle is skipped when the network reports dropped messages (no repair path exists)",
    "a third of all cases use a falsy key ('' among string keys, or 0 among integer keys)",
    "no crashes; otherwise no message loss and no partitions except in family mlpart, whose partition / loss windows all end before "
    "the quiescent phase: the statement presupposes that in-flight messages are delivered, so its premise is evaluated "
    "only after the last window has ended",
    "multi-leader 'anti-entropy has run' is measured by timer firings (AntiEntropy ticks and the peer drawn for each, "
    "recorded by a transparent wrapper around random.choice; 20*(n-1) firings per leader if the draw is not observable), "
    "not by messages exchanged",
    "primary/head sequence order is read off the primary's/head's own public store history; stored objects are told apart "
    "by the write index carried by TV (the library passes values by reference and never copies them); 'applied' in the ack "
    "oracles means by identity (this write's object or that of a later write), 'same value' in the convergence oracle and "
    "'value held by the tail' in the chain read oracle mean by text",
    "a LeaderNode's anti-entropy timer re-arms one interval after each firing: a leader that has not fired for two "
    "intervals (or a run whose heap ran empty before the horizon) has no timer any more; its pairs count as settled and a "
    "remaining divergence is reported with shape anti-entropy-timer-stopped",
    "chain reads are sent to the tail, or to any node only when CRAQ is enabled (reading a non-tail node of a plain chain is outside the protocol)",
    "multi-leader conflict resolvers supplied by the harness are deterministic total orders consistent with causality "
    "(LastWriterWins, VectorClockMerge with LWW fallback or with a merge function that returns the LWW winner under the "
    "merged vector clock, CustomResolver wrapping LWW)",
    "multi-leader quiescence is bounded: the run lasts until every ordered pair has exchanged after the last change, at "
    "most ML_MAX_ROUNDS anti-entropy intervals after the last client operation; otherwise the case is inconclusive",
    "the global `random` module (LeaderNode picks its anti-entropy peer with random.choice) is seeded from the case",
    "ReplicatedStore is driven through one coordinator instance, as in its documentation",
]
MUST_OBSERVE = ["sync_acks_checked", "semi_sync_acks_checked", "chain_acks_checked", "chain_reads_checked", "craq_reads_served_locally", "ml_fixpoints_reached", "mlpart_fixpoints_reached", "quiescence_checks"]

ML_MAX_ROUNDS = 60

_quiet_done = False


def _quiet():
    global _quiet_done
    if not _quiet_done:
        quiet_library_logging()
        _quiet_done = True


# --------------------------------------------------------------------------
# network


class GridScript(DelayScript):
    """DelayScript whose delays can be quantised to a grid (provokes same-instant ties)."""

    def __init__(self, spec: dict):
        super().__init__(spec)
        self.grid = spec.get("grid")

    def decide(self, now_ns, src, dst, etype):
        drop, delay = super().decide(now_ns, src, dst, etype)
        if self.grid and delay is not None:
            delay = round(delay / self.grid) * self.grid
            if self.keep_log:
                self.log[-1] = self.log[-1][:5] + (None if drop else delay,)
        return drop, delay


def max_delay(spec: dict) -> float:
    fam = spec.get("family", "uniform")
    d = spec.get("base", [0.001, 0.02])[0 if fam == "fixed" else 1]
    if fam == "bimodal":
        d = max(d, spec.get("slow", [0.2, 1.5])[1])
    mult = max([1.0] + [float(v) for v in spec.get("asym", {}).values()])
    d *= mult
    for r in spec.get("rules", []):
        if r.get("delay") is not None:
            d = max(d, r["delay"])
    return d + (spec.get("grid") or 0.0)


def gen_net(rng: random.Random, names: list[str], types: list[str]) -> dict:
    fam = rng.choice(["uniform", "uniform", "bimodal", "bimodal", "asym", "targeted", "targeted", "fixed"])
    hi = rng.choice([0.004, 0.02, 0.1, 0.3])
    spec: dict = {
        "seed": rng.randrange(1 << 30),
        "family": {"targeted": rng.choice(["uniform", "fixed"])}.get(fam, fam),
        "base": [rng.choice([0.0, 0.001, 0.001]), hi],
        "slow": [0.2, rng.choice([0.5, 1.0, 2.0])],
        "p_slow": rng.choice([0.05, 0.15, 0.3]),
        "loss": 0.0,
        "rules": [],
        "grid": rng.choice([None, None, None, 0.001, 0.01]),
    }
    if spec["family"] == "fixed":
        spec["base"] = [rng.choice([0.0, 0.001, 0.01, 0.05]), hi]
    if fam == "asym":
        spec["asym"] = {f"{a}>{b}": rng.choice([1, 1, 3, 10, 30]) for a in names for b in names if a != b}
    if fam == "targeted":
        for _ in range(rng.randrange(1, 5)):
            spec["rules"].append(
                {
                    "src": rng.choice(names + [None]),
                    "dst": rng.choice(names + [None]),
                    "type": rng.choice(types),
                    "nth": rng.choice([None, 0, 0, 1, 2, 3]),
                    "delay": rng.choice([0.0, 0.05, 0.2, 0.5, 1.0]),
                }
            )
    return spec


def _add_mesh(net: Network, nodes: list, script: DelayScript):
    for a in nodes:
        for b in nodes:
            if a is b:
                continue
            net.add_link(
                a,
                b,
                ChaosLink(
                    name=f"{a.name}>{b.name}",
                    latency=ConstantLatency(0.0),
                    script=script,
                    src_name=a.name,
                    dst_name=b.name,
                ),
            )


# --------------------------------------------------------------------------
# generators: ops


def gen_times(rng: random.Random, n: int, grid) -> list[float]:
    gap = rng.choice([0.0005, 0.003, 0.01, 0.05, 0.2])
    t = rng.choice([0.0, 0.001, 0.01])
    out = []
    for _ in range(n):
        out.append(round(t, 6) if not grid else round(round(t / grid) * grid, 6))
        r = rng.random()
        if r < 0.15:
            pass  # same instant
        elif r < 0.85:
            t += rng.expovariate(1.0 / gap)
        else:
            t += rng.choice([0.1, 0.5, 1.5])
    return out


def gen_lat(rng: random.Random, n: int) -> list[list[float]]:
    rl = rng.choice([0.0, 0.0005, 0.001, 0.001, 0.01])
    wl = rng.choice([0.0, 0.001, 0.005, 0.005, 0.02])
    if rng.random() < 0.7:
        return [[rl, wl] for _ in range(n)]
    return [[rng.choice([0.0, 0.0005, 0.001, 0.01]), rng.choice([0.0, 0.001, 0.005, 0.02])] for _ in range(n)]


def n_ops_for(rng: random.Random, tier: str) -> int:
    return rng.choice([2, 3, 4, 6, 8, 12, 16] if tier == "quick" else [2, 3, 4, 6, 8, 12, 16, 24, 32])


def gen_ops(rng, tier, n_nodes, keys, write_nodes, read_nodes, grid, p_write=0.65, bad_write_nodes=()):
    n = n_ops_for(rng, tier)
    times = gen_times(rng, n, grid)
    hot = rng.choice(keys)
    ops = []
    for i, t in enumerate(times):
        key = hot if rng.random() < 0.6 else rng.choice(keys)
        if rng.random() < p_write or not read_nodes:
            node = rng.choice(write_nodes)
            if bad_write_nodes and rng.random() < 0.04:
                node = rng.choice(list(bad_write_nodes))
            ops.append({"t": t, "op": "w", "node": node, "key": key, "val": f"v{i}"})
        else:
            ops.append({"t": t, "op": "r", "node": rng.choice(read_nodes), "key": key})
    if not any(o["op"] == "w" for o in ops):
        ops[0] = {"t": ops[0]["t"], "op": "w", "node": write_nodes[0], "key": hot, "val": "v0"}
    # Repeated values (about 45 % of the cases): a small alphabet instead of one text per write, and A-B-A bursts on the
    # hot key whose writes follow each other within a store write latency.  The monitor tells writes apart by the
    # identity carried by TV, not by the text.
    if rng.random() < 0.45:
        letters = rng.choice([["A", "B"], ["A", "B"], ["A", "B", "C"], ["A"]])
        for o in ops:
            if o["op"] == "w":
                o["val"] = rng.choice(letters)
        for _ in range(rng.choice([0, 1, 1, 2])):
            if len(ops) < 3:
                break
            i = rng.randrange(0, len(ops) - 2)
            t = ops[i]["t"]
            x, y = rng.sample(["A", "B", "C"], 2)
            pattern = rng.choice([[x, y, x], [x, y, x], [x, x, y], [x, y, y]])
            node = rng.choice(write_nodes)
            for d, letter in enumerate(pattern):
                t = round(t + (0.0 if d == 0 else rng.choice([0.0, 0.0003, 0.001, 0.003, 0.008])), 6)
                same_node = rng.random() < 0.7
                ops[i + d] = {"t": t, "op": "w", "node": node if same_node else rng.choice(write_nodes), "key": hot, "val": letter}
    return ops


def _keys(rng):
    """1-3 keys.  A third of the cases include a *falsy* key: the empty string among string keys, or 0 among integer
    keys (legal dictionary keys that `if key:` style guards mistake for 'no key')."""
    n = rng.choice([1, 1, 2, 3])
    r = rng.random()
    if r < 0.2:
        ks = [""] + [f"k{i}" for i in range(1, n)]
    elif r < 0.35:
        ks = list(range(n))
    else:
        return [f"k{i}" for i in range(n)]
    rng.shuffle(ks)  # the hot key is drawn from the list, keep the falsy one anywhere
    return ks


# --------------------------------------------------------------------------
# values: equal by content, distinguishable by write


class TV(str):
    """A written value.  Compares / hashes like its text (so that 'the same value written twice' really is the same
    value for the library), but carries the index of the client write that issued it, so that the monitor can tell
    *which write* a store holds.  The library only passes values around by reference."""

    def __new__(cls, text: str, wid: int):
        o = super().__new__(cls, text)
        o.wid = wid
        return o


def _tok(v):
    """Identity token of a stored value: 'A#3' = text A issued by client write 3."""
    if v is None:
        return None
    w = getattr(v, "wid", None)
    return f"{str(v)}#{w}" if w is not None else v


def _plain(v):
    return None if v is None else str(v)


# --------------------------------------------------------------------------
# the monitor


class Mon:
    """Samples every replica's public store after every delivery; polls reply futures."""

    def __init__(self, stores: list, keys: list[str], nodes: list, watch_types: set[str]):
        self.stores = stores
        self.keys = keys
        self.kidx = {k: j for j, k in enumerate(keys)}
        self.nodes = nodes
        self.node_of = {id(n): i for i, n in enumerate(nodes)}
        self.watch = watch_types
        self.idx = 0
        self.now_ns = 0
        self.cur = [[None] * len(keys) for _ in stores]  # identity tokens ('A#3'): which write the store holds
        self.raw = [[None] * len(keys) for _ in stores]  # the stored objects themselves
        self.curval = [[None] * len(keys) for _ in stores]  # plain text of the value (for "same value" comparisons)
        self.heldval = [[{None} for _ in keys] for _ in stores]
        # per store, per key: [(event index, t_ns, value)]
        self.hist = [[[(0, 0, None)] for _ in keys] for _ in stores]
        self.held = [[{None} for _ in keys] for _ in stores]
        self.last_change_ns = 0
        self.last_change_idx = 0
        self.arrivals: list[tuple] = []  # (idx, t_ns, node index, type, metadata dict)
        self.pending: list[dict] = []
        self.on_reply = None
        self.extra = None
        self.n_samples = 0

    def sample(self) -> bool:
        changed = False
        for i, st in enumerate(self.stores):
            g = st.get_sync
            row = self.raw[i]
            for j, k in enumerate(self.keys):
                v = g(k)
                if v is not row[j] and (v != row[j] or _tok(v) != _tok(row[j])):
                    row[j] = v
                    t = _tok(v)
                    self.cur[i][j] = t
                    self.curval[i][j] = _plain(v)
                    self.hist[i][j].append((self.idx, self.now_ns, t))
                    self.held[i][j].add(t)
                    self.heldval[i][j].add(_plain(v))
                    changed = True
        self.n_samples += 1
        if changed:
            self.last_change_ns = self.now_ns
            self.last_change_idx = self.idx
        return changed

    def after_event(self, event):
        self.idx += 1
        self.now_ns = event.time.nanoseconds
        if event.event_type in self.watch and not isinstance(event, ProcessContinuation):
            ni = self.node_of.get(id(event.target))
            if ni is not None:
                self.arrivals.append((self.idx, self.now_ns, ni, event.event_type, event.context.get("metadata", {})))
        self.sample()
        if self.extra is not None:
            self.extra(event)
        if self.pending:
            still = []
            for op in self.pending:
                if op["fut"].is_resolved:
                    op["reply_idx"] = self.idx
                    op["reply_ns"] = self.now_ns
                    op["reply"] = op["fut"].value
                    self.on_reply(op)
                else:
                    still.append(op)
            self.pending = still

    def pos(self, ref: int, key: str) -> dict:
        """value -> position in the reference replica's history of `key` (apply order at primary/head)."""
        out = {}
        for p, (_i, _t, v) in enumerate(self.hist[ref][self.kidx[key]]):
            if v is not None and v not in out:
                out[v] = p
        return out


def _inverted(seq_list: list) -> bool:
    m = None
    for s in seq_list:
        if m is not None and s < m:
            return True
        m = s if m is None else max(m, s)
    return False


class _Once:
    """Keep the first witness per mechanism key, count the rest."""

    def __init__(self, res: Result):
        self.res = res
        self.keys = set()

    def add(self, oracle, component, shape, detail, witness=None):
        k = (oracle, component, shape)
        self.res.count("violating_observations")
        if k in self.keys:
            return
        self.keys.add(k)
        self.res.add(oracle, component, shape, detail, witness)


def _schedule_ops(sim, mon: Mon, ops: list[dict], nodes: list):
    for i, o in enumerate(ops):
        fut = SimFuture()
        meta = {"key": o["key"], "reply_future": fut}
        tok = None
        if o["op"] == "w":
            meta["value"] = TV(o["val"], i)
            tok = _tok(meta["value"])
        ev = Event(
            time=Instant.from_seconds(o["t"]),
            event_type="Write" if o["op"] == "w" else "Read",
            target=nodes[o["node"]],
            context={"metadata": meta},
        )
        sim.schedule(ev)
        mon.pending.append({"i": i, "o": o, "fut": fut, "tok": tok})


def _run_sim(sim, res: Result, total_cap=200000) -> str:
    with EngineProbe(log_deliveries=False, instant_cap=20000, total_cap=total_cap, record_emissions=False) as p:
        status = p.run(sim)
    res.count("events_monitored", p.n_deliveries)
    if status != "completed":
        res.inconclusive = f"run ended with status {status}"
    return status


def _stores_of(lat, names):
    return [KVStore(f"{n}_store", read_latency=lat[i][0], write_latency=lat[i][1]) for i, n in enumerate(names)]


def _arrivals_for(mon: Mon, node: int, etype: str, key: str, upto_idx: int | None = None) -> list[tuple]:
    return [
        a
        for a in mon.arrivals
        if a[2] == node and a[3] == etype and a[4].get("key") == key and (upto_idx is None or a[0] <= upto_idx)
    ]


def _reorder_shape(mon: Mon, node: int, etype: str, key: str, upto_idx: int | None = None) -> str:
    """Shape for a replica that saw same-key replication messages out of send order.

    The anticipated defect is *apply in arrival order*: the replica then holds the value of the last arrived message
    whose store write has completed.  Anything else under reordering is a different mechanism and gets its own key.
    """
    j = mon.kidx[key]
    applied = [_tok(a[4].get("value")) for a in _arrivals_for(mon, node, etype, key, upto_idx) if _tok(a[4].get("value")) in mon.held[node][j]]
    if applied and mon.cur[node][j] == applied[-1]:
        return "same-key-replication-messages-reordered"
    return "same-key-replication-messages-reordered-not-arrival-order-apply"


def _mark_nontrivial(res: Result, mon: Mon, etype: str, order_of) -> None:
    """Non-trivial: some receiver got two replication messages for one key out of send order."""
    per: dict[tuple, list] = {}
    for a in mon.arrivals:
        if a[3] != etype:
            continue
        o = order_of(a[4])
        if o is None:
            continue
        per.setdefault((a[2], a[4].get("key"), o[0]), []).append(o[1])
    n = sum(1 for v in per.values() if _inverted(v))
    if n:
        res.nontrivial = True
        res.count("receivers_with_same_key_reordering", n)


# --------------------------------------------------------------------------
# primary-backup


def gen_pb(rng: random.Random, tier: str) -> dict:
    nb = rng.choice([1, 2, 2, 3, 4])
    names = ["p"] + [f"b{i}" for i in range(nb)]
    keys = _keys(rng)
    net = gen_net(rng, names, ["Replicate", "Replicate", "ReplicationAck"])
    ops = gen_ops(rng, tier, nb + 1, keys, [0], list(range(nb + 1)), net["grid"])
    cuts = []
    if rng.random() < 0.3:
        # Network.partition window between the primary and one / all backups, active while writes arrive
        wt = [o["t"] for o in ops if o["op"] == "w"]
        for _ in range(rng.choice([1, 1, 2])):
            victims = names[1:] if rng.random() < 0.4 else [rng.choice(names[1:])]
            asym = rng.random() < 0.35
            a, b = (["p"], victims) if not asym or rng.random() < 0.6 else (victims, ["p"])
            start = max(0.0, rng.choice(wt) - rng.choice([0.0, 0.0005, 0.004, 0.05]))
            cuts.append({"kind": "partition", "a": a, "b": b, "asymmetric": asym, "from": round(start, 6),
                         "to": round(start + rng.choice([0.01, 0.1, 0.5, 2.0, 10.0]), 6)})
        if len(cuts) == 2:  # Partition.heal() of overlapping windows is C06's subject: keep them disjoint
            cuts.sort(key=lambda c: c["from"])
            if cuts[1]["from"] <= cuts[0]["to"]:
                cuts[1]["from"] = round(cuts[0]["to"] + 0.001, 6)
                cuts[1]["to"] = round(max(cuts[1]["to"], cuts[1]["from"] + 0.01), 6)
    return {
        "scheme": "pb",
        "mode": rng.choice(["SYNC", "SYNC", "SEMI_SYNC", "SEMI_SYNC", "ASYNC"]),
        "n_backups": nb,
        "keys": keys,
        "lat": gen_lat(rng, nb + 1),
        "ops": ops,
        "net": net,
        "cuts": cuts,
    }


def run_pb(case: dict) -> Result:
    _quiet()
    res = Result()
    once = _Once(res)
    nb = case["n_backups"]
    names = ["p"] + [f"b{i}" for i in range(nb)]
    keys = case["keys"]
    mode = case["mode"]
    script = GridScript(case["net"])
    net = Network(name="net")
    stores = _stores_of(case["lat"], names)
    backups: list = []
    primary = PrimaryNode("p", store=stores[0], backups=backups, network=net, mode=ReplicationMode[mode])
    for i in range(nb):
        backups.append(BackupNode(f"b{i}", store=stores[i + 1], network=net, primary=primary))
    nodes = [primary] + backups
    _add_mesh(net, nodes, script)
    ctl = _partition_ctl(net, nodes, case.get("cuts", []))
    sim = Simulation(entities=[*nodes, *stores, net, *[e for _t, e in ctl]])
    for t, ent in ctl:
        sim.schedule(Event(time=Instant.from_seconds(t), event_type="NetControl", target=ent))
    mon = Mon(stores, keys, nodes, {"Replicate", "Write", "Read", "ReplicationAck"})

    def seqs_at(b: int, key: str, upto=None):
        return [a[4].get("seq", 0) for a in _arrivals_for(mon, b, "Replicate", key, upto)]

    def why(b: int, key: str, seq, value) -> str:
        arr = seqs_at(b, key, mon.idx)
        if seq not in arr:
            return "replicate-not-yet-arrived"
        if _inverted(arr):
            return _reorder_shape(mon, b, "Replicate", key, mon.idx)
        if value not in mon.held[b][mon.kidx[key]]:
            return "replicate-arrived-apply-pending"
        return "in-order-delivery"

    def on_reply(op):
        o = op["o"]
        if o["op"] != "w":
            res.count("reads_completed")
            return
        rep = op["reply"]
        if not isinstance(rep, dict) or rep.get("status") != "ok":
            res.count("writes_rejected")
            return
        res.count("writes_acked")
        key, val = o["key"], op["tok"]
        pos = mon.pos(0, key)
        if val not in pos:
            once.add("ack-implies-applied", "PrimaryNode", "not-applied-at-primary", f"write {val} acked, primary store never held it")
            return
        if mode == "ASYNC":
            return
        res.count("acks_checked")
        res.count("sync_acks_checked" if mode == "SYNC" else "semi_sync_acks_checked")
        behind = []
        for b in range(1, nb + 1):
            cv = mon.cur[b][mon.kidx[key]]
            if cv not in pos or pos[cv] < pos[val]:
                behind.append(b)
        if mode == "SYNC":
            bad = behind
        else:
            bad = behind if len(behind) == nb else []
        for b in bad:
            shape = why(b, key, rep.get("seq"), val)
            once.add(
                "sync-ack-backup-behind" if mode == "SYNC" else "semi-sync-ack-all-backups-behind",
                "BackupNode",
                shape,
                f"{mode}: write {key}={val} (seq {rep.get('seq')}) acknowledged at t={mon.now_ns}ns while backup {names[b]} "
                f"holds {mon.cur[b][mon.kidx[key]]!r}; primary applied {[v for _i, _t, v in mon.hist[0][mon.kidx[key]]]}",
                {
                    "backup": names[b],
                    "replicate_seq_arrival_order_at_backup": seqs_at(b, key, mon.idx),
                    "backup_history": mon.hist[b][mon.kidx[key]],
                    "ack_event_index": mon.idx,
                },
            )

    mon.on_reply = on_reply
    _schedule_ops(sim, mon, case["ops"], nodes)
    sim.control.on_event(mon.after_event)
    status = _run_sim(sim, res)
    _mark_nontrivial(res, mon, "Replicate", lambda m: ("p", m.get("seq", 0)))
    if status != "completed":
        return res
    # quiescence: the run auto-terminated because the heap holds nothing
    res.count("unacked_at_quiescence", len(mon.pending))
    if case.get("cuts"):
        res.count("pb_cases_with_partition")
        res.count("pb_messages_dropped_by_partition", net.events_dropped_partition)
    if net.events_dropped_partition:
        # the convergence clause presupposes that in-flight messages are delivered; primary-backup has no repair path
        res.count("pb_convergence_not_applicable_messages_dropped")
        return res
    res.count("quiescence_checks")
    for j, k in enumerate(keys):
        ref = mon.curval[0][j]
        for b in range(1, nb + 1):
            if mon.curval[b][j] != ref:
                shape = _reorder_shape(mon, b, "Replicate", k) if _inverted(seqs_at(b, k)) else "in-order-delivery"
                once.add(
                    "divergence-at-quiescence",
                    "BackupNode",
                    shape,
                    f"{mode}: heap empty, primary holds {k}={mon.cur[0][j]!r}, backup {names[b]} holds {mon.cur[b][j]!r}",
                    {"replicate_seq_arrival_order_at_backup": seqs_at(b, k), "backup_history": mon.hist[b][j]},
                )
    return res


# --------------------------------------------------------------------------
# chain replication


def gen_chain(rng: random.Random, tier: str) -> dict:
    n = rng.choice([2, 3, 3, 4, 5])
    craq = rng.random() < 0.6
    names = [f"c{i}" for i in range(n)]
    keys = _keys(rng)
    net = gen_net(rng, names, ["Propagate", "Propagate", "WriteAck", "CommitNotify", "Read"])
    read_nodes = list(range(n)) if craq else [n - 1]
    return {
        "scheme": "chain",
        "n": n,
        "craq": craq,
        "keys": keys,
        "lat": gen_lat(rng, n),
        "ops": gen_ops(rng, tier, n, keys, [0], read_nodes, net["grid"], p_write=0.55, bad_write_nodes=range(1, n)),
        "net": net,
    }


def run_chain(case: dict) -> Result:
    _quiet()
    res = Result()
    once = _Once(res)
    n = case["n"]
    craq = case["craq"]
    names = [f"c{i}" for i in range(n)]
    keys = case["keys"]
    script = GridScript(case["net"])
    net = Network(name="net")
    lat = case["lat"]
    made = {}

    def factory(sname):
        i = len(made)
        st = KVStore(sname, read_latency=lat[i][0], write_latency=lat[i][1])
        made[i] = st
        return st

    nodes = build_chain(names, net, factory, craq_enabled=craq)
    stores = [nd.store for nd in nodes]
    _add_mesh(net, nodes, script)
    sim = Simulation(entities=[*nodes, *stores, net])
    mon = Mon(stores, keys, nodes, {"Propagate", "Write", "Read", "WriteAck", "CommitNotify"})
    tail = n - 1
    seq_of_val: dict = {}

    def seqs_at(i: int, key: str, upto=None):
        return [a[4].get("seq", 0) for a in _arrivals_for(mon, i, "Propagate", key, upto)]

    def why_behind(i: int, key: str, seq, value) -> str:
        if i == 0:
            return "head"
        arr = seqs_at(i, key, mon.idx)
        if seq not in arr:
            return "propagate-not-yet-arrived"
        if _inverted(arr):
            return _reorder_shape(mon, i, "Propagate", key, mon.idx)
        if value not in mon.held[i][mon.kidx[key]]:
            return "propagate-arrived-apply-pending"
        return "in-order-delivery"

    def read_shape(op) -> str:
        """Structural precondition of an uncommitted read, from the observed history."""
        o = op["o"]
        key, nd = o["key"], o["node"]
        j = mon.kidx[key]
        val = _tok(op["reply"].get("value"))
        fut = op["fut"]
        served_by_tail = nd == tail or any(
            a[2] == tail and a[3] == "Read" and a[4].get("reply_future") is fut for a in mon.arrivals
        )
        if served_by_tail:
            return "served-by-tail"
        arrival_idx = next(a[0] for a in mon.arrivals if a[2] == nd and a[3] == "Read" and a[4].get("reply_future") is fut)
        applied_idx = max(i for i, _t, v in mon.hist[nd][j] if v == val)
        if applied_idx > arrival_idx:
            return "value-applied-between-dirty-check-and-store-read"
        sv = seq_of_val.get(val)
        for a in mon.arrivals:
            if not (applied_idx < a[0] < arrival_idx and a[2] == nd):
                continue
            if a[3] == "CommitNotify" and a[4].get("key") == key and a[4].get("seq") != sv:
                return "dirty-mark-cleared-by-commit-of-other-write-same-key"
            if a[3] == "WriteAck" and nd == 0 and a[4].get("key") == key and a[4].get("seq") != sv:
                return "dirty-mark-cleared-by-commit-of-other-write-same-key"
        return "clean-at-dirty-check-without-commit"

    def on_reply(op):
        o = op["o"]
        rep = op["reply"]
        key = o["key"]
        j = mon.kidx[key]
        if o["op"] == "r":
            res.count("reads_completed")
            if not isinstance(rep, dict) or rep.get("status") != "ok":
                return
            res.count("chain_reads_checked")
            val = rep.get("value")
            # the statement speaks of values: the text must have been in the tail's store by now (whichever write put it)
            if _plain(val) not in mon.heldval[tail][j]:
                shape = read_shape(op)
                once.add(
                    "read-returns-value-not-yet-at-tail",
                    "ChainNode",
                    shape,
                    f"read of {key} at {names[o['node']]} (craq={craq}) returned {_tok(val)!r} at t={mon.now_ns}ns; the tail's store "
                    f"has held only {[v for _i, _t, v in mon.hist[tail][j]]}",
                    {"node_history": mon.hist[o["node"]][j], "tail_history": mon.hist[tail][j], "reply_event_index": mon.idx},
                )
            elif o["node"] != tail:
                res.count("craq_reads_checked")
                fwd = any(a[2] == tail and a[3] == "Read" and a[4].get("reply_future") is op["fut"] for a in mon.arrivals)
                res.count("craq_reads_forwarded_to_tail" if fwd else "craq_reads_served_locally")
                if not fwd and any(p["o"]["op"] == "w" and p["o"]["key"] == key for p in mon.pending):
                    res.count("craq_local_reads_with_same_key_write_in_flight")
            return
        if not isinstance(rep, dict) or rep.get("status") != "ok":
            res.count("writes_rejected")
            return
        res.count("writes_acked")
        res.count("acks_checked")
        res.count("chain_acks_checked")
        val = op["tok"]
        pos = mon.pos(0, key)
        if val not in pos:
            once.add("ack-implies-applied-at-every-node", "ChainNode", "not-applied-at-head", f"write {val} acked, head never held it")
            return
        for i in range(n):
            cv = mon.cur[i][j]
            if cv not in pos or pos[cv] < pos[val]:
                shape = why_behind(i, key, rep.get("seq"), val)
                once.add(
                    "ack-implies-applied-at-every-node",
                    "ChainNode",
                    shape,
                    f"write {key}={val} (seq {rep.get('seq')}) acknowledged at t={mon.now_ns}ns while chain node {names[i]} holds "
                    f"{cv!r}; head applied {[v for _i, _t, v in mon.hist[0][j]]}",
                    {
                        "node": names[i],
                        "propagate_seq_arrival_order_at_node": seqs_at(i, key, mon.idx),
                        "node_history": mon.hist[i][j],
                        "ack_event_index": mon.idx,
                    },
                )

    def extra(event):
        if event.event_type == "Propagate" and not isinstance(event, ProcessContinuation):
            m = event.context.get("metadata", {})
            seq_of_val.setdefault(_tok(m.get("value")), m.get("seq"))

    mon.on_reply = on_reply
    mon.extra = extra
    _schedule_ops(sim, mon, case["ops"], nodes)
    sim.control.on_event(mon.after_event)
    status = _run_sim(sim, res)
    _mark_nontrivial(res, mon, "Propagate", lambda m: ("head", m.get("seq", 0)))
    if status != "completed":
        return res
    res.count("quiescence_checks")
    res.count("unacked_at_quiescence", len(mon.pending))
    for j, k in enumerate(keys):
        ref = mon.curval[0][j]
        for i in range(1, n):
            if mon.curval[i][j] != ref:
                shape = _reorder_shape(mon, i, "Propagate", k) if _inverted(seqs_at(i, k)) else "in-order-delivery"
                once.add(
                    "divergence-at-quiescence",
                    "ChainNode",
                    shape,
                    f"heap empty, head holds {k}={mon.cur[0][j]!r}, node {names[i]} holds {mon.cur[i][j]!r}",
                    {"propagate_seq_arrival_order_at_node": seqs_at(i, k), "node_history": mon.hist[i][j]},
                )
    return res


# --------------------------------------------------------------------------
# multi-leader


def _lww_key(v: VersionedValue):
    # Total order used by the harness-supplied resolvers.  Two writes of one leader at one instant share
    # (timestamp, writer); they are told apart by the writer's own vector-clock component (which a merged clock
    # preserves), otherwise the merge function would keep whichever version a node saw first.
    return (v.timestamp, v.writer_id, (v.vector_clock or {}).get(v.writer_id, 0))


def _merge_fn(key, a: VersionedValue, b: VersionedValue) -> VersionedValue:
    w = a if _lww_key(a) >= _lww_key(b) else b
    vc = dict(a.vector_clock or {})
    for k, c in (b.vector_clock or {}).items():
        vc[k] = max(vc.get(k, 0), c)
    return VersionedValue(value=w.value, timestamp=w.timestamp, writer_id=w.writer_id, vector_clock=vc)


def _resolver(kind: str):
    if kind == "lww":
        return LastWriterWins()
    if kind == "default":
        return None
    if kind == "vcmerge":
        return VectorClockMerge()
    if kind == "vcmerge_fn":
        return VectorClockMerge(merge_fn=_merge_fn)
    if kind == "custom_lww":
        return CustomResolver(lambda key, versions: max(versions, key=_lww_key))
    raise KeyError(kind)


def gen_ml(rng: random.Random, tier: str) -> dict:
    n = rng.choice([2, 3, 3, 4])
    names = [f"l{i}" for i in range(n)]
    keys = _keys(rng)
    net = gen_net(rng, names, ["Replicate", "Replicate", "AntiEntropyRequest", "AntiEntropyResponse"])
    interval = rng.choice([0.2, 0.5, 1.0, 2.0])
    return {
        "scheme": "ml",
        "n": n,
        "keys": keys,
        "resolver": rng.choice(["lww", "lww", "default", "vcmerge", "vcmerge_fn", "custom_lww"]),
        "lat": gen_lat(rng, n),
        "ae_interval": interval,
        "ae_first": [round(rng.uniform(0.01, interval), 3) for _ in range(n)],
        "ae_seed": rng.randrange(1 << 30),
        "ops": _idle_start(rng, gen_ops(rng, tier, n, keys, list(range(n)), list(range(n)), net["grid"], p_write=0.75), interval),
        "net": net,
    }


def _idle_start(rng: random.Random, ops: list[dict], interval: float) -> list[dict]:
    """Half of the multi-leader cases start their workload after one or several anti-entropy intervals of idleness, so
    that the first timer firings find every leader empty."""
    t0 = rng.choice([0.0, 0.0, 1.3, 2.6, 4.2]) * interval
    if t0:
        for o in ops:
            o["t"] = round(o["t"] + t0, 6)
    return ops


def gen_mlpart(rng: random.Random, tier: str) -> dict:
    """Multi-leader with a partition / loss window that swallows anti-entropy rounds of each side *after* that side's
    last write, followed by a long healed quiescent phase."""
    n = rng.choice([2, 2, 2, 3, 3, 4])
    names = [f"l{i}" for i in range(n)]
    keys = _keys(rng)
    net = gen_net(rng, names, ["Replicate", "Replicate", "AntiEntropyRequest", "AntiEntropyResponse"])
    interval = rng.choice([0.2, 0.5, 1.0])
    ops = _idle_start(rng, gen_ops(rng, tier, n, keys, list(range(n)), list(range(n)), net["grid"], p_write=0.8), interval)
    t_first = min(o["t"] for o in ops)
    t_last = max(o["t"] for o in ops)
    order = names[:]
    rng.shuffle(order)
    k = rng.randrange(1, n)
    rounds = rng.choice([2, 3, 5, 8] if n == 2 else [4, 8, 12, 20])
    kind = rng.choice(["partition", "partition", "drop"])
    cuts = [
        {
            "kind": kind,
            "a": sorted(order[:k]),
            "b": sorted(order[k:]),
            "asymmetric": rng.random() < 0.2,
            "from": round(rng.choice([0.0, rng.uniform(t_first, t_last), rng.uniform(t_first, t_last)]), 4),
            "to": round(t_last + (rounds + rng.random()) * interval, 4),
        }
    ]
    if kind == "drop" and rng.random() < 0.4:
        # a second, shorter loss window between another split (drop rules may overlap freely)
        rng.shuffle(order)
        k2 = rng.randrange(1, n)
        f2 = rng.uniform(0.0, t_last + interval)
        cuts.append(
            {"kind": "drop", "a": sorted(order[:k2]), "b": sorted(order[k2:]), "asymmetric": rng.random() < 0.3,
             "from": round(f2, 4), "to": round(f2 + rng.uniform(0.5, 4.0) * interval, 4)}
        )
    return {
        "scheme": "mlpart",
        "n": n,
        "keys": keys,
        "resolver": rng.choice(["lww", "lww", "default", "vcmerge", "vcmerge_fn", "custom_lww"]),
        "lat": gen_lat(rng, n),
        "ae_interval": interval,
        "ae_first": [round(rng.uniform(0.01, interval), 3) for _ in range(n)],
        "ae_seed": rng.randrange(1 << 30),
        "ops": ops,
        "net": net,
        "cuts": cuts,
    }


def _cut_blocks(c: dict, a: str, b: str) -> bool:
    """Does cut `c` block messages a -> b?"""
    if a in c["a"] and b in c["b"]:
        return True
    return not c.get("asymmetric") and a in c["b"] and b in c["a"]


def _net_with_cuts(net_spec: dict, cuts: list[dict]) -> dict:
    """Loss windows of kind 'drop' become first-match drop rules of the delay script."""
    rules = []
    for c in cuts:
        if c["kind"] != "drop":
            continue
        for a in c["a"] + c["b"]:
            for b in c["a"] + c["b"]:
                if a != b and _cut_blocks(c, a, b):
                    rules.append({"src": a, "dst": b, "type": None, "after": c["from"], "before": c["to"], "drop": True})
    if not rules:
        return net_spec
    return dict(net_spec, rules=rules + list(net_spec.get("rules", [])))


def _partition_ctl(net: Network, nodes: list, cuts: list[dict]) -> list[tuple]:
    """(time, CallbackEntity) pairs that open / heal the Network.partition windows of a case."""
    by_name = {nd.name: nd for nd in nodes}
    ctl = []
    for c in cuts:
        if c.get("kind", "partition") != "partition":
            continue
        handle = {}

        def cut(_e, c=c, handle=handle):
            handle["h"] = net.partition([by_name[x] for x in c["a"]], [by_name[x] for x in c["b"]], asymmetric=bool(c.get("asymmetric")))

        def heal(_e, handle=handle):
            if "h" in handle:
                handle["h"].heal()

        ctl.append((c["from"], CallbackEntity(f"cut@{c['from']}", fn=cut)))
        ctl.append((c["to"], CallbackEntity(f"heal@{c['to']}", fn=heal)))
    return ctl


def _vc_leq(a: dict, b: dict) -> bool:
    return all(c <= b.get(k, 0) for k, c in a.items())


def run_ml(case: dict) -> Result:
    _quiet()
    res = Result()
    once = _Once(res)
    n = case["n"]
    names = [f"l{i}" for i in range(n)]
    keys = case["keys"]
    cuts = case.get("cuts", [])
    script = GridScript(_net_with_cuts(case["net"], cuts))
    net = Network(name="net")
    stores = _stores_of(case["lat"], names)
    interval = case["ae_interval"]
    nodes = [
        LeaderNode(names[i], store=stores[i], network=net, conflict_resolver=_resolver(case["resolver"]), anti_entropy_interval=interval)
        for i in range(n)
    ]
    for nd in nodes:
        nd.add_peers([p for p in nodes if p is not nd])
    _add_mesh(net, nodes, script)
    ops = case["ops"]
    t_last_op = max(o["t"] for o in ops)
    dmax = max_delay(case["net"])
    hmax = (len(keys) + 1) * max(w for _r, w in case["lat"]) + max(r for r, _w in case["lat"])
    settle = 2 * dmax + 2 * hmax + 1e-6
    t_heal = max([c["to"] for c in cuts] + [0.0])
    t_base = max(t_last_op, t_heal)
    horizon = t_base + settle + ML_MAX_ROUNDS * interval
    ctl = _partition_ctl(net, nodes, cuts)
    sim = Simulation(entities=[*nodes, *stores, net, *[e for _t, e in ctl]], end_time=Instant.from_seconds(horizon))
    mon = Mon(stores, keys, nodes, {"Replicate", "Write", "Read", "AntiEntropyRequest", "AntiEntropyResponse", "AntiEntropy"})
    random.seed(case["ae_seed"])
    for i, nd in enumerate(nodes):
        sim.schedule(Event(time=Instant.from_seconds(case["ae_first"][i]), event_type="AntiEntropy", target=nd, daemon=True))
    for t, ent in ctl:
        sim.schedule(Event(time=Instant.from_seconds(t), event_type="NetControl", target=ent))

    def on_reply(op):
        if op["o"]["op"] == "w":
            res.count("writes_acked")
        else:
            res.count("reads_completed")

    # versions are part of the replicated state (public property); a change of version with equal value also counts
    ver_sig = [None] * n
    state = {"last_ver_change_ns": 0, "fixpoint": False, "t_fix": None, "t_star": 0, "equal_at_heal": None, "dead": []}
    all_pairs = {(a, b) for a in names for b in names if a != b}
    # "Anti-entropy has run" is measured by *timer firings*, not by messages: every AntiEntropy tick is logged together
    # with the peer the leader drew for it (a transparent recorder around random.choice, the library's way of picking
    # the peer).  A leader that fires its timer and decides not to talk has still run its anti-entropy round.
    ticks: list[tuple] = []  # (t_ns, leader name, chosen peer name | None)
    choices: list = []
    t_base_ns = int(t_base * 1e9)
    t_heal_ns = int(t_heal * 1e9)
    fallback_ticks = 20 * (n - 1)

    def extra(event):
        # version changes
        if id(event.target) in mon.node_of:
            i = mon.node_of[id(event.target)]
            sig = tuple(sorted((k, _tok(v.value), v.timestamp, v.writer_id) for k, v in nodes[i].versions.items()))
            if sig != ver_sig[i]:
                ver_sig[i] = sig
                state["last_ver_change_ns"] = mon.now_ns
        if cuts and state["equal_at_heal"] is None and mon.now_ns > t_heal_ns:
            # first delivery after the last window ended (the store sample of this delivery is already in)
            state["equal_at_heal"] = all(mon.curval[i] == mon.curval[0] for i in range(1, n))
        if event.event_type != "AntiEntropy" or isinstance(event, ProcessContinuation):
            return
        who = getattr(event.target, "name", None)
        chosen = choices[-1] if choices else None
        del choices[:]
        ticks.append((mon.now_ns, who, getattr(chosen, "name", None)))
        last_tick[who] = mon.now_ns
        if evaluate(mon.now_ns):
            sim.control.pause()

    # A leader's timer re-arms itself one interval after each firing.  A leader that has not fired for two intervals
    # (and whose last round has had time to finish) has no timer any more: its anti-entropy "has run" as much as it
    # ever will, so its pairs count as settled - and if the replicas then differ, the stopped timer is the mechanism.
    last_tick = {names[i]: int(case["ae_first"][i] * 1e9) - 1 for i in range(n)}
    interval_ns = int(interval * 1e9)

    def evaluate(now_ns: int, heap_empty: bool = False) -> bool:
        if mon.pending or now_ns <= t_base_ns:
            return False
        t_star = max(mon.last_change_ns, state["last_ver_change_ns"], t_base_ns)
        if heap_empty:
            dead = set(names)
        else:
            dead = {a for a in names if now_ns > last_tick[a] + 2 * interval_ns and now_ns >= last_tick[a] + settle * 1e9}
        covered = {(a, b) for a in dead for b in names if b != a}
        blind: dict = {}
        for s_ns, a, b in ticks:
            if s_ns > t_star and s_ns + settle * 1e9 <= now_ns:
                if b is None:
                    blind[a] = blind.get(a, 0) + 1
                else:
                    covered.add((a, b))
        for a, cnt in blind.items():  # peer choice not observable: fall back to a count of timer firings
            if cnt >= fallback_ticks:
                covered |= {(a, b) for b in names if b != a}
        if covered >= all_pairs:
            state["fixpoint"] = True
            state["t_fix"] = now_ns
            state["t_star"] = t_star
            state["dead"] = sorted(dead)
            return True
        return False

    mon.on_reply = on_reply
    mon.extra = extra
    _schedule_ops(sim, mon, ops, nodes)
    sim.control.on_event(mon.after_event)
    orig_choice = random.choice

    def recording_choice(seq):
        r = orig_choice(seq)
        choices.append(r)
        return r

    random.choice = recording_choice
    try:
        status = _run_sim(sim, res)
    finally:
        random.choice = orig_choice
    res.count("ae_timer_firings", len(ticks))
    horizon_ns = int(horizon * 1e9)
    if status == "completed" and not state["fixpoint"] and mon.now_ns + interval_ns < horizon_ns:
        # The run ended before the horizon although no fixpoint was declared: with end_time set the loop only stops
        # early when the heap is empty, i.e. not a single timer is armed any more and nothing is in flight.
        res.count("ml_runs_ended_with_empty_heap")
        evaluate(max(mon.now_ns, t_base_ns + 1), heap_empty=True)

    def order_of(m):
        w = m.get("writer_id")
        vc = m.get("vector_clock") or {}
        return (w, vc.get(w, 0)) if w is not None else None

    if not cuts:
        _mark_nontrivial(res, mon, "Replicate", order_of)
    else:
        # non-trivial: the replicas differed when the last window ended, and for some pair both directions had an
        # anti-entropy round swallowed after the sender's last store change
        def last_change_before_heal(i):
            return max([t for h in mon.hist[i] for _i, t, _v in h if t <= t_heal_ns] + [0])

        idx = {nm: i for i, nm in enumerate(names)}
        swallowed = set()
        for s_ns, a, b in ticks:
            if b is None or s_ns <= last_change_before_heal(idx[a]):
                continue
            if any(c["from"] * 1e9 < s_ns < c["to"] * 1e9 and _cut_blocks(c, a, b) for c in cuts):
                swallowed.add((a, b))
        res.count("mlpart_ae_rounds_swallowed_after_last_change", len(swallowed))
        both = any((b, a) in swallowed for a, b in swallowed)
        if state["equal_at_heal"] is False:
            res.count("mlpart_diverged_at_heal")
            if both:
                res.nontrivial = True
                res.count("mlpart_diverged_at_heal_with_rounds_swallowed_both_ways")
    res.count("ae_requests_delivered", sum(1 for a in mon.arrivals if a[3] == "AntiEntropyRequest"))
    if status != "completed":
        return res
    equal = all(mon.curval[i] == mon.curval[0] for i in range(1, n))
    if not state["fixpoint"]:
        res.count("ml_no_fixpoint_within_budget")
        res.inconclusive = (
            f"no anti-entropy fixpoint within {ML_MAX_ROUNDS} intervals after the last operation "
            f"(replicas {'equal' if equal else 'DIFFER'} at the horizon)"
        )
        return res
    res.count("quiescence_checks")
    res.count("mlpart_fixpoints_reached" if cuts else "ml_fixpoints_reached")
    if state["dead"]:
        res.count("ml_fixpoints_with_stopped_timers")
    if any(len(h) > 2 for i in range(n) for h in mon.hist[i]):
        res.count("ml_fixpoints_after_overwrites")
    requests_after = sum(1 for send_ns, _s, _d, et, _n, _dl in script.log if et == "AntiEntropyRequest" and send_ns > state["t_star"])
    if not equal:
        for j, k in enumerate(keys):
            vals = [mon.cur[i][j] for i in range(n)]
            if len({mon.curval[i][j] for i in range(n)}) > 1:
                vers = [nodes[i].versions.get(k) for i in range(n)]
                shape = _ml_shape(vers)
                if state["dead"]:
                    shape = "anti-entropy-timer-stopped"
                elif requests_after == 0:
                    shape = "anti-entropy-timer-fires-without-sending"
                n_ticks = sum(1 for s_ns, _a, _b in ticks if s_ns > state["t_star"])
                once.add(
                    "divergence-after-anti-entropy",
                    "LeaderNode",
                    shape,
                    f"resolver={case['resolver']}: for every ordered pair the anti-entropy timer fired (or stopped for good: "
                    f"{state['dead']}) after the last state change / heal / operation (t*={state['t_star']}ns, now={mon.now_ns}ns, {n_ticks} timer firings and "
                    f"{requests_after} AntiEntropyRequest(s) since t*) and key {k} is {vals}",
                    {
                        "versions": [None if v is None else [_tok(v.value), v.timestamp, v.writer_id, v.vector_clock] for v in vers],
                        "cuts": cuts,
                        "leaders_whose_timer_stopped": {a: last_tick[a] for a in state["dead"]},
                        "ticks_since_t_star": [t for t in ticks if t[0] > state["t_star"]][:24],
                    },
                )
    return res


def _ml_shape(vers: list) -> str:
    vs = []
    for v in vers:
        if v is not None and all(v.value != u.value for u in vs):
            vs.append(v)
    if any(v is None for v in vers):
        return "key-missing-at-a-replica"
    for a in vs:
        for b in vs:
            if a is b:
                continue
            va, vb = a.vector_clock or {}, b.vector_clock or {}
            if _vc_leq(va, vb) and va != vb:
                return "equal-timestamp-causally-ordered-versions" if a.timestamp == b.timestamp else "dominated-version-survives"
    if len({v.timestamp for v in vs}) < len(vs):
        return "equal-timestamp-concurrent-versions"
    return "concurrent-versions-unresolved"


# --------------------------------------------------------------------------
# datastore.ReplicatedStore


class _Client(Entity):
    def __init__(self, name, rs, log):
        super().__init__(name)
        self.rs = rs
        self.log = log

    def handle_event(self, event):
        m = event.context["metadata"]
        rec = {"i": m["i"], "call_ns": self.now.nanoseconds}
        self.log.append(rec)
        if m["op"] == "w":
            ok = yield from self.rs.put(m["key"], m["val"])
            rec["ok"] = ok
        else:
            rec["value"] = yield from self.rs.get(m["key"])
        rec["ret_ns"] = self.now.nanoseconds
        m["done"].resolve(rec)
        return None


def gen_rstore(rng: random.Random, tier: str) -> dict:
    n = rng.choice([2, 3, 3, 4, 5])
    keys = _keys(rng)
    grid = rng.choice([None, None, 0.001])
    ops = gen_ops(rng, tier, n, keys, [0], [0], grid, p_write=0.7)
    return {
        "scheme": "rstore",
        "n": n,
        "keys": keys,
        "lat": gen_lat(rng, n),
        "wc": rng.choice(["ONE", "QUORUM", "ALL"]),
        "rc": rng.choice(["ONE", "QUORUM", "ALL"]),
        "ops": ops,
    }


def run_rstore(case: dict) -> Result:
    _quiet()
    res = Result()
    once = _Once(res)
    n = case["n"]
    keys = case["keys"]
    names = [f"r{i}" for i in range(n)]
    stores = [KVStore(names[i], read_latency=case["lat"][i][0], write_latency=case["lat"][i][1]) for i in range(n)]
    rs = ReplicatedStore("rs", stores, read_consistency=ConsistencyLevel[case["rc"]], write_consistency=ConsistencyLevel[case["wc"]])
    log: list = []
    client = _Client("client", rs, log)
    sim = Simulation(entities=[client, rs, *stores])
    mon = Mon(stores, keys, [], set())
    required = {"ONE": 1, "QUORUM": n // 2 + 1, "ALL": n}[case["wc"]]
    ops = case["ops"]

    def on_reply(op):
        o = op["o"]
        rec = op["reply"]
        if o["op"] != "w":
            res.count("reads_completed")
            return
        if not rec.get("ok"):
            res.count("writes_rejected")
            return
        res.count("writes_acked")
        res.count("acks_checked")
        key, val = o["key"], op["tok"]
        j = mon.kidx[key]
        pos = mon.pos(0, key)
        if val not in pos:
            once.add("ack-implies-applied", "ReplicatedStore", "not-applied-at-first-replica", f"put {val} returned True, replica 0 never held it")
            return
        ok = sum(1 for i in range(n) if mon.cur[i][j] in pos and pos[mon.cur[i][j]] >= pos[val])
        if ok < required:
            once.add(
                "ack-implies-applied",
                "ReplicatedStore",
                "concurrent-puts-same-key" if _overlap(ops, log, o) else "sequential-puts",
                f"put {key}={val} returned True with write_consistency={case['wc']} but only {ok} of {n} replicas hold it or a later value",
                {"replica_values": [mon.cur[i][j] for i in range(n)]},
            )

    mon.on_reply = on_reply
    for i, o in enumerate(ops):
        fut = SimFuture()
        tv = TV(o["val"], i) if o["op"] == "w" else None
        meta = {"i": i, "op": o["op"], "key": o["key"], "val": tv, "done": fut}
        sim.schedule(Event(time=Instant.from_seconds(o["t"]), event_type="Op", target=client, context={"metadata": meta}))
        mon.pending.append({"i": i, "o": o, "fut": fut, "tok": _tok(tv)})
    sim.control.on_event(mon.after_event)
    status = _run_sim(sim, res)
    if any(_overlap(ops, log, o) for o in ops if o["op"] == "w"):
        res.nontrivial = True
        res.count("cases_with_overlapping_same_key_puts")
    if status != "completed":
        return res
    res.count("quiescence_checks")
    for j, k in enumerate(keys):
        vals = [mon.cur[i][j] for i in range(n)]
        if len({mon.curval[i][j] for i in range(n)}) > 1:
            once.add(
                "divergence-at-quiescence",
                "ReplicatedStore",
                "concurrent-puts-same-key" if any(_overlap(ops, log, o) for o in ops if o["op"] == "w" and o["key"] == k) else "sequential-puts",
                f"heap empty, replicas hold {k}={vals}",
            )
    return res


def _overlap(ops, log, o) -> bool:
    """Did write `o` overlap in time with another put of the same key?"""
    by_i = {r["i"]: r for r in log}
    me = next((by_i.get(i) for i, x in enumerate(ops) if x is o), None)
    if me is None or "ret_ns" not in me:
        return False
    for i, x in enumerate(ops):
        if x is o or x["op"] != "w" or x["key"] != o["key"]:
            continue
        r = by_i.get(i)
        if r is None:
            continue
        if r["call_ns"] < me["ret_ns"] and me["call_ns"] < r.get("ret_ns", 1 << 62):
            return True
    return False


# --------------------------------------------------------------------------
# shrinking: drop ops, then drop delay rules


_known_keys = None


def _known():
    global _known_keys
    if _known_keys is None:
        from hsverif import findings as kf

        _known_keys = {kf.key_of(e) for e in kf.for_property(PID) if e.get("status") == "known"}
    return _known_keys


def _shrink(case: dict, still_fails) -> dict:
    """ddmin over the op list, then drop delay rules.  Cases whose first violation is a recorded mechanism are left
    alone (their hand-minimised witnesses are pinned in known_findings.d/C17.json; shrinking a quarter of all cases
    again on every run would cost more than the exploration itself)."""
    r = FAMILIES[case_family(case)].run(case)
    if r.violations and r.violations[0].key() in _known():
        return case
    cur = dict(case)

    def fails_with(ops):
        c = dict(cur)
        c["ops"] = ops
        return still_fails(c)

    cur["ops"] = ddmin(cur["ops"], fails_with, max_tests=120)
    net = cur.get("net")
    if net and net.get("rules"):
        for i in range(len(net["rules"]) - 1, -1, -1):
            c = dict(cur)
            c["net"] = dict(net, rules=net["rules"][:i] + net["rules"][i + 1 :])
            if still_fails(c):
                cur, net = c, c["net"]
    return cur


def case_family(case: dict) -> str:
    return case["scheme"]


FAMILIES = {
    "pb": Family("pb", gen_pb, run_pb, shrink=_shrink, case_timeout=30.0),
    "chain": Family("chain", gen_chain, run_chain, shrink=_shrink, case_timeout=30.0),
    "ml": Family("ml", gen_ml, run_ml, shrink=_shrink, case_timeout=30.0),
    "mlpart": Family("mlpart", gen_mlpart, run_ml, shrink=_shrink, case_timeout=30.0),
    "rstore": Family("rstore", gen_rstore, run_rstore, shrink=_shrink, case_timeout=30.0),
}

BUDGET = {
    "quick": {"pb": 3000, "chain": 3000, "ml": 1200, "mlpart": 800, "rstore": 400},
    "thorough": {"pb": 120000, "chain": 120000, "ml": 40000, "mlpart": 20000, "rstore": 8000},
}

"""C18  Logical clocks respect causality; CRDT replicas converge to the specified value.

Three kinds of workload, all run against the real classes:

* ``clocks``     generated histories (local / send / receive among 2-5 nodes whose physical clocks are
                 skewed, drifting, stepping backwards); every node owns a real LamportClock, VectorClock
                 and HybridLogicalClock (on a real NodeClock).  Happened-before is the transitive closure
                 of program order and send->receive computed by the harness from the history itself.
* ``gcounter`` / ``pncounter`` / ``lww`` / ``orset``
                 generated operation + merge schedules over 2-4 replicas (direct merges, merges through
                 to_dict/from_dict, delayed / duplicated / grouped snapshots, replica reloads); the oracle is
                 the op-based specification evaluated over the set of updates each replica has received.
* ``store``      real simulations of 2-4 CRDTStore entities gossiping over a scripted network; checked
                 at a gossip fixpoint (quiescence).
"""

from __future__ import annotations

import copy
import pickle
import random

from hsverif.core import Family, Result, ddmin

PID = "C18"


def _clone(obj):
    """Independent copy of a library object (same effect as copy.deepcopy, several times cheaper)."""
    return pickle.loads(pickle.dumps(obj, pickle.HIGHEST_PROTOCOL))

LEVEL = "exploration"
RULE = (
    "clocks: generated histories of 4-60 local/send/receive events among 2-5 nodes; per node a NodeClock with "
    "none / FixedSkew (1 ns .. 1 year, both signs) / LinearDrift (down to -3e6 ppm = running backwards) / stepped "
    "skew (offset changes, incl. backwards jumps); messages delivered out of order, duplicated, to several nodes, "
    "HLC stamps optionally through to_dict/from_dict; all event pairs compared against the harness's transitive "
    "happened-before. Non-trivial: >=1 concurrent pair and a causal chain of >=3 events crossing >=1 message. "
    "longclocks: run-length encoded histories of 66 000-140 000 events on one busy node whose physical reading stays at or "
    "below the physical component its HLC holds (peer 2 s-1 h ahead, same-instant burst, clock running backwards), a witness "
    "node on the same component receiving its late stamps, Lamport counters started near 2^16/2^31/2^32/2^63/2^64; every "
    "program-order successor and every message edge checked (Lamport, HLC, vector snapshots; real VectorClock methods at "
    "message edges, near powers of two and every 4096th event). Non-trivial: a run of >=65 536 events under one physical "
    "component and >=2 message edges. "
    "crdt schedules: 3-40 ops over 2-4 replicas (updates with unique ids/tags, direct and to_dict/from_dict merges, "
    "delayed/duplicated/grouped snapshots, reloads, law probes), value and equality checked after every op against "
    "the op-based specification over received-update sets, then a full sync. Non-trivial: updates at >=2 replicas and, "
    "before the final sync, merges in both directions around some replica (for orset: around a replica after a remove "
    "that observed an add). store: 2-4 CRDTStore entities, symmetric (mesh, ring) and one-way peer lists (one-way ring, star whose hub is known only to its spokes, late joiner, random strongly connected digraph) over a scripted lossy network, writes "
    "through Write events (LWW through get_or_create().set with a real HLC over a skewed clock), checked only at a "
    "measured gossip fixpoint. Non-trivial: >=2 writers on one key and >=1 key merged by gossip on every node. "
    "Reporting: a state-equality or algebraic-law failure is reported only when all values involved match the "
    "specification (otherwise the value deviation observed at the same step is the report); deviations that vanish when "
    "to_dict/from_dict hops are bypassed are attributed to the first round trip that changed a state. Distinct by case hash."
)
ASSUMPTIONS = [
    "the receive event's HLC timestamp is the clock state after receive() (read from _last) or the next now()",
    "vector timestamps are compared with the real VectorClock.happened_before / is_concurrent on copies taken at the event",
    "LWW writes carry unique (physical, logical, node) timestamps; ties on (physical, logical) are broken by node id as documented",
    "every replica has a distinct node id and only its owner applies local operations to it",
    "a merge (direct, via to_dict/from_dict, of a delayed or grouped snapshot) delivers exactly the updates the source had received when the state was captured",
    "store: quiescence is measured from the run: after the last state change of any store, gossip messages that were sent after that "
    "instant and delivered (whether or not the receiver lists the sender as a peer) reach a store from every store: such a store has been handed every update and must show "
    "the specified value, and all such stores must be equal; runs with no such store are inconclusive; "
    "the scripted network is loss-free and fast for the last 12 gossip intervals",
    "store/orset: every element is added at most once; only removes issued by the adder after its add are treated as having observed the add",
]
MUST_OBSERVE = ["pairs_checked", "value_checks", "law_checks", "store_fixpoints", "long_history_events", "histories_with_run_over_65536"]


# ==========================================================================
# clocks
# ==========================================================================

_OFFSETS = [0, 1, -1, 1000, -1000, 10**6, -(10**6), 10**9, -(10**9), 3600 * 10**9, -3600 * 10**9, 31536000 * 10**9, -31536000 * 10**9]
_PPM = [1.0, -1.0, 50.0, -50.0, 1000.0, -1000.0, 1e5, -1e5, 5e5, -5e5, -999999.0, -1e6, -1.5e6, -3e6, 2e6]
_INCS = {
    "frozen": [0, 0, 0, 0, 1],
    "ns": [0, 1, 1, 2, 7, 1000],
    "ms": [0, 10**5, 10**6, 10**6, 5 * 10**6, 10**8],
    "s": [0, 10**8, 10**9, 10**9, 3 * 10**9, 60 * 10**9],
    "mixed": [0, 0, 1, 1000, 10**6, 10**8, 10**9, 10**10],
}


def _gen_model(rng: random.Random, horizon: int) -> dict:
    k = rng.choice(["none", "skew", "skew", "drift", "drift", "steps", "steps"])
    if k == "skew":
        return {"kind": "skew", "offset_ns": rng.choice(_OFFSETS)}
    if k == "drift":
        return {"kind": "drift", "ppm": rng.choice(_PPM)}
    if k == "steps":
        steps = [[0, rng.choice(_OFFSETS)]]
        for _ in range(rng.randrange(1, 5)):
            steps.append([rng.randrange(0, max(2, horizon)), rng.choice(_OFFSETS)])
        steps.sort(key=lambda s: s[0])
        return {"kind": "steps", "steps": steps}
    return {"kind": "none"}


def gen_clocks(rng: random.Random, tier: str) -> dict:
    n = rng.choice([2, 2, 3, 3, 4, 5])
    nodes = [f"n{i}" for i in range(n)]
    if rng.random() < 0.15:
        nodes = list(reversed(nodes))  # node ids whose lexical order differs from index order
    sizes = [4, 8, 12, 20, 30, 45] if tier == "quick" else [4, 8, 12, 20, 30, 45, 60]
    n_events = rng.choice(sizes)
    scale = rng.choice(list(_INCS))
    incs = _INCS[scale]
    t = rng.choice([0, 0, 1, 10**9, 1000 * 10**9])
    events = []
    pending: list[int] = []
    delivered: list[int] = []
    sender: dict[int, int] = {}
    next_msg = 0
    for _ in range(n_events):
        t += rng.choice(incs)
        r = rng.random()
        node = rng.randrange(n)
        if r < 0.2 or (not pending and not delivered and r < 0.5):
            events.append({"t": t, "n": node, "k": "local"})
        elif r < 0.55 or (not pending and not delivered):
            events.append({"t": t, "n": node, "k": "send", "m": next_msg, "wire": rng.random() < 0.3})
            pending.append(next_msg)
            sender[next_msg] = node
            next_msg += 1
        else:
            if delivered and (not pending or rng.random() < 0.15):
                m = rng.choice(delivered)  # duplicate delivery
            else:
                i = 0 if rng.random() < 0.5 else rng.randrange(len(pending))  # FIFO or overtaking
                m = pending[i]
                if rng.random() < 0.85:
                    pending.pop(i)
                delivered.append(m)
            if rng.random() < 0.95 and n > 1:
                dst = rng.choice([x for x in range(n) if x != sender[m]])
            else:
                dst = rng.randrange(n)
            events.append({"t": t, "n": dst, "k": "recv", "m": m, "now": rng.random() < 0.5})
    horizon = t + 1
    vc_ids = []
    for i in range(n):
        mode = rng.choice(["all", "all", "all", "self", "subset"])
        if mode == "all":
            vc_ids.append(list(nodes))
        elif mode == "self":
            vc_ids.append([nodes[i]])
        else:
            vc_ids.append([x for x in nodes if rng.random() < 0.5])
    return {
        "nodes": nodes,
        "models": [_gen_model(rng, horizon) for _ in range(n)],
        "hlc_via": [rng.choice(["node_clock", "node_clock", "wall_time"]) for _ in range(n)],
        "vc_ids": vc_ids,
        "lamport_init": [rng.choice([0, 0, 0, 5, 1000]) for _ in range(n)],
        "scale": scale,
        "events": events,
    }


def _mk_node_clock(model: dict):
    from happysimulator.core.node_clock import FixedSkew, LinearDrift, NodeClock
    from happysimulator.core.temporal import Duration

    k = model["kind"]
    if k == "none":
        return NodeClock()
    if k == "skew":
        return NodeClock(FixedSkew(Duration(model["offset_ns"])))
    if k == "drift":
        return NodeClock(LinearDrift(rate_ppm=model["ppm"]))

    class SteppedSkew:
        """ClockModel (public protocol): the real FixedSkew in force at the given true time (clock stepped by an operator / NTP)."""

        def __init__(self, steps):
            self.steps = [(f, FixedSkew(Duration(o))) for f, o in steps]

        def read(self, true_time):
            cur = self.steps[0][1]
            for f, m in self.steps:
                if true_time.nanoseconds >= f:
                    cur = m
            return cur.read(true_time)

    return NodeClock(SteppedSkew(model["steps"]))


def run_clocks(case: dict) -> Result:
    from happysimulator.core.clock import Clock
    from happysimulator.core.logical_clocks import HLCTimestamp, HybridLogicalClock, LamportClock, VectorClock
    from happysimulator.core.temporal import Instant

    res = Result()
    nodes = case["nodes"]
    n = len(nodes)
    base = Clock(Instant(0))
    ncs = []
    lam, vec, hlc = [], [], []
    for i, nid in enumerate(nodes):
        nc = _mk_node_clock(case["models"][i])
        nc.set_clock(base)
        ncs.append(nc)
        lam.append(LamportClock(case["lamport_init"][i]))
        vec.append(VectorClock(nid, list(case["vc_ids"][i])))
        if case["hlc_via"][i] == "wall_time":
            hlc.append(HybridLogicalClock(nid, wall_time=(lambda nc=nc: nc.now)))
        else:
            hlc.append(HybridLogicalClock(nid, physical_clock=nc))

    # ---- execute the history against the real clocks
    ev = []  # per executed event: dict(node, kind, msg, L, V (VectorClock copy), Vs (dict), H, phys)
    msgs: dict[int, dict] = {}  # msg id -> {"idx": event index of the send, "L","V","H"}
    last_on_node: dict[int, int] = {}
    anc: list[int] = []  # bitset of strict ancestors
    depth: list[int] = []  # longest chain ending here (events)
    hops: list[int] = []  # message edges on that chain
    last_phys: dict[int, int] = {}
    regress_nodes: set[int] = set()
    seen_recv: set[tuple[int, int]] = set()
    max_recv_msg: dict[tuple[int, int], int] = {}
    for e in case["events"]:
        i = e["n"]
        kind = e["k"]
        if kind == "recv" and e["m"] not in msgs:
            continue  # (shrunken cases) receive of a message whose send was removed
        base.update(Instant(e["t"]))
        phys = ncs[i].now.nanoseconds
        if i in last_phys and phys < last_phys[i]:
            regress_nodes.add(i)
            res.count("physical_regressions")
        last_phys[i] = phys
        idx = len(ev)
        a = 0
        d, h = 1, 0
        if i in last_on_node:
            p = last_on_node[i]
            a |= anc[p] | (1 << p)
            d, h = depth[p] + 1, hops[p]
        if kind == "local":
            lam[i].tick()
            L = lam[i].time
            vec[i].tick()
            H = hlc[i].now()
        elif kind == "send":
            L = lam[i].send()
            vs = vec[i].send()
            H = hlc[i].send()
            wire_h = HLCTimestamp.from_dict(H.to_dict()) if e.get("wire") else H
            if wire_h != H or hash(wire_h) != hash(H):
                res.add("hlc-roundtrip", "HLCTimestamp", "to_dict-from_dict", f"{H} -> {wire_h}")
            msgs[e["m"]] = {"idx": idx, "L": L, "V": vs, "H": wire_h, "src": i}
            if L != lam[i].time:
                res.add("send-return-differs", "LamportClock", "send", f"send() returned {L}, time is {lam[i].time}")
            if vs != vec[i].snapshot():
                res.add("send-return-differs", "VectorClock", "send", f"send() returned {vs}, snapshot is {vec[i].snapshot()}")
        else:
            m = msgs[e["m"]]
            lam[i].receive(m["L"])
            L = lam[i].time
            vec[i].receive(dict(m["V"]))
            hlc[i].receive(m["H"])
            H = hlc[i].now() if e.get("now") else hlc[i]._last
            s = m["idx"]
            a |= anc[s] | (1 << s)
            if depth[s] + 1 > d or (depth[s] + 1 == d and hops[s] + 1 > h):
                d, h = depth[s] + 1, hops[s] + 1
            key = (i, e["m"])
            if key in seen_recv:
                res.count("duplicate_deliveries")
            seen_recv.add(key)
            ch = (m["src"], i)
            if ch in max_recv_msg and e["m"] < max_recv_msg[ch]:
                res.count("overtaken_deliveries")
            max_recv_msg[ch] = max(max_recv_msg.get(ch, -1), e["m"])
        anc.append(a)
        depth.append(d)
        hops.append(h)
        last_on_node[i] = idx
        ev.append(
            {"node": i, "kind": kind, "msg": e.get("m"), "L": L, "V": _clone(vec[i]), "Vs": vec[i].snapshot(), "H": H, "t": e["t"], "phys": phys}
        )

    res.count("events_monitored", len(ev))
    partial = any(set(ids) | {nodes[i]} != set(nodes) for i, ids in enumerate(case["vc_ids"]))
    memb = "partial-membership" if partial else "full-membership"
    phys_shape = "physical-regressed" if regress_nodes else "physical-monotone"
    reported: set[tuple] = set()

    def report(oracle, comp, shape, a, b, detail):
        k = (oracle, comp, shape)
        if k in reported:
            return
        reported.add(k)
        res.add(
            oracle,
            comp,
            shape,
            detail,
            {
                "a": {"index": a, **_ev_json(ev[a], nodes)},
                "b": {"index": b, **_ev_json(ev[b], nodes)},
            },
        )

    def relation(a, b):
        if ev[a]["node"] == ev[b]["node"]:
            return "program-order"
        if ev[b]["kind"] == "recv" and ev[a]["kind"] == "send" and ev[b]["msg"] == ev[a]["msg"]:
            return "message"
        return "transitive"

    def leq_lt(x: dict, y: dict) -> bool:
        keys = set(x) | set(y)
        return all(x.get(k, 0) <= y.get(k, 0) for k in keys) and any(x.get(k, 0) < y.get(k, 0) for k in keys)

    causal = concurrent = 0
    for b in range(len(ev)):
        eb = ev[b]
        for a in range(b):
            ea = ev[a]
            hb = bool(anc[b] >> a & 1)
            vab = ea["V"].happened_before(eb["V"])
            vba = eb["V"].happened_before(ea["V"])
            conc = ea["V"].is_concurrent(eb["V"])
            if hb:
                causal += 1
                rel = relation(a, b)
                if not ea["L"] < eb["L"]:
                    report("lamport-order", "LamportClock", rel, a, b, f"a -> b ({rel}) but lamport(a)={ea['L']} >= lamport(b)={eb['L']}")
                if not ea["H"] < eb["H"]:
                    report("hlc-order", "HybridLogicalClock", f"{rel}|{phys_shape}", a, b, f"a -> b ({rel}) but hlc(a)={ea['H']} >= hlc(b)={eb['H']}")
                if not vab or vba or conc:
                    report(
                        "vc-misses-causality", "VectorClock", f"{rel}|{memb}", a, b,
                        f"a -> b ({rel}) but happened_before(a,b)={vab} happened_before(b,a)={vba} is_concurrent={conc}; {ea['Vs']} vs {eb['Vs']}",
                    )
                if not leq_lt(ea["Vs"], eb["Vs"]):
                    report("vc-snapshot-misses-causality", "VectorClock", f"{rel}|{memb}", a, b, f"{ea['Vs']} !< {eb['Vs']}")
            else:
                concurrent += 1
                if vab or vba or not conc:
                    report(
                        "vc-false-causality", "VectorClock", f"concurrent|{memb}", a, b,
                        f"a || b but happened_before(a,b)={vab} happened_before(b,a)={vba} is_concurrent={conc}; {ea['Vs']} vs {eb['Vs']}",
                    )
                if leq_lt(ea["Vs"], eb["Vs"]) or leq_lt(eb["Vs"], ea["Vs"]):
                    report("vc-snapshot-false-causality", "VectorClock", f"concurrent|{memb}", a, b, f"{ea['Vs']} vs {eb['Vs']}")
    res.count("pairs_checked", causal + concurrent)
    res.count("causal_pairs", causal)
    res.count("concurrent_pairs", concurrent)
    if regress_nodes:
        res.count("histories_with_backward_physical_clock")
    if concurrent >= 1 and any(depth[x] >= 3 and hops[x] >= 1 for x in range(len(ev))):
        res.nontrivial = True
    return res


def _ev_json(e: dict, nodes) -> dict:
    return {
        "node": nodes[e["node"]],
        "kind": e["kind"],
        "msg": e["msg"],
        "true_ns": e["t"],
        "physical_ns": e["phys"],
        "lamport": e["L"],
        "vector": e["Vs"],
        "hlc": [e["H"].physical_ns, e["H"].logical, e["H"].node_id],
    }


_KNOWN_KEYS: set | None = None


_LAST: dict = {}


def _memo(run):
    """The worker runs a case, then asks for a shrink, then re-runs what the shrinker returned: when that is the very
    same case object, reuse the result instead of executing it three times."""

    def wrapped(case: dict) -> Result:
        hit = _LAST.get(run.__name__)
        if hit is not None and hit[0] is case:
            return hit[1]
        res = run(case)
        _LAST[run.__name__] = (case, res)
        return res

    wrapped.__name__ = run.__name__
    return wrapped


def _already_known(case: dict, run) -> bool:
    """True when the first violation of the case has the mechanism key of a listed known finding: such cases are not
    shrunk (the finding carries its own pinned witness; shrinking a thousand re-observations only costs time)."""
    global _KNOWN_KEYS
    if _KNOWN_KEYS is None:
        from hsverif import findings as kf

        _KNOWN_KEYS = {kf.key_of(e) for e in kf.for_property(PID) if e.get("status") == "known"}
    vs = _memo(run)(case).violations
    return bool(vs) and vs[0].key() in _KNOWN_KEYS


def shrink_clocks(case: dict, still_fails) -> dict:
    def fails(evs):
        return still_fails({**case, "events": evs})

    return {**case, "events": ddmin(case["events"], fails, max_tests=150)}


# ==========================================================================
# long histories (run-length encoded): large counters, long runs under one HLC physical component
# ==========================================================================

_LAMPORT_STARTS = [0, 0, 65530, 2**31 - 20, 2**32 - 20, 2**63 - 20, 2**64 - 20]


def gen_longclocks(rng: random.Random, tier: str) -> dict:
    """A few nodes, one of which (the *busy* node) logs a burst of 66 000 - 140 000 events while its physical reading
    stays at or below the physical component its HLC holds: either because it received a stamp from a peer whose clock is
    far ahead (skew larger than the duration of the burst) or because the clock stands still (same-instant burst).
    A *witness* node holding the same physical component receives the busy node's late stamps (receive path)."""
    scenario = rng.choice(["lagging-receiver", "lagging-receiver", "frozen-instant", "negative-drift"])
    big = rng.choice([66000, 70000, 70000, 132000, 140000])
    nodes = ["F", "B", "C"]
    if scenario == "lagging-receiver":
        skew = rng.choice([2 * 10**9, 60 * 10**9, 3600 * 10**9])
        models = [{"kind": "skew", "offset_ns": skew}, {"kind": rng.choice(["none", "skew"]), "offset_ns": -rng.choice([0, 10**6, 10**9])}, {"kind": "skew", "offset_ns": -(10**9)}]
        dt = rng.choice([0, 1, 7, 1000, 10**9 // big])  # the whole burst lasts < 1.1 s < skew
    elif scenario == "frozen-instant":
        models = [{"kind": "none"}, {"kind": "none"}, {"kind": "none"}]
        dt = 0
    else:
        # the busy node's clock runs backwards: its HLC keeps the first physical component for ever
        models = [{"kind": "none"}, {"kind": "drift", "ppm": rng.choice([-1e6, -1.5e6, -3e6])}, {"kind": "drift", "ppm": -1e6}]
        dt = rng.choice([1, 1000, 10**6])
    segs = [
        {"n": 0, "k": "local", "count": rng.randrange(1, 5), "dt": 10**6},
        {"n": 0, "k": "send", "count": 1, "dt": 1, "label": "m0"},
        {"n": 1, "k": "recv", "count": 1, "dt": 1, "from": "m0"},
        {"n": 2, "k": "recv", "count": 1, "dt": 1, "from": "m0"},
    ]
    left = big
    i = 0
    while left > 0:
        c = min(left, rng.choice([1, 100, 5000, 30000, 65536, 70000]))
        kind = rng.choice(["local", "local", "send", "mixed"])
        segs.append({"n": 1, "k": kind, "count": c, "dt": dt, "label": f"b{i}"})
        left -= c
        i += 1
        if rng.random() < 0.5:
            # the witness keeps up: same physical component, logical just behind the busy node's
            segs.append({"n": 2, "k": "recv", "count": 1, "dt": 0, "from": f"b{i - 1}"})
            if rng.random() < 0.5:
                segs.append({"n": 2, "k": "send", "count": 1, "dt": 0, "label": f"c{i}"})
                segs.append({"n": 1, "k": "recv", "count": 1, "dt": 0, "from": f"c{i}"})
    segs.append({"n": 1, "k": "send", "count": 1, "dt": 0, "label": "last"})
    segs.append({"n": 2, "k": "recv", "count": 2, "dt": 0, "from": "last"})  # delivered twice
    segs.append({"n": 0, "k": "recv", "count": 1, "dt": 1, "from": "last"})
    segs.append({"n": 0, "k": "local", "count": 3, "dt": 10**9})
    return {
        "nodes": nodes,
        "scenario": scenario,
        "models": models,
        "hlc_via": [rng.choice(["node_clock", "wall_time"]) for _ in nodes],
        "lamport_init": [rng.choice(_LAMPORT_STARTS) for _ in nodes],
        "t0": rng.choice([0, 10**9, 10 * 10**9]),
        "segments": segs,
    }


def run_longclocks(case: dict) -> Result:
    from happysimulator.core.clock import Clock
    from happysimulator.core.logical_clocks import HybridLogicalClock, LamportClock, VectorClock
    from happysimulator.core.temporal import Instant

    res = Result()
    nodes = case["nodes"]
    base = Clock(Instant(0))
    ncs, lam, vec, hlc = [], [], [], []
    for i, nid in enumerate(nodes):
        nc = _mk_node_clock(case["models"][i])
        nc.set_clock(base)
        ncs.append(nc)
        lam.append(LamportClock(case["lamport_init"][i]))
        vec.append(VectorClock(nid, list(nodes)))
        if case["hlc_via"][i] == "wall_time":
            hlc.append(HybridLogicalClock(nid, wall_time=(lambda nc=nc: nc.now)))
        else:
            hlc.append(HybridLogicalClock(nid, physical_clock=nc))
    msgs: dict[str, dict] = {}
    prev: dict[int, dict] = {}  # node -> last event's stamps
    run_len = [0] * len(nodes)  # consecutive events of the node under one HLC physical component
    max_run = [0] * len(nodes)
    reported: set[tuple] = set()
    t = case["t0"]
    n_events = 0
    msg_edges = 0
    max_logical = [0]  # largest HLC logical counter any node has shown so far

    def bucket(x: int) -> str:
        x = abs(x)
        return "counter<2^16" if x < 65535 else ("counter<2^32" if x < 2**32 - 1 else ("counter<2^64" if x < 2**64 - 1 else "counter>=2^64"))

    def report(oracle, comp, shape, detail, witness):
        k = (oracle, comp, shape)
        if k not in reported:
            reported.add(k)
            res.add(oracle, comp, shape, detail, witness)

    def leq_lt(x: dict, y: dict) -> bool:
        keys = set(x) | set(y)
        return all(x.get(k, 0) <= y.get(k, 0) for k in keys) and any(x.get(k, 0) < y.get(k, 0) for k in keys)

    def near_pow2(c: int) -> bool:
        return c >= 255 and ((c + 2) & (c + 1) == 0 or (c + 1) & c == 0 or c & (c - 1) == 0 or (c - 1) & (c - 2) == 0)

    def order(a: dict, b: dict, rel: str, i: int, real_vc: bool):
        """a -> b (program order on node i, or message edge into node i)."""
        w = {"relation": rel, "event_no": n_events, "a": _long_json(a), "b": _long_json(b)}
        if not a["L"] < b["L"]:
            report("lamport-order", "LamportClock", f"{rel}|{bucket(a['L'])}", f"a -> b ({rel}) but lamport(a)={a['L']} >= lamport(b)={b['L']}", w)
        if not a["H"] < b["H"]:
            long_run = "same-physical-component-run>=65536" if max(run_len[i], a.get("run", 0)) >= 65535 or max_logical[0] >= 65535 else "same-physical-component-run<65536"
            report("hlc-order", "HybridLogicalClock", f"{rel}|{long_run}", f"a -> b ({rel}) but hlc(a)={a['H']} >= hlc(b)={b['H']}", w)
        if not leq_lt(a["Vs"], b["Vs"]):
            report("vc-snapshot-misses-causality", "VectorClock", f"{rel}|{bucket(max(a['Vs'].values()))}", f"a -> b ({rel}) but {a['Vs']} !< {b['Vs']}", w)
        if real_vc:
            res.count("pairs_checked")
            va, vb = a["V"](), b["V"]()
            if not va.happened_before(vb) or vb.happened_before(va) or va.is_concurrent(vb):
                report("vc-misses-causality", "VectorClock", f"{rel}|{bucket(max(a['Vs'].values()))}", f"a -> b ({rel}) but happened_before(a,b)={va.happened_before(vb)}; {a['Vs']} vs {b['Vs']}", w)

    for seg in case["segments"]:
        i = seg["n"]
        for j in range(seg["count"]):
            kind = seg["k"]
            if kind == "mixed":
                kind = "send" if j % 3 == 2 else "local"
            if kind == "recv" and seg.get("from") not in msgs:
                break
            t += seg["dt"]
            base.update(Instant(t))
            if kind == "local":
                lam[i].tick()
                L = lam[i].time
                vec[i].tick()
                H = hlc[i].now()
            elif kind == "send":
                L = lam[i].send()
                vs = vec[i].send()
                H = hlc[i].send()
            else:
                m = msgs[seg["from"]]
                lam[i].receive(m["L"])
                L = lam[i].time
                vec[i].receive(dict(m["Vs"]))
                hlc[i].receive(m["H"])
                H = hlc[i]._last if j % 2 == 0 else hlc[i].now()
            n_events += 1
            if H.logical > max_logical[0]:
                max_logical[0] = H.logical
            Vs = vec[i].snapshot()
            own = Vs[nodes[i]]
            p = prev.get(i)
            real = kind != "local" or near_pow2(own) or near_pow2(H.logical) or (n_events & 4095) == 0
            if real:
                snap = _clone(vec[i])
                cur = {"L": L, "H": H, "Vs": Vs, "V": (lambda snap=snap: snap), "node": nodes[i], "kind": kind}
            else:
                cur = {"L": L, "H": H, "Vs": Vs, "node": nodes[i], "kind": kind}
            if p is not None:
                run_len[i] = run_len[i] + 1 if p["H"].physical_ns == H.physical_ns else 0
                max_run[i] = max(max_run[i], run_len[i])
                order(p, cur, "program-order", i, real and "V" in p)
            cur["run"] = run_len[i]
            if kind == "recv":
                msg_edges += 1
                order(msgs[seg["from"]], cur, "message", i, True)
            if kind == "send":
                if "V" not in cur:
                    snap = _clone(vec[i])
                    cur["V"] = lambda snap=snap: snap
                if seg.get("label"):
                    msgs[seg["label"]] = cur
            prev[i] = cur
    res.count("long_history_events", n_events)
    res.count("events_monitored", n_events)
    res.count("long_history_message_edges", msg_edges)
    res.seen("same_physical_component_run_lengths", max(max_run))
    if max(max_run) >= 65536 and msg_edges >= 2:
        res.nontrivial = True
        res.count("histories_with_run_over_65536")
    if max(max_run) >= 131072:
        res.count("histories_with_run_over_131072")
    return res


def _long_json(e: dict) -> dict:
    return {"node": e["node"], "kind": e["kind"], "lamport": e["L"], "vector": e["Vs"], "hlc": [e["H"].physical_ns, e["H"].logical, e["H"].node_id]}


# ==========================================================================
# CRDT schedules
# ==========================================================================

_UNIVERSES = {
    "str": ["x", "y", "z"],
    "int": [1, 2, 3],
    "mixed": ["x", 2, "z", 4],
    "twins": [1, "1", 2, "2"],
}


def gen_crdt(kind: str):
    def gen(rng: random.Random, tier: str) -> dict:
        nrep = rng.choice([2, 2, 3, 3, 4])
        reps = rng.choice([["a", "b", "c", "d"], ["node-2", "node-10", "node-1", "node-3"], ["b", "a", "d", "c"]])[:nrep]
        n_ops = rng.choice([3, 6, 10, 16, 24, 36] if tier == "quick" else [3, 6, 10, 16, 24, 36, 60])
        mode = rng.choice(["direct", "dict", "mixed", "mixed"])
        universe_kind = rng.choice(["str", "str", "int", "mixed", "twins"]) if kind == "orset" else None
        universe = _UNIVERSES[universe_kind] if universe_kind else []
        p_merge = rng.choice([0.3, 0.45, 0.6])
        ops: list[dict] = []
        used_ts: set[tuple] = set()
        snaps: list[int] = []
        next_sid = 0
        uid = 0
        ts_style = rng.choice(["tight", "tight", "wide", "monotone"])
        mono = [0] * nrep
        have: list[set] = [set() for _ in range(nrep)]
        snap_have: dict[int, set] = {}

        def via():
            if mode == "direct":
                return "direct"
            if mode == "dict":
                return "dict"
            return rng.choice(["direct", "dict"])

        for _ in range(n_ops):
            r = rng.randrange(nrep)
            if rng.random() >= p_merge:
                uid += 1
                if kind == "gcounter":
                    ops.append({"op": "inc", "r": r, "n": rng.choice([1, 1, 2, 5, 100]), "u": uid})
                elif kind == "pncounter":
                    ops.append({"op": rng.choice(["inc", "dec"]), "r": r, "n": rng.choice([1, 1, 2, 5, 100]), "u": uid})
                elif kind == "lww":
                    for _try in range(50):
                        if ts_style == "tight":
                            p, l = rng.randrange(0, 4) * 1000, rng.randrange(0, 3)
                        elif ts_style == "wide":
                            p, l = rng.randrange(-(10**12), 10**15), rng.randrange(0, 5)
                        else:
                            mono[r] += rng.randrange(0, 3)
                            p, l = mono[r], rng.randrange(0, 50)
                        if (p, l, r) not in used_ts:
                            break
                    else:
                        continue
                    used_ts.add((p, l, r))
                    ops.append({"op": "set", "r": r, "v": rng.choice([f"w{uid}", uid, None if rng.random() < 0.1 else f"v{uid}"]), "ts": [p, l], "u": uid})
                else:
                    if rng.random() < 0.45 and have[r]:
                        # remove something this replica has seen an add of (generator-side approximation)
                        e = rng.choice(sorted(have[r], key=_elem_key))
                        ops.append({"op": "rem", "r": r, "e": e, "u": uid})
                    elif rng.random() < 0.1:
                        ops.append({"op": "rem", "r": r, "e": rng.choice(universe), "u": uid})
                    else:
                        e = rng.choice(universe)
                        have[r].add(e)
                        ops.append({"op": "add", "r": r, "e": e, "u": uid})
            else:
                x = rng.random()
                if x < 0.45 or nrep < 2:
                    src = rng.choice([j for j in range(nrep) if j != r])
                    ops.append({"op": "merge", "dst": r, "src": src, "via": via()})
                    have[r] |= have[src]
                elif x < 0.62:
                    ops.append({"op": "snap", "src": r, "sid": next_sid, "via": via()})
                    snaps.append(next_sid)
                    snap_have[next_sid] = set(have[r])
                    next_sid += 1
                elif x < 0.82 and snaps:
                    sid = rng.choice(snaps)
                    ops.append({"op": "deliver", "dst": r, "sid": sid})
                    have[r] |= snap_have[sid]
                elif x < 0.9 and len(snaps) >= 2:
                    a, b = rng.sample(snaps, 2)
                    ops.append({"op": "group", "sids": [a, b], "sid": next_sid})
                    snaps.append(next_sid)
                    snap_have[next_sid] = snap_have[a] | snap_have[b]
                    next_sid += 1
                elif x < 0.96 and mode != "direct":
                    ops.append({"op": "reload", "r": r})
                else:
                    ops.append({"op": "laws", "rs": [rng.randrange(nrep) for _ in range(3)], "via": via()})
        ops.append({"op": "laws", "rs": [rng.randrange(nrep) for _ in range(3)], "via": via()})
        pairs = [(i, j) for i in range(nrep) for j in range(nrep) if i != j]
        rng.shuffle(pairs)
        for i, j in pairs:
            ops.append({"op": "merge", "dst": i, "src": j, "via": via(), "final": True})
        ops.append({"op": "laws", "rs": [rng.randrange(nrep) for _ in range(3)], "via": via(), "final": True})
        return {"kind": kind, "replicas": reps, "mode": mode, "universe": universe_kind, "ops": ops}

    return gen


def _crdt_cls(kind: str):
    from happysimulator.components.crdt import GCounter, LWWRegister, ORSet, PNCounter

    return {"gcounter": GCounter, "pncounter": PNCounter, "lww": LWWRegister, "orset": ORSet}[kind]


class _Spec:
    """Op-based specification over a set of received update ids."""

    def __init__(self, kind):
        self.kind = kind
        self.updates: dict[int, dict] = {}

    def value(self, K: set):
        k = self.kind
        ups = [self.updates[u] for u in K]
        if k in ("gcounter", "pncounter"):
            return sum(u["n"] if u["op"] == "inc" else -u["n"] for u in ups)
        if k == "lww":
            ws = [u for u in ups if u["op"] == "set"]
            if not ws:
                return (None, None)
            w = max(ws, key=lambda u: u["tskey"])
            return (w["v"], w["tskey"])
        killed = set()
        for u in ups:
            if u["op"] == "rem":
                killed |= u["observed"]
        return frozenset(u["e"] for u in ups if u["op"] == "add" and u["u"] not in killed)


def _elem_key(e):
    return f"{type(e).__name__}:{e!r}"


def _rt_shape(kind, obj) -> str:
    if kind == "orset":
        return "state-with-non-str-element" if any(not isinstance(x, str) for x in obj._entries) else "str-elements-only"
    return "any-state"


def _exec_crdt(case: dict, force_direct: bool):
    """Run the schedule against the real classes.

    Returns (findings, stats).  A finding is a dict with `oracle`, `base` (shape before attribution), `idx` (op index),
    `ident` (stable identity used to compare the run with its serialisation-free variant), `detail`.

    Reporting rules (so that one defect gives one mechanism key where possible, without losing detection):
      * every object is compared with the specification value over the updates it has received;
      * equality of two replicas / an algebraic law is reported only when every operand and result involved matches
        the specification value (otherwise the value finding at the same op is the root observation);
      * from_dict(to_dict(x)) is compared with x at every round trip.
    """
    from happysimulator.core.logical_clocks import HLCTimestamp

    kind = case["kind"]
    cls = _crdt_cls(kind)
    names = case["replicas"]
    reps = [cls(nid) for nid in names]
    spec = _Spec(kind)
    K: list[set] = [set() for _ in reps]
    snaps: dict[int, tuple] = {}
    findings: list[dict] = []
    stats = {"value_checks": 0, "equality_checks": 0, "law_checks": 0, "merges": 0, "dict_roundtrips": 0, "updates": 0, "removes_observing_add": 0}
    serialised = False
    cur = {"idx": -1}

    def val(obj):
        if kind == "lww":
            ts = obj.timestamp
            return (obj.value, None if ts is None else (ts.physical_ns, ts.logical, ts.node_id))
        return obj.value

    def show(v):
        if isinstance(v, frozenset):
            return sorted(_elem_key(x) for x in v)
        return repr(v)

    def found(oracle, base_shape, ident, detail):
        findings.append({"oracle": oracle, "base": base_shape, "idx": cur["idx"], "ident": (oracle, cur["idx"]) + tuple(ident), "detail": detail})

    def same(x, y):
        return (x == y) and (y == x) and val(x) == val(y)

    def rt(obj, what):
        """from_dict(to_dict(obj)), compared with obj."""
        stats["dict_roundtrips"] += 1
        out = cls.from_dict(_clone(obj.to_dict()))
        if not same(out, obj) or out.node_id != obj.node_id:
            found("roundtrip-changes-state", _rt_shape(kind, obj), ("rt", what), f"op #{cur['idx']}: from_dict(to_dict({what})) has value {show(val(out))}, node_id {out.node_id!r}; the original has {show(val(obj))}, {obj.node_id!r}")
        return out

    def check_value(obj, Kset, where, tag) -> bool:
        stats["value_checks"] += 1
        got, want = val(obj), spec.value(Kset)
        if got == want:
            return True
        idx = cur["idx"]
        if kind == "orset":
            for x in sorted(got - want, key=_elem_key):
                removed = any(spec.updates[u]["op"] == "rem" and spec.updates[u]["e"] == x and spec.updates[u]["observed"] for u in Kset)
                added = any(spec.updates[u]["op"] == "add" and spec.updates[u]["e"] == x for u in Kset)
                base = "removed-element-present" if removed else ("added-element-present-without-live-add" if added else f"{type(x).__name__}-element-never-added-present")
                found("value-vs-spec", base, (tag, "extra", _elem_key(x)), f"{where} after op #{idx}: contains {x!r} but every add of it received here was observed by a received remove (value {show(got)}, specified {show(want)})")
            for x in sorted(want - got, key=_elem_key):
                found("value-vs-spec", f"live-{type(x).__name__}-element-missing", (tag, "missing", _elem_key(x)), f"{where} after op #{idx}: lacks {x!r} although an add of it is not observed by any received remove (value {show(got)}, specified {show(want)})")
        elif kind == "lww":
            ws = [spec.updates[u] for u in Kset if spec.updates[u]["op"] == "set"]
            tie = any(w["tskey"][:2] == want[1][:2] and w["tskey"] != want[1] for w in ws) if want[1] else False
            found("value-vs-spec", "tie-on-physical-logical" if tie else "distinct-physical-logical", (tag,), f"{where} after op #{idx}: holds {got!r}, greatest-timestamp write received is {want!r}")
        else:
            remote = any(spec.updates[u]["r"] != tag for u in Kset) if isinstance(tag, int) else True
            found("value-vs-spec", "after-merge" if remote else "local-ops-only", (tag,), f"{where} after op #{idx}: value {got}, increments - decrements received = {want}")
        return False

    def eq_shape(Kset):
        """Structural precondition of 'same value, unequal state' taken from the history."""
        if kind != "orset":
            return "equal-values-unequal-states"
        ups = [spec.updates[u] for u in Kset]
        killed = set()
        for u in ups:
            if u["op"] == "rem":
                killed |= u["observed"]
        dead = {_elem_key(u["e"]) for u in ups if u["op"] == "add" and u["u"] in killed}
        live = {_elem_key(u["e"]) for u in ups if u["op"] == "add" and u["u"] not in killed}
        return "element-with-removed-add-and-live-add" if dead & live else "equal-values-unequal-states"

    def check_all():
        idx = cur["idx"]
        ok = [check_value(r, K[i], f"replica {names[i]}", i) for i, r in enumerate(reps)]
        for i in range(len(reps)):
            for j in range(i + 1, len(reps)):
                if K[i] == K[j]:
                    stats["equality_checks"] += 1
                    if ok[i] and ok[j] and not same(reps[i], reps[j]):
                        found("same-updates-unequal", eq_shape(K[i]), (i, j), f"after op #{idx}: {names[i]} and {names[j]} received the same {len(K[i])} updates and show the same value but {names[i]} == {names[j]} is False")

    def materialise(sid):
        payload, Ks, v, orig = snaps[sid]
        if v == "dict":
            stats["dict_roundtrips"] += 1
            out = cls.from_dict(_clone(payload))
            if not same(out, orig) or out.node_id != orig.node_id:
                found("roundtrip-changes-state", _rt_shape(kind, orig), ("rt", "snap", sid), f"op #{cur['idx']}: from_dict(to_dict(snapshot {sid})) has value {show(val(out))}; the original had {show(val(orig))}")
            return out, Ks
        return _clone(payload), Ks

    def laws(rs, v):
        idx = cur["idx"]
        A, B, C = (reps[i] for i in rs)
        KA, KB, KC = (K[i] for i in rs)
        use_rt = v == "dict" and not force_direct
        na, nb, nc = (names[i] for i in rs)

        def cp(x, what):
            return rt(x, what) if use_rt else _clone(x)

        stats["law_checks"] += 1
        n0 = len(findings)
        ab = _clone(A); ab.merge(cp(B, nb))
        ba = _clone(B); ba.merge(cp(A, na))
        bc = _clone(B); bc.merge(cp(C, nc))
        l = _clone(A); l.merge(cp(bc, "b+c"))
        r = _clone(ab); r.merge(cp(C, nc))
        aa = _clone(A); aa.merge(cp(A, na))
        sm = _clone(A); sm.merge(sm)
        ab2 = _clone(ab); ab2.merge(cp(B, nb)); ab2.merge(cp(ab, "a+b"))
        oks = [
            check_value(ab, KA | KB, f"merge({na},{nb})", "law-ab"),
            check_value(ba, KA | KB, f"merge({nb},{na})", "law-ba"),
            check_value(bc, KB | KC, f"merge({nb},{nc})", "law-bc"),
            check_value(l, KA | KB | KC, "a+(b+c)", "law-l"),
            check_value(r, KA | KB | KC, "(a+b)+c", "law-r"),
            check_value(aa, KA, "merge(a, copy of a)", "law-aa"),
            check_value(sm, KA, "a.merge(a)", "law-self"),
            check_value(ab2, KA | KB, "merge(a,b) merged again with b and with itself", "law-absorb"),
        ]
        if all(oks) and len(findings) == n0:
            # values are right everywhere: the laws can now only fail on state equality
            if not same(ab, ba):
                found("merge-not-commutative", eq_shape(KA | KB), ("comm",), f"op #{idx}: merge({na},{nb}) == merge({nb},{na}) is False although both show {show(val(ab))}")
            if not same(l, r):
                found("merge-not-associative", eq_shape(KA | KB | KC), ("assoc",), f"op #{idx}: a+(b+c) == (a+b)+c is False although both show {show(val(l))}")
            if not same(aa, A) or not same(sm, A) or not same(ab2, ab):
                found("merge-not-idempotent", eq_shape(KA | KB), ("idem",), f"op #{idx}: merge(a,a)==a:{same(aa, A)} a.merge(a)==a:{same(sm, A)} merge(a+b,b)==a+b:{same(ab2, ab)}")

    for idx, op in enumerate(case["ops"]):
        cur["idx"] = idx
        o = op["op"]
        if o in ("inc", "dec", "set", "add", "rem"):
            i = op["r"]
            u = dict(op)
            stats["updates"] += 1
            if o == "inc":
                reps[i].increment(op["n"])
            elif o == "dec":
                reps[i].decrement(op["n"])
            elif o == "set":
                u["tskey"] = (op["ts"][0], op["ts"][1], names[i])
                reps[i].set(op["v"], HLCTimestamp(physical_ns=op["ts"][0], logical=op["ts"][1], node_id=names[i]))
            elif o == "add":
                reps[i].add(op["e"])
            else:
                u["observed"] = {x for x in K[i] if spec.updates[x]["op"] == "add" and spec.updates[x]["e"] == op["e"]}
                if u["observed"]:
                    stats["removes_observing_add"] += 1
                reps[i].remove(op["e"])
            spec.updates[op["u"]] = u
            K[i].add(op["u"])
        elif o == "merge":
            d, s_ = op["dst"], op["src"]
            stats["merges"] += 1
            if op["via"] == "dict" and not force_direct:
                serialised = True
                reps[d].merge(rt(reps[s_], names[s_]))
            else:
                reps[d].merge(reps[s_])
            K[d] |= K[s_]
        elif o == "snap":
            s_ = op["src"]
            if op["via"] == "dict" and not force_direct:
                serialised = True
                snaps[op["sid"]] = (_clone(reps[s_].to_dict()), set(K[s_]), "dict", _clone(reps[s_]))
            else:
                snaps[op["sid"]] = (_clone(reps[s_]), set(K[s_]), "direct", None)
        elif o == "deliver":
            if op["sid"] not in snaps:
                continue
            obj, Ks = materialise(op["sid"])
            stats["merges"] += 1
            reps[op["dst"]].merge(obj)
            K[op["dst"]] |= Ks
        elif o == "group":
            if any(x not in snaps for x in op["sids"]):
                continue
            x, Kx = materialise(op["sids"][0])
            y, Ky = materialise(op["sids"][1])
            x.merge(y)
            stats["merges"] += 1
            v = "dict" if "dict" in (snaps[op["sids"][0]][2], snaps[op["sids"][1]][2]) else "direct"
            if v == "dict":
                snaps[op["sid"]] = (_clone(x.to_dict()), Kx | Ky, "dict", _clone(x))
            else:
                snaps[op["sid"]] = (x, Kx | Ky, "direct", None)
            check_value(x, Kx | Ky, "grouped snapshot", "group")
        elif o == "reload":
            if not force_direct:
                serialised = True
                i = op["r"]
                reps[i] = rt(reps[i], names[i])
        elif o == "laws":
            if op.get("via") == "dict" and not force_direct:
                serialised = True
            laws(op["rs"], op.get("via", "direct"))
        check_all()
    stats["serialised"] = serialised
    return findings, stats


def run_crdt(case: dict) -> Result:
    res = Result()
    findings, stats = _exec_crdt(case, force_direct=False)
    for k, v in stats.items():
        if k != "serialised":
            res.count(k, v)
    comp = _crdt_cls(case["kind"]).__name__
    if findings:
        # attribution: does the observation survive when every to_dict/from_dict hop is replaced by the object itself?
        if stats["serialised"]:
            direct_findings, _ = _exec_crdt(case, force_direct=True)
            direct_idents = {f["ident"] for f in direct_findings}
        else:
            direct_idents = None
        first_rt = min((f["idx"] for f in findings if f["oracle"] == "roundtrip-changes-state"), default=None)
        seen = set()
        for f in findings:
            if f["oracle"] == "roundtrip-changes-state":
                shape = f["base"]
            elif direct_idents is None or f["ident"] in direct_idents:
                shape = f["base"]
            else:
                if first_rt is not None and first_rt <= f["idx"]:
                    continue  # consequence of a round trip that already changed the state (reported above)
                shape = f"{f['base']}|only-with-to_dict-roundtrip"
            if (f["oracle"], shape) in seen:
                continue
            seen.add((f["oracle"], shape))
            res.add(f["oracle"], comp, shape, f["detail"], {"op_index": f["idx"]})

    # non-triviality: measured on the part before the final sync
    ops = [o for o in case["ops"] if not o.get("final")]
    writers = {o["r"] for o in ops if o["op"] in ("inc", "dec", "set", "add", "rem")}
    nontrivial = False
    if len(writers) >= 2:
        if case["kind"] == "orset":
            Kk: list[set] = [set() for _ in case["replicas"]]
            adds: dict[int, object] = {}
            pivots = []
            snapK: dict[int, set] = {}
            for p, o in enumerate(ops):
                if o["op"] == "add":
                    adds[o["u"]] = o["e"]
                    Kk[o["r"]].add(o["u"])
                elif o["op"] == "rem":
                    if any(adds[u] == o["e"] for u in Kk[o["r"]]):
                        pivots.append((p, o["r"]))
                elif o["op"] == "merge":
                    Kk[o["dst"]] |= Kk[o["src"]]
                elif o["op"] == "snap":
                    snapK[o["sid"]] = set(Kk[o["src"]])
                elif o["op"] == "deliver" and o["sid"] in snapK:
                    Kk[o["dst"]] |= snapK[o["sid"]]
                elif o["op"] == "group" and all(x in snapK for x in o["sids"]):
                    snapK[o["sid"]] = snapK[o["sids"][0]] | snapK[o["sids"][1]]
            for p, r in pivots:
                inbound = any(o["op"] in ("merge", "deliver") and o["dst"] == r for o in ops[p + 1 :])
                outbound = any((o["op"] == "merge" and o["src"] == r) or (o["op"] == "snap" and o["src"] == r) for o in ops[p + 1 :])
                if inbound and outbound:
                    nontrivial = True
                    break
        else:
            for r in writers:
                inbound = any(o["op"] in ("merge", "deliver") and o["dst"] == r for o in ops)
                outbound = any((o["op"] == "merge" and o["src"] == r) or (o["op"] == "snap" and o["src"] == r) for o in ops)
                if inbound and outbound:
                    nontrivial = True
                    break
    res.nontrivial = nontrivial
    return res


def shrink_crdt(case: dict, still_fails) -> dict:
    if _already_known(case, run_crdt):
        return case
    def fails(ops):
        return still_fails({**case, "ops": ops})

    return {**case, "ops": ddmin(case["ops"], fails, max_tests=200)}


# ==========================================================================
# CRDTStore in a real simulation
# ==========================================================================

_GOSSIP_TAIL = 12  # loss-free gossip intervals after the last write


def gen_store(rng: random.Random, tier: str) -> dict:
    kind = rng.choice(["gcounter", "pncounter", "orset", "orset", "lww"])
    n = rng.choice([2, 2, 3, 3, 4])
    names = [f"s{i}" for i in range(n)]
    topology = rng.choice(["mesh", "ring", "ring", "ring1", "star-in", "joiner", "digraph", "digraph"]) if n > 2 else rng.choice(["mesh", "mesh", "star-in"])
    peers = _gen_peers(rng, topology, n)
    interval = rng.choice([0.5, 1.0])
    n_keys = rng.choice([1, 1, 2, 3])
    keys = [f"k{j}" for j in range(n_keys)]
    t_write = rng.choice([2.0, 5.0, 8.0])
    n_writes = rng.choice([2, 4, 8, 14, 22])
    preseed = rng.random() < 0.35
    elem_kind = rng.choice(["str", "str", "int", "mixed"])
    writes = []
    uid = 0
    if preseed:
        # every node touches every key before the first gossip round
        for i in range(n):
            for k in keys:
                uid += 1
                writes.append(_store_write(rng, kind, i, k, 0.01 + 0.001 * uid, uid, elem_kind, []))
    added: list[tuple] = []  # (node, key, elem, time)
    for _ in range(n_writes):
        uid += 1
        t = round(rng.uniform(0.05, t_write), 6)
        i = rng.randrange(n)
        k = rng.choice(keys)
        w = _store_write(rng, kind, i, k, t, uid, elem_kind, added)
        writes.append(w)
        if w["op"] == "add":
            added.append((i, k, w["value"], t))
    writes.sort(key=lambda w: w["t"])
    base_hi = rng.choice([0.01, 0.05, interval / 4])
    script = {
        "seed": rng.randrange(1 << 30),
        "family": rng.choice(["uniform", "bimodal"]),
        "base": [0.0005, base_hi],
        "slow": [interval * 0.5, interval * 2.5],
        "p_slow": rng.choice([0.05, 0.2]),
        "loss": 0.0,
        "rules": [],
        "keep_log": False,
    }
    # loss / partition only while writes are in progress
    if rng.random() < 0.5:
        script["rules"].append({"src": None, "dst": None, "type": None, "drop": True, "before": t_write, "after": round(rng.uniform(0, t_write), 3)})
        a = rng.choice(names)
        script["rules"][-1]["src" if rng.random() < 0.5 else "dst"] = a
    # after the write phase: fast and loss-free
    script["rules"].append({"src": None, "dst": None, "type": None, "after": t_write + interval, "delay": rng.choice([0.001, 0.01, interval / 8])})
    skews = [rng.choice(_OFFSETS[:9]) for _ in range(n)]
    return {
        "kind": kind,
        "nodes": names,
        "topology": topology,
        "peers": peers,
        "interval": interval,
        "keys": keys,
        "t_write": t_write,
        "writes": writes,
        "script": script,
        "skews": skews,
        "first_tick": [round(rng.uniform(0.02, interval), 6) for _ in range(n)],
        "py_random_seed": rng.randrange(1 << 30),
    }


def _gen_peers(rng, topology: str, n: int) -> list:
    """Per-node peer lists (add_peers is per node, so lists need not be symmetric).

    mesh / ring: symmetric.  ring1: one-way ring (successor only).  star-in: only the spokes know the hub (node 0);
    the hub gossips to nobody and, not knowing the senders, never answers.  joiner: the last node knows node 0 only and
    nobody knows it; the others form a mesh.  digraph: a one-way ring through a random permutation (strongly connected)
    plus random extra one-way edges."""
    if topology == "ring":
        return [sorted({(i + 1) % n, (i - 1) % n} - {i}) for i in range(n)]
    if topology == "ring1":
        return [[(i + 1) % n] for i in range(n)]
    if topology == "star-in":
        return [[]] + [[0] for _ in range(1, n)]
    if topology == "joiner":
        return [[j for j in range(n - 1) if j != i] for i in range(n - 1)] + [[0]]
    if topology == "digraph":
        order = list(range(n))
        rng.shuffle(order)
        out = [set() for _ in range(n)]
        for a in range(n):
            out[order[a]].add(order[(a + 1) % n])
        for _ in range(rng.randrange(0, n)):
            a, b = rng.sample(range(n), 2)
            out[a].add(b)
        return [sorted(x) for x in out]
    return [[j for j in range(n) if j != i] for i in range(n)]


def _store_write(rng, kind, i, k, t, uid, elem_kind, added):
    if kind == "gcounter":
        return {"t": t, "node": i, "key": k, "op": "increment", "value": rng.choice([1, 1, 2, 7]), "u": uid}
    if kind == "pncounter":
        return {"t": t, "node": i, "key": k, "op": rng.choice(["increment", "decrement"]), "value": rng.choice([1, 1, 2, 7]), "u": uid}
    if kind == "lww":
        return {"t": t, "node": i, "key": k, "op": "set", "value": f"w{uid}", "u": uid}
    # orset: each element added at most once; a remove is issued by the adder later, or by anybody at any time
    mine = [a for a in added if a[0] == i and a[1] == k and a[3] < t]
    r = rng.random()
    if r < 0.3 and mine:
        a = rng.choice(mine)
        return {"t": t, "node": i, "key": k, "op": "remove", "value": a[2], "u": uid, "by_adder": True}
    if r < 0.4 and added:
        a = rng.choice(added)
        if a[0] != i:
            return {"t": t, "node": i, "key": a[1], "op": "remove", "value": a[2], "u": uid, "by_adder": False}
    if elem_kind == "str" or (elem_kind == "mixed" and rng.random() < 0.5):
        e = f"e{uid}"
    else:
        e = 1000 + uid
    return {"t": t, "node": i, "key": k, "op": "add", "value": e, "u": uid}


def run_store(case: dict) -> Result:
    import random as pyrandom

    from hsverif.chaosnet import ChaosLink, DelayScript
    from hsverif.probe import EngineProbe
    from happysimulator import Event, Instant, Simulation
    from happysimulator.components.crdt import CRDTStore
    from happysimulator.core.logical_clocks import HybridLogicalClock
    from happysimulator.components.network.network import Network
    from happysimulator.core.node_clock import FixedSkew
    from happysimulator.distributions.constant import ConstantLatency
    from happysimulator.core.temporal import Duration

    res = Result()
    kind = case["kind"]
    cls = _crdt_cls(kind)
    names = case["nodes"]
    n = len(names)
    interval = case["interval"]
    script = DelayScript(case["script"])
    net = Network(name="net")
    stores = [CRDTStore(nm, network=net, crdt_factory=(lambda nid, cls=cls: cls(nid)), gossip_interval=interval) for nm in names]
    for a in stores:
        for b in stores:
            if a is not b:
                net.add_link(a, b, ChaosLink(name=f"{a.name}>{b.name}", latency=ConstantLatency(0.0), script=script, src_name=a.name, dst_name=b.name))
    if case.get("peers") is not None:
        peers = {i: list(p) for i, p in enumerate(case["peers"])}
    elif case["topology"] == "ring":
        peers = {i: sorted({(i + 1) % n, (i - 1) % n} - {i}) for i in range(n)}
    else:
        peers = {i: [j for j in range(n) if j != i] for i in range(n)}
    for i, s in enumerate(stores):
        s.add_peers([stores[j] for j in peers[i]])
    t_end = case["t_write"] + interval * (_GOSSIP_TAIL + 2)
    sim = Simulation(start_time=Instant.Epoch, end_time=Instant.from_seconds(t_end), sources=[], entities=[*stores, net])
    hlcs = []
    for i, s in enumerate(stores):
        skew = FixedSkew(Duration(case["skews"][i]))
        hlcs.append(HybridLogicalClock(names[i], wall_time=(lambda s=s, skew=skew: skew.read(s.now))))

    lww_writes: dict[str, list] = {}
    foreign: dict[tuple[str, str], tuple] = {}  # (store, key) -> (node_id of the CRDT it operates on, when first seen)

    def lww_set(w):
        def fn(_e):
            reg = stores[w["node"]].get_or_create(w["key"])
            ts = hlcs[w["node"]].now()
            reg.set(w["value"], ts)
            lww_writes.setdefault(w["key"], []).append(((ts.physical_ns, ts.logical, ts.node_id), w["value"]))

        return fn

    evs = []
    for w in case["writes"]:
        t = Instant.from_seconds(w["t"])
        if kind == "lww":
            evs.append(Event.once(time=t, event_type="HarnessLWWSet", fn=lww_set(w)))
        else:
            evs.append(Event(time=t, event_type="Write", target=stores[w["node"]], context={"metadata": {"key": w["key"], "operation": w["op"], "value": w["value"]}}))
    for i, s in enumerate(stores):
        evs.append(Event(time=Instant.from_seconds(case["first_tick"][i]), event_type="GossipTick", target=s, daemon=False))
    sim.schedule(evs)

    rt_during: dict[str, tuple] = {}
    sends: dict[int, tuple] = {}  # id(state payload) -> (payload kept alive, send time ns)
    exchanges: list[tuple] = []  # (src, dst, sent_ns, delivered_ns)
    digests: dict[str, str] = {}
    last_change: dict[str, int] = {}
    store_set = {id(s) for s in stores}

    def digest(s):
        return repr([(k, c.to_dict(), repr(c.value)) for k, c in sorted(s.crdts.items())])

    def note_state(s, now_ns):
        d = digest(s)
        if digests.get(s.name) != d:
            digests[s.name] = d
            last_change[s.name] = now_ns

    def on_event(ev_):
        now_ns = ev_.time.nanoseconds
        if ev_.event_type in ("GossipPush", "GossipResponse"):
            md = ev_.context.get("metadata", {})
            st = md.get("state")
            if ev_.target is net:
                sends.setdefault(id(st), (st, now_ns))
            elif id(ev_.target) in store_set:
                sent = sends.get(id(st))
                exchanges.append((md.get("source"), ev_.target.name, sent[1] if sent else None, now_ns))
        if id(ev_.target) in store_set:
            note_state(ev_.target, now_ns)
        elif ev_.event_type == "HarnessLWWSet":
            for s in stores:
                note_state(s, now_ns)
        if ev_.event_type == "Write" and ev_.target in stores:
            k_ = ev_.context.get("metadata", {}).get("key")
            c_ = ev_.target.crdts.get(k_)
            if c_ is not None and k_ not in rt_during:
                back_ = type(c_).from_dict(copy.deepcopy(c_.to_dict()))
                res.count("dict_roundtrips")
                if not ((back_ == c_) and (c_ == back_) and back_.value == c_.value):
                    rt_during[k_] = (_rt_shape(kind, c_), f"{ev_.target.name}[{k_}] right after a local write: from_dict(to_dict(x)) shows {sorted(_elem_key(x) for x in back_.value) if isinstance(back_.value, frozenset) else back_.value!r}, x shows {sorted(_elem_key(x) for x in c_.value) if isinstance(c_.value, frozenset) else c_.value!r}")
        for s in stores:
            for k, c in s.crdts.items():
                if c.node_id != s.name and (s.name, k) not in foreign:
                    foreign[(s.name, k)] = (c.node_id, ev_.time.to_seconds())

    sim.control.on_event(on_event)
    state = pyrandom.getstate()
    pyrandom.seed(case["py_random_seed"])
    try:
        with EngineProbe(log_deliveries=False, instant_cap=20000, total_cap=400000) as p:
            status = p.run(sim)
    finally:
        pyrandom.setstate(state)
    res.count("events_monitored", p.n_deliveries)
    if status != "completed":
        res.inconclusive = f"simulation {status}"
        return res

    def val(c):
        if c is None:
            return None
        if kind == "lww":
            ts = c.timestamp
            return (c.value, None if ts is None else (ts.physical_ns, ts.logical, ts.node_id))
        return c.value

    # ---- quiescence, measured from the run itself: after the last state change anywhere (T_c) the stores kept
    # gossiping; an exchange i->j counts when the message was *sent* after T_c (so it carried i's final state) and was
    # delivered (j merged it, without effect).  If these exchanges strongly connect all stores, more gossip of the same
    # kind can never change anything: that is the fixpoint at which replicas must be equal.
    t_c = max(last_change.values(), default=0)
    edges = {(a_, b_) for (a_, b_, sent, _deliv) in exchanges if sent is not None and sent > t_c}
    res.count("gossip_messages_delivered", len(exchanges))

    def reach(start, fwd):
        seen_, todo = {start}, [start]
        while todo:
            x = todo.pop()
            for (a_, b_) in edges:
                y = None
                if fwd and a_ == x:
                    y = b_
                if not fwd and b_ == x:
                    y = a_
                if y is not None and y not in seen_:
                    seen_.add(y)
                    todo.append(y)
        return seen_

    all_keys = sorted({k for s in stores for k in s.crdts})
    # A store that every store reaches through such exchanges has been handed (transitively) everybody's final state,
    # hence every update: it must show the specified value, and all such stores must be equal.  With symmetric peer lists
    # this is every store (strong connectivity); with one-way lists (star whose hub nobody answers, late joiner) it can
    # be a proper subset.  An exchange counts when the message was DELIVERED to the store, whether or not the receiver
    # lists the sender as a peer.
    full = [i for i, nm in enumerate(names) if reach(nm, False) == set(names)]
    if not full:
        res.inconclusive = "after the last state change no store was reached by gossip from every store"
        res.count("store_not_quiescent")
        return res
    res.count("store_fixpoints")
    res.count("stores_holding_all_updates", len(full))
    symmetric = all((i in peers[j]) == (j in peers[i]) for i in range(n) for j in range(n) if i != j)
    if not symmetric:
        res.count("store_cases_with_one_way_peer_lists")
    topo_shape = "" if symmetric else "|one-way-peer-lists"
    merged_everywhere = all(stores[i].stats.keys_merged > 0 for i in full)

    comp = "CRDTStore"
    writers_per_key: dict[str, set] = {}
    for w in case["writes"]:
        writers_per_key.setdefault(w["key"], set()).add(w["node"])
    if merged_everywhere and any(len(v) >= 2 for v in writers_per_key.values()):
        res.nontrivial = True
    if foreign:
        res.count("store_cases_with_adopted_foreign_replica")

    def show(v):
        if isinstance(v, frozenset):
            return sorted(_elem_key(x) for x in v)
        return repr(v)

    def same(x, y):
        return x is not None and y is not None and (x == y) and (y == x) and val(x) == val(y)

    ADOPT = "local-write-on-replica-adopted-from-gossip-under-the-senders-node-id"
    for k in all_keys:
        crdts = [s.crdts.get(k) for s in stores]
        vals = [val(c) for c in crdts]
        witness = {"key": k, "values": {names[x]: show(vals[x]) for x in range(n)}, "stores_holding_all_updates": [names[x] for x in full], "peers": {names[x]: [names[y] for y in peers[x]] for x in range(n)}, "adopted": {f"{a}/{b}": c for (a, b), c in foreign.items() if b == k}}
        res.count("value_checks", len(full))
        res.count("equality_checks", len(full) - 1)
        # (1) what each replica shows against the specification, where the harness can decide it
        spec_bad = None  # (kind of deviation, text)
        if kind in ("gcounter", "pncounter"):
            want = sum((w["value"] if w["op"] == "increment" else -w["value"]) for w in case["writes"] if w["key"] == k)
            for i, v in ((i_, vals[i_]) for i_ in full):
                if v != want:
                    spec_bad = ("counter", f"{names[i]}[{k}] = {show(v)} at quiescence; increments - decrements written = {want}")
                    break
        elif kind == "lww":
            ws = lww_writes.get(k, [])
            if ws:
                tsk, v0 = max(ws, key=lambda x: x[0])
                for i, v in ((i_, vals[i_]) for i_ in full):
                    if v != (v0, tsk):
                        spec_bad = ("lww", f"{names[i]}[{k}] holds {show(v)} at quiescence; the greatest-timestamp write is {(v0, tsk)!r}")
                        break
        else:
            adds = {_elem_key(w["value"]): w for w in case["writes"] if w["key"] == k and w["op"] == "add"}
            rem_by_adder = {_elem_key(w["value"]) for w in case["writes"] if w["key"] == k and w["op"] == "remove" and w.get("by_adder")}
            rem_other = {_elem_key(w["value"]) for w in case["writes"] if w["key"] == k and w["op"] == "remove" and not w.get("by_adder")}
            must_present = {e for e in adds if e not in rem_by_adder and e not in rem_other}
            for i, v in ((i_, vals[i_]) for i_ in full):
                have = {_elem_key(x) for x in (v or frozenset())}
                if rem_by_adder & have:
                    spec_bad = ("removed-present", f"{names[i]}[{k}] contains {sorted(rem_by_adder & have)} at quiescence although its adder removed it after adding it")
                    break
                if have - set(adds):
                    spec_bad = ("never-added", f"{names[i]}[{k}] contains {sorted(have - set(adds))} which nobody added (added: {sorted(adds)})")
                    break
                if must_present - have:
                    spec_bad = ("missing", f"{names[i]}[{k}] lacks {sorted(must_present - have)}: added and never removed")
                    break
        if spec_bad is None:
            for i in full:
                if crdts[i] is None:
                    spec_bad = ("key-missing", f"{names[i]} has no replica of key {k} at quiescence although it was handed the final state of every store (holders: {[names[x] for x in range(n) if crdts[x] is not None]})")
                    break
        unequal = None
        for i in full[1:]:
            f0 = full[0]
            if not same(crdts[f0], crdts[i]):
                unequal = f"key {k}: {names[f0]} shows {show(vals[f0])} but {names[i]} shows {show(vals[i])} (== is {crdts[f0] == crdts[i]}) at a gossip fixpoint; both were handed every store's final state"
                break
        if spec_bad is None and unequal is None:
            continue
        # (2) structural precondition of the deviation, most direct observation first
        rt_bad = rt_during.get(k)
        for i, c in ((i_, crdts[i_]) for i_ in full):
            if c is not None and rt_bad is None:
                back = type(c).from_dict(copy.deepcopy(c.to_dict()))
                if not same(back, c):
                    rt_bad = (_rt_shape(kind, c), f"{names[i]}[{k}]: from_dict(to_dict(x)) shows {show(val(back))}, x shows {show(val(c))}")
        adopted_at = {nm: t for (nm, kk), (_nid, t) in foreign.items() if kk == k}
        wrote_on_adopted = any(w["key"] == k and names[w["node"]] in adopted_at and w["t"] >= adopted_at[names[w["node"]]] for w in case["writes"])
        if rt_bad is not None:
            res.add("roundtrip-changes-state", cls.__name__, rt_bad[0], rt_bad[1] + "; consequence at quiescence: " + (spec_bad[1] if spec_bad else unequal), witness)
        elif spec_bad is not None and spec_bad[0] == "removed-present":
            res.add("value-vs-spec", cls.__name__, "removed-element-present", spec_bad[1], witness)
        elif wrote_on_adopted and kind != "lww":
            if spec_bad is not None:
                res.add("value-vs-spec-at-quiescence", comp, ADOPT, spec_bad[1], witness)
            else:
                res.add("replicas-unequal-at-quiescence", comp, ADOPT, unequal, witness)
        elif spec_bad is not None:
            res.add("value-vs-spec-at-quiescence", comp, f"{kind}|{spec_bad[0]}|own-replicas{topo_shape}", spec_bad[1], witness)
        else:
            res.add("replicas-unequal-at-quiescence", comp, f"{kind}|own-replicas{topo_shape}", unequal, witness)
    uniq, out = set(), []
    for v in res.violations:
        if v.key() not in uniq:
            uniq.add(v.key())
            out.append(v)
    res.violations = out
    return res


def shrink_store(case: dict, still_fails) -> dict:
    if _already_known(case, run_store):
        return case
    def fails(ws):
        return still_fails({**case, "writes": ws})

    return {**case, "writes": ddmin(case["writes"], fails, max_tests=60)}


# ==========================================================================

FAMILIES = {
    "clocks": Family("clocks", gen_clocks, run_clocks, shrink=shrink_clocks),
    "longclocks": Family("longclocks", gen_longclocks, run_longclocks, case_timeout=120.0),
    "gcounter": Family("gcounter", gen_crdt("gcounter"), _memo(run_crdt), shrink=shrink_crdt),
    "pncounter": Family("pncounter", gen_crdt("pncounter"), _memo(run_crdt), shrink=shrink_crdt),
    "lww": Family("lww", gen_crdt("lww"), _memo(run_crdt), shrink=shrink_crdt),
    "orset": Family("orset", gen_crdt("orset"), _memo(run_crdt), shrink=shrink_crdt),
    "store": Family("store", gen_store, _memo(run_store), shrink=shrink_store),
}

# shards sized so that interpreter start-up (importing the library, ~2 s) does not dominate
for _name, _size in {"longclocks": 2, "clocks": 650, "gcounter": 1000, "pncounter": 1000, "lww": 1200, "orset": 900, "store": 150}.items():
    FAMILIES[_name].shard_size = _size

BUDGET = {
    "quick": {"longclocks": 8, "clocks": 5000, "gcounter": 1000, "pncounter": 1000, "lww": 1200, "orset": 1800, "store": 600},
    "thorough": {"longclocks": 300, "clocks": 300000, "gcounter": 60000, "pncounter": 60000, "lww": 80000, "orset": 120000, "store": 30000},
}

"""Harness pieces shared by the C09 families (capacity primitives).

Everything here is *harness*: generated worker processes that call the real
primitives inside a real Simulation, a holder ledger written at the client
boundary, and sampling hooks that read public attributes only.

Time grid: one tick = 1/512 s = 1 953 125 ns.  k/512 is exact in binary
floating point and k/512 * 1e9 is an exact integer, so `yield k * TS` lands
on exactly tick k and generated collisions (release and arrival on one
nanosecond) really collide.
"""

from __future__ import annotations

from hsverif.core import Result
from hsverif.probe import EngineProbe, quiet_library_logging

quiet_library_logging()

from happysimulator.core.entity import Entity  # noqa: E402
from happysimulator.core.event import Event  # noqa: E402
from happysimulator.core.simulation import Simulation  # noqa: E402
from happysimulator.core.temporal import Instant  # noqa: E402

TICK_NS = 1_953_125
TS = 1.0 / 512.0  # one tick in seconds (exact)


def at(tick: int) -> Instant:
    return Instant(int(tick) * TICK_NS)


class Req:
    """One acquire attempt as seen by the client."""

    __slots__ = (
        "rid", "worker", "mode", "amount", "prio", "hold", "how",
        "t_req", "s_req", "d_req", "blocked", "fut",
        "d_res", "t_grant", "s_grant", "d_grant", "t_rel", "s_rel",
        "outcome", "extra",
    )

    def __init__(self, rid, worker, mode="x", amount=1, prio=0.0, hold=0, how="acq"):
        self.rid = rid
        self.worker = worker
        self.mode = mode          # "x" exclusive / "r" reader / "w" writer
        self.amount = amount
        self.prio = prio
        self.hold = hold          # scripted hold in ticks
        self.how = how            # "acq" blocking / "try"
        self.t_req = self.s_req = self.d_req = None
        self.blocked = None       # True: the primitive made it wait
        self.fut = None
        self.d_res = None         # delivery number at which the primitive-side grant was first visible
        self.t_grant = self.s_grant = self.d_grant = None
        self.t_rel = self.s_rel = None
        self.outcome = None       # granted | denied | timeout | preempted | error
        self.extra = None

    def brief(self):
        return {
            "rid": self.rid, "worker": self.worker, "mode": self.mode, "amount": self.amount,
            "prio": self.prio, "how": self.how, "blocked": self.blocked,
            "t_req": self.t_req, "t_grant": self.t_grant, "t_rel": self.t_rel, "outcome": self.outcome,
        }


class Ledger:
    """Client-boundary history: requests, grants, releases with logical sequence numbers."""

    def __init__(self, clock_ns):
        self.reqs: list[Req] = []
        self.seq = 0
        self.delivery = 0  # number of completed deliveries (bumped by the on_event hook)
        self.clock_ns = clock_ns

    def _tick(self):
        self.seq += 1
        return self.seq

    def request(self, worker, **kw) -> Req:
        r = Req(len(self.reqs), worker, **kw)
        r.t_req, r.s_req, r.d_req = self.clock_ns(), self._tick(), self.delivery
        self.reqs.append(r)
        return r

    def granted(self, r: Req):
        r.t_grant, r.s_grant, r.d_grant = self.clock_ns(), self._tick(), self.delivery
        r.outcome = "granted"

    def released(self, r: Req):
        r.t_rel, r.s_rel = self.clock_ns(), self._tick()

    def holders(self):
        """Requests that hold at the client boundary right now."""
        return [r for r in self.reqs if r.s_grant is not None and r.s_rel is None and r.outcome == "granted"]

    def pending(self):
        """Blocking requests issued and not yet answered at the client boundary."""
        return [r for r in self.reqs if r.how == "acq" and r.s_grant is None and r.outcome is None]

    def history(self, limit=60):
        return [r.brief() for r in self.reqs[:limit]]


class Driver(Entity):
    """Harness entity: every start event spawns the worker process with that index."""

    def __init__(self, name="c09.driver"):
        super().__init__(name)
        self.procs = []

    def handle_event(self, event):
        w = event.context["metadata"]["w"]
        return self.procs[w]()


def start_event(driver, tick, w, etype="c09.start"):
    return Event(time=at(tick), event_type=etype, target=driver, context={"metadata": {"w": w}})


class Run:
    """Builds the simulation, installs the sampling hooks, runs under the engine probe."""

    def __init__(self, res: Result, entities, instant_cap=2500, total_cap=150_000, end_tick=None):
        self.res = res
        self.driver = Driver()
        if end_tick is None:
            self.sim = Simulation(entities=[*entities, self.driver])
        else:
            self.sim = Simulation(entities=[*entities, self.driver], end_time=at(end_tick))
        self.instant_cap = instant_cap
        self.total_cap = total_cap
        self.ledger = Ledger(self.now_ns)
        self.status = None
        self.probe = None
        self.advances = 0

    def now_ns(self):
        return self.driver.now.nanoseconds

    def schedule(self, ev):
        self.sim.schedule(ev)

    def spawn(self, tick, proc):
        """Register a worker process and schedule its start event."""
        self.driver.procs.append(proc)
        self.sim.schedule(start_event(self.driver, tick, len(self.driver.procs) - 1))

    def go(self, after_delivery=None, end_of_instant=None):
        led = self.ledger
        res = self.res

        def on_event(ev):
            led.delivery += 1
            if after_delivery is not None:
                after_delivery(ev)

        def on_advance(t):
            self.advances += 1
            if end_of_instant is not None:
                end_of_instant(t)

        self.sim.control.on_event(on_event)
        self.sim.control.on_time_advance(on_advance)
        with EngineProbe(log_deliveries=False, instant_cap=self.instant_cap, total_cap=self.total_cap,
                         record_emissions=False) as p:
            self.status = p.run(self.sim)
            self.probe = p
        res.count("events_monitored", p.n_deliveries)
        res.count("instants_completed", self.advances)
        if self.status == "budget":
            res.inconclusive = "delivery budget exhausted while the clock was still advancing"
        return self.status

    def spin_witness(self):
        s = getattr(self.probe, "spin", None)
        if s is None:
            return None
        cyc = []
        for x in s.recent[-12:]:
            if x not in cyc:
                cyc.append(x)
        return {"time_ns": s.time_ns, "deliveries_at_instant": s.count, "cycle": cyc}


def drive(gen, after_first=None):
    """`yield from gen` written out, with a callback after the callee's first step.

    Lets the client see whether the primitive answered synchronously or made it
    wait (public counters read right after the first step).
    """
    try:
        v = next(gen)
    except StopIteration as e:
        if after_first is not None:
            after_first(False)
        return e.value
    if after_first is not None:
        after_first(True)
    while True:
        try:
            sent = yield v
        except BaseException as exc:  # noqa: BLE001
            v = gen.throw(exc)
            continue
        try:
            v = gen.send(sent)
        except StopIteration as e:
            return e.value


def max_overlap_blocked(reqs):
    """Largest number of requests blocked at the same logical moment (client boundary)."""
    pts = []
    for r in reqs:
        if not r.blocked or r.s_req is None:
            continue
        end = r.s_grant if r.s_grant is not None else float("inf")
        pts.append((r.s_req, 1))
        pts.append((end, -1))
    pts.sort(key=lambda x: (x[0], x[1]))
    cur = best = 0
    for _, d in pts:
        cur += d
        best = max(best, cur)
    return best


def simultaneous(ticks) -> bool:
    seen = set()
    for t in ticks:
        if t in seen:
            return True
        seen.add(t)
    return False

"""C06 harness world: builds the real components from a JSON case, runs them, returns raw observations.

No verdicts here.  One simulation holds (any subset of)

* node targets      plain script entity / generator entity / QueuedResource subclass / library Server
* bystanders        same classes, never named by a fault
* a Network         explicit constant-latency links, probe messages sent by plain nodes
* Resources         workers that hold grants across capacity faults, sampling callbacks
* one FaultSchedule built from case["faults"], handles cancelled as the case says

Everything is logged at the harness boundary (handler entry, process resumption, arrival at
a sink, public attributes read by sampling callbacks).  The only library-internal observation
is the shared delivery probe filtered to the ``<name>.worker`` adapter of queue-fronted
targets (a delivery to the worker *is* a start / resumption of ``handle_queued_event``).
"""

from __future__ import annotations

from hsverif.core import ensure_repo_on_path

ensure_repo_on_path()

from happysimulator.components.network.link import NetworkLink  # noqa: E402
from happysimulator.components.network.network import Network  # noqa: E402
from happysimulator.components.queued_resource import QueuedResource  # noqa: E402
from happysimulator.components.resource import Resource  # noqa: E402
from happysimulator.components.server.server import Server  # noqa: E402
from happysimulator.core.entity import Entity  # noqa: E402
from happysimulator.core.event import Event  # noqa: E402
from happysimulator.core.sim_future import SimFuture  # noqa: E402
from happysimulator.core.simulation import Simulation  # noqa: E402
from happysimulator.core.temporal import Instant  # noqa: E402
from happysimulator.distributions.constant import ConstantLatency  # noqa: E402
from happysimulator.faults import (  # noqa: E402
    CrashNode,
    FaultSchedule,
    InjectLatency,
    InjectPacketLoss,
    NetworkPartition,
    PauseNode,
    RandomPartition,
    ReduceCapacity,
)

from happysimulator.components.queue import Queue  # noqa: E402
from happysimulator.components.queue_driver import QueueDriver  # noqa: E402
from happysimulator.core.temporal import Duration  # noqa: E402
from happysimulator.distributions.exponential import ExponentialLatency  # noqa: E402
from happysimulator.distributions.latency_distribution import LatencyDistribution  # noqa: E402

from hsverif.probe import EngineProbe, quiet_library_logging  # noqa: E402

import zlib
import random as _random  # noqa: E402


class ScriptedLatency(LatencyDistribution):
    """Harness subclass of the public LatencyDistribution: samples come from its own seeded RNG
    (uniform in [0.5, 1.5] x mean) and every sample handed out is recorded with the clock value it was
    asked for, in a registry that survives copy / deepcopy of the distribution object."""

    LOG: dict = {}

    def __init__(self, mean_s: float, seed: int, key: str):
        super().__init__(mean_s)
        self._rng = _random.Random(seed)
        self._mean_s = mean_s
        self.key = key
        ScriptedLatency.LOG.setdefault(key, [])

    def get_latency(self, current_time):
        d = Duration.from_seconds(self._mean_s * (0.5 + self._rng.random()))
        ScriptedLatency.LOG[self.key].append((current_time.nanoseconds, d.nanoseconds))
        return d

INF = 1 << 62


def sec_to_ns(seconds: float) -> int:
    """The nanosecond the library maps a float-seconds fault time to."""
    return Instant.from_seconds(float(seconds)).nanoseconds


def fault_window_ns(f: dict) -> tuple[int, int]:
    if f["type"] == "RandomPartition":  # no window of its own: live from the start for the whole run
        return 0, INF
    s = sec_to_ns(f["start_ms"] / 1000.0)
    e = INF if f.get("end_ms") is None else sec_to_ns(f["end_ms"] / 1000.0 + (4e-10 if f.get("sub_ns") else 0.0))
    return s, e


# --------------------------------------------------------------------------
# harness entities


class Sink(Entity):
    def __init__(self, name, log):
        super().__init__(name)
        self.log = log

    def handle_event(self, event):
        md = event.context.get("metadata", {})
        self.log.append((self.now.nanoseconds, md.get("origin"), md.get("id"), md.get("tag")))
        return None


class Resolver(Entity):
    """Resolves futures that generator nodes are parked on (never a fault target)."""

    def __init__(self, name):
        super().__init__(name)
        self.pending: dict[str, SimFuture] = {}

    def handle_event(self, event):
        key = event.context["metadata"]["key"]
        fut = self.pending.pop(key, None)
        if fut is not None:
            fut.resolve(key)
        return None


class Dispatcher(Entity):
    """Never-faulted client: at its own event time it creates an event for another entity that is
    due later (delayed job / retry / timer).  Whether that event is handled must depend on the state
    of the target when it is due, not when it was put on the calendar."""

    def __init__(self, name, targets):
        super().__init__(name)
        self.targets = targets

    def handle_event(self, event):
        md = event.context["metadata"]
        inner = dict(md["inner"])
        return Event(time=Instant(md["due"]), event_type="req", target=self.targets[inner["to"]], context={"metadata": inner})


def _out(now, sink, origin, id_, tag):
    return Event(time=now, event_type="out", target=sink, context={"metadata": {"origin": origin, "id": id_, "tag": tag}})


def _steps_process(ent, md, log, sink, resolver):
    """Shared generator body: steps = [[delay_ns, emit(0/1), kind('d'|'f')], ...]."""
    id_ = md["id"]
    for i, st in enumerate(md.get("steps", [])):
        d_ns, emit, kind = st[0], st[1], (st[2] if len(st) > 2 else "d")
        effects = [_out(ent.now, sink, ent.name, id_, f"e{i}")] if emit else []
        if kind == "f":
            fut = SimFuture()
            key = f"{ent.name}/{id_}/{i}"
            resolver.pending[key] = fut
            wake = Event(
                time=Instant(ent.now.nanoseconds + d_ns),
                event_type="resolve",
                target=resolver,
                context={"metadata": {"key": key}},
            )
            # hand the side effects + wake-up to the engine, then park on the future
            yield 0.0, effects + [wake]
            log.append((ent.now.nanoseconds, "z", id_, i))  # zero-delay hop (not a verdict point by itself)
            yield fut
        else:
            yield d_ns / 1e9, effects
        log.append((ent.now.nanoseconds, "s", id_, i))
    return [_out(ent.now, sink, ent.name, id_, "done")]


class PlainNode(Entity):
    """Script entity: reaction is a pure function of the event's metadata."""

    def __init__(self, name, log, sink, net=None, peers=None):
        super().__init__(name)
        self.log = log
        self.sink = sink
        self.net = net
        self.peers = peers if peers is not None else {}

    def handle_event(self, event):
        md = event.context.get("metadata", {})
        op = md.get("op", "work")
        self.log.append((self.now.nanoseconds, "h", md.get("id"), op))
        if op == "send":
            return self.net.send(self, self.peers[md["dst"]], "msg", payload={"op": "recv", "id": md["id"]})
        if op == "emit":
            return _out(self.now, self.sink, self.name, md.get("id"), "emit")
        return None


class GenNode(Entity):
    def __init__(self, name, log, sink, resolver):
        super().__init__(name)
        self.log = log
        self.sink = sink
        self.resolver = resolver

    def handle_event(self, event):
        md = event.context.get("metadata", {})
        self.log.append((self.now.nanoseconds, "h", md.get("id"), "work"))
        return _steps_process(self, md, self.log, self.sink, self.resolver)


class BoundedGenNode(GenNode):
    """Generator worker with a concurrency limit (reported through the public has_capacity())."""

    def __init__(self, name, log, sink, resolver, conc):
        super().__init__(name, log, sink, resolver)
        self.conc = conc
        self.active = 0

    def has_capacity(self) -> bool:
        return self.active < self.conc

    def handle_event(self, event):
        md = event.context.get("metadata", {})
        self.log.append((self.now.nanoseconds, "h", md.get("id"), "work"))
        return self._serve(md)

    def _serve(self, md):
        self.active += 1
        try:
            out = yield from _steps_process(self, md, self.log, self.sink, self.resolver)
        finally:  # also runs when the engine discards the process (dropped wake-up of a crashed worker)
            self.active -= 1
        return out


class QRNode(QueuedResource):
    """Harness subclass of the public QueuedResource: concurrency-limited multi-step service."""

    def __init__(self, name, conc, log, sink, resolver):
        super().__init__(name)
        self.conc = conc
        self.active = 0
        self.log = log
        self.sink = sink
        self.resolver = resolver

    def has_capacity(self) -> bool:
        return self.active < self.conc

    def handle_queued_event(self, event):
        md = event.context.get("metadata", {})
        self.active += 1
        self.log.append((self.now.nanoseconds, "h", md.get("id"), "service"))
        try:
            out = yield from _steps_process(self, md, self.log, self.sink, self.resolver)
        finally:
            self.active -= 1
        return out


class Worker(Entity):
    """Holds Resource grants across capacity faults; all bookkeeping at the client boundary."""

    def __init__(self, name, resources, obs):
        super().__init__(name)
        self.res = resources
        self.obs = obs
        self.held = {r: 0 for r in resources}
        self.pending = {r: [] for r in resources}  # FIFO of (jid, amount) still waiting

    def handle_event(self, event):
        md = event.context["metadata"]
        rname, jid, amount, hold_ns = md["res"], md["id"], md["amount"], md["hold_ns"]
        r = self.res[rname]
        t_call = self.now.nanoseconds
        try:
            fut = r.acquire(amount)
        except ValueError as exc:  # amount > (reduced) capacity: the API refuses, nothing to monitor
            self.obs["acquire_errors"].append((t_call, rname, jid, amount, str(exc)[:120]))
            return None
        waited = not fut.is_resolved
        if waited:
            self.pending[rname].append((jid, amount))
        self.obs["acquire_calls"].append((t_call, rname, jid, amount, waited))
        return self._hold(r, rname, jid, amount, hold_ns, fut, waited)

    def _hold(self, r, rname, jid, amount, hold_ns, fut, waited):
        grant = yield fut
        if waited:
            self.pending[rname] = [p for p in self.pending[rname] if p[0] != jid]
        self.held[rname] += amount
        t_grant = self.now.nanoseconds
        self.obs["grants"].append([t_grant, rname, jid, amount, self.held[rname], r.capacity, None])
        rec = self.obs["grants"][-1]
        yield hold_ns / 1e9
        t_rel = self.now.nanoseconds
        rec[6] = t_rel
        try:
            grant.release()
        except ValueError as exc:
            self.obs["release_errors"].append((t_rel, rname, jid, amount, str(exc)[:160]))
        self.held[rname] -= amount
        return None


# --------------------------------------------------------------------------


def _mk_fault(f: dict):
    t = f["type"]
    if t == "RandomPartition":
        return RandomPartition(nodes=list(f["nodes"]), mtbf=f["mtbf_ms"] / 1000.0, mttr=f["mttr_ms"] / 1000.0, seed=f["seed"])
    s = f["start_ms"] / 1000.0
    e = None if f.get("end_ms") is None else f["end_ms"] / 1000.0 + (4e-10 if f.get("sub_ns") else 0.0)
    if t == "CrashNode":
        return CrashNode(f["target"], at=s, restart_at=e)
    if t == "PauseNode":
        return PauseNode(f["target"], start=s, end=e)
    if t == "NetworkPartition":
        return NetworkPartition(list(f["a"]), list(f["b"]), start=s, end=e, asymmetric=bool(f.get("asym")))
    if t == "InjectLatency":
        return InjectLatency(f["src"], f["dst"], extra_ms=f["extra_ms"], start=s, end=e)
    if t == "InjectPacketLoss":
        return InjectPacketLoss(f["src"], f["dst"], loss_rate=f.get("rate", 1.0), start=s, end=e)
    if t == "ReduceCapacity":
        return ReduceCapacity(f["res"], factor=f["factor"], start=s, end=e)
    raise KeyError(t)


def _once(t_ns, name, fn):
    return Event.once(time=Instant(t_ns), event_type=name, fn=fn, daemon=True)


def execute(case: dict, faults: list | None = None, reuse: bool = True) -> dict:
    """Run the case (optionally with a replaced fault list) and return raw observations.

    With case["reuse_runs"] = N > 1 the world is built N times from fresh, same-named objects while ONE
    FaultSchedule object (and the same fault spec objects) is attached to every Simulation in turn - the
    pattern of a sweep sharing one fault plan.  The first run's observations are returned; the later
    runs' observations are in obs["later_runs"].
    """
    faults = case.get("faults", []) if faults is None else faults
    shared: dict = {}
    obs = _one_run(case, faults, shared)
    n = int(case.get("reuse_runs", 1)) if (reuse and faults) else 1
    obs["later_runs"] = [_one_run(case, faults, shared) for _ in range(max(0, n - 1))]
    return obs


def _one_run(case: dict, faults: list, shared: dict) -> dict:
    quiet_library_logging()
    _random.seed(case.get("rand_seed", 20260922))  # ExponentialLatency links sample from the global RNG
    horizon = case["horizon_ns"]
    obs: dict = {
        "node_log": {},
        "worker_deliveries": {},
        "sink": [],
        "accept": {},  # node -> list of (arrival id, t_ns, accepted_before, accepted_after)
        "grants": [],
        "acquire_calls": [],
        "acquire_errors": [],
        "release_errors": [],
        "samples": [],  # (t, res, capacity, available, waiters, held, head_amount)
        "final": {},
    }
    sink = Sink("sink", obs["sink"])
    resolver = Resolver("resolver")
    entities: list = [sink, resolver]
    pre: list[Event] = []

    # ---- network
    net = None
    peers: dict[str, Entity] = {}
    netspec = case.get("net")
    links: dict[tuple[str, str], NetworkLink] = {}
    if netspec:
        net = Network(name="net")
        entities.append(net)

    # ---- nodes (targets, bystanders, network endpoints)
    nodes: dict[str, Entity] = {}
    queued: dict[str, Entity] = {}
    front: dict[str, Entity] = {}  # where requests for a node are addressed (default: the node itself)
    qd_queues: dict[str, Queue] = {}
    run_key = f"run{id(obs)}"
    originals: dict = {}
    for n in case.get("nodes", []):
        name, kind = n["name"], n["kind"]
        log = obs["node_log"].setdefault(name, [])
        if kind == "plain":
            ent = PlainNode(name, log, sink, net, peers)
        elif kind == "gen":
            ent = GenNode(name, log, sink, resolver)
        elif kind == "qdw":
            # plain generator worker (unbounded, or concurrency 1..3) behind an explicit Queue -> QueueDriver pair;
            # faults name the worker, requests are addressed to the queue
            ent = GenNode(name, log, sink, resolver) if not n.get("conc") else BoundedGenNode(name, log, sink, resolver, n["conc"])
            q = Queue(name=f"{name}.q")
            drv = QueueDriver(name=f"{name}.d", queue=q, target=ent)
            q.egress = drv
            entities.extend([q, drv])
            front[name] = q
            qd_queues[name] = q
        elif kind == "queued":
            ent = QRNode(name, n.get("conc", 1), log, sink, resolver)
            queued[name] = ent
        elif kind == "server":
            ent = Server(name, concurrency=n.get("conc", 1), service_time=ConstantLatency(n["service_ns"] / 1e9), downstream=sink)
            queued[name] = ent
        else:
            raise KeyError(kind)
        nodes[name] = ent
        entities.append(ent)
    if netspec:
        for nn in netspec["nodes"]:
            peers[nn] = nodes[nn]
        for ln in netspec["links"]:
            a, b = nodes[ln["a"]], nodes[ln["b"]]
            dist = ln.get("dist", "const")
            if dist == "scripted":
                lat = ScriptedLatency(ln["base_ns"] / 1e9, ln.get("dist_seed", 1), f"{run_key}/{a.name}>{b.name}")
            elif dist == "exp":
                lat = ExponentialLatency(ln["base_ns"] / 1e9)
            else:
                lat = ConstantLatency(ln["base_ns"] / 1e9)
            originals[(a.name, b.name)] = lat
            if ln.get("bidir"):
                originals[(b.name, a.name)] = lat
            link = NetworkLink(name=f"l_{a.name}_{b.name}", latency=lat)
            if ln.get("bidir"):
                net.add_bidirectional_link(a, b, link)
                links[(a.name, b.name)] = net.get_link(a.name, b.name)
                links[(b.name, a.name)] = net.get_link(b.name, a.name)
            else:
                net.add_link(a, b, link)
                links[(a.name, b.name)] = link

    for _n, _e in nodes.items():
        front.setdefault(_n, _e)
    dispatcher = Dispatcher("dispatcher", front)
    entities.append(dispatcher)

    # ---- resources
    resources: dict[str, Resource] = {}
    for r in case.get("resources", []):
        resources[r["name"]] = Resource(r["name"], r["cap"])
        entities.append(resources[r["name"]])
    worker = None
    if resources:
        worker = Worker("worker", resources, obs)
        entities.append(worker)

    # ---- fault schedule and the three cancellation points
    if "fs" in shared:  # a schedule that has already been attached to an earlier Simulation
        fs, handles = shared["fs"], shared["handles"]
    else:
        fs = FaultSchedule()
        handles = []
        for f in faults:
            h = fs.add(_mk_fault(f))
            handles.append(h)
            if f.get("cancel") == "pre":
                h.cancel()
        shared["fs"], shared["handles"] = fs, handles
    sim = Simulation(entities=entities, end_time=Instant(horizon), fault_schedule=fs if faults else None)
    for f, h in zip(faults, handles):
        c = f.get("cancel")
        if c == "post":
            h.cancel()
        elif isinstance(c, list) and c and c[0] == "run":
            pre.append(_once(int(c[1]), "harness.cancel", lambda e, h=h: h.cancel()))

    # ---- workload
    for w in case.get("work", []):
        md = {"id": w["id"], "op": w.get("op", "work"), "to": w["to"], "origin": w["to"]}
        if "steps" in w:
            md["steps"] = w["steps"]
        if "dst" in w:
            md["dst"] = w["dst"]
        tgt = front[w["to"]]
        if w.get("via") is not None:  # created during the run, at t=via, by the dispatcher; due at w["t"]
            pre.append(
                Event(
                    time=Instant(w["via"]),
                    event_type="dispatch",
                    target=dispatcher,
                    context={"metadata": {"due": w["t"], "inner": md}},
                )
            )
        else:
            # Round 8: a quarter of the directly scheduled requests to plain nodes are daemon events (heartbeat / timer
            # style work that does not keep a run alive).  A crashed or paused target executes nothing whatever the flag
            # (C06-r8-1: Event.invoke let daemon events through to a crashed target); the horizon is finite, so the flag
            # changes nothing else.
            dm = w.get("daemon")
            if dm is None:
                dm = w["to"] not in queued and zlib.crc32(repr((w["id"], w["t"])).encode()) % 4 == 0
            pre.append(Event(time=Instant(w["t"]), event_type="req", target=tgt, daemon=bool(dm), context={"metadata": md}))
        if w["to"] in queued:
            q = queued[w["to"]]
            rec = [w["id"], w["t"], None, None]
            obs["accept"].setdefault(w["to"], []).append(rec)
            # public counter read 1 ns before and 1 ns after the arrival instant
            pre.append(_once(w["t"] - 1, "harness.acc0", lambda e, q=q, rec=rec: rec.__setitem__(2, q.stats_accepted)))
            pre.append(_once(w["t"] + 1, "harness.acc1", lambda e, q=q, rec=rec: rec.__setitem__(3, q.stats_accepted)))
    for j in case.get("jobs", []):
        pre.append(
            Event(
                time=Instant(j["t"]),
                event_type="job",
                target=worker,
                context={"metadata": {"id": j["id"], "res": j["res"], "amount": j["amount"], "hold_ns": j["hold_ns"]}},
            )
        )

    def sample(e):
        t = e.time.nanoseconds
        for rn, r in resources.items():
            pend = worker.pending[rn]
            obs["samples"].append(
                (t, rn, r.capacity, r.available, r.waiters, worker.held[rn], pend[0][1] if pend else None, pend[0][0] if pend else None)
            )

    for t in case.get("samples", []):
        pre.append(_once(t, "harness.sample", sample))
    sim.schedule(pre)

    interesting = {f"{n}.worker" for n in queued}

    def flt(ev):
        return getattr(ev.target, "name", None) in interesting or ev.event_type.startswith("fault.random_partition.")

    with EngineProbe(log_deliveries=True, instant_cap=20000, total_cap=400000, delivery_filter=flt) as p:
        status = p.run(sim)
    obs["status"] = status
    obs["n_deliveries"] = p.n_deliveries
    obs["random_partition_events"] = [(d[1], d[2].rsplit(".", 1)[-1]) for d in p.deliveries if d[2].startswith("fault.random_partition.")]
    for d in p.deliveries:
        # (now_ns, t_ns, type, target, is_cont, crashed, sort_index)
        if d[2].startswith("fault.random_partition."):
            continue
        obs["worker_deliveries"].setdefault(d[3][: -len(".worker")], []).append((d[1], bool(d[4]), d[2]))

    # ---- final public state
    fin = obs["final"]
    fin["links"] = {
        f"{a}>{b}": {
            "loss": lk.packet_loss_rate,
            "latency_ns": lk.latency.get_latency(Instant(0)).nanoseconds if isinstance(originals.get((a, b)), ConstantLatency) else None,
            "latency_is_configured_object": lk.latency is originals.get((a, b)),
            "dropped": lk.packets_dropped,
            "sent": lk.packets_sent,
        }
        for (a, b), lk in links.items()
    }
    obs["scripted_latency"] = {}
    _logs: dict = {}
    for (a, b), lat in originals.items():
        if isinstance(lat, ScriptedLatency):
            if lat.key not in _logs:
                _logs[lat.key] = ScriptedLatency.LOG.pop(lat.key, [])
            obs["scripted_latency"][f"{a}>{b}"] = _logs[lat.key]
    fin["queue_depth"] = {n: q.depth for n, q in qd_queues.items()}
    if net is not None:
        names = netspec["nodes"]
        fin["partitioned"] = [[a, b] for a in names for b in names if a != b and net.is_partitioned(a, b)]
        fin["dropped_partition"] = net.events_dropped_partition
        fin["dropped_no_route"] = net.events_dropped_no_route
    fin["resources"] = {
        rn: {"capacity": r.capacity, "available": r.available, "waiters": r.waiters, "held": worker.held[rn]}
        for rn, r in resources.items()
    }
    fin["accepted"] = {n: q.stats_accepted for n, q in queued.items()}
    fin["resolver_pending"] = len(resolver.pending)
    return obs

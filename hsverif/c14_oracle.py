"""Oracles for C14 (pure harness code, no library imports).

Regular-register interval oracle over a client-boundary history, scan
admissibility, and the transaction oracles (serial-order search, single
snapshot).  Values are unique per write, so a returned value identifies the
write it came from.
"""

from __future__ import annotations

INF = float("inf")
ABSENT = None


def before(a: dict, b: dict) -> bool:
    """True iff op `a` completed before op `b` began.

    Simulated time decides.  On an exact timestamp tie only program order of
    one client counts (cross-client ties are treated as concurrent).
    """
    t1 = a["t1"]
    if t1 is None:
        return False
    if t1 < b["t0"]:
        return True
    return t1 == b["t0"] and a["c"] == b["c"] and a["s1"] < b["s0"]


_INIT = {"c": -1, "i": -1, "op": "init", "t0": -INF, "s0": 0, "t1": -INF, "s1": 0, "val": ABSENT}


def writes_by_key(recs: list[dict], preload=()) -> dict[str, list[dict]]:
    out: dict[str, list[dict]] = {}
    for k, v in preload:
        out.setdefault(k, []).append(
            {"c": -1, "i": -1, "op": "put", "key": k, "val": v, "t0": -INF, "s0": 0, "t1": -INF, "s1": 0, "pre": True}
        )
    for r in recs:
        if r["op"] in ("put", "delete"):
            out.setdefault(r["key"], []).append(r)
    return out


def admissible(read: dict, writes: list[dict]) -> list[dict]:
    """Writes whose value a regular register may return to `read` (includes the initial 'absent')."""
    cands = [_INIT] if not any(w.get("pre") for w in writes) else []
    cands += [w for w in writes if not before(read, w)]
    done_before_read = [w for w in writes if before(w, read)]
    out = []
    for w in cands:
        if w is _INIT:
            sup = bool(done_before_read)
        else:
            sup = any(before(w, w2) for w2 in done_before_read)
        if not sup:
            out.append(w)
    return out


def classify_read(result, adm: list[dict], writes: list[dict], read: dict) -> str | None:
    """None if the result is admissible, else the name of the failed clause."""
    vals = [w["val"] for w in adm]
    if result in vals:
        return None
    if result is ABSENT:
        return "completed-write-not-visible"
    known = [w for w in writes if w["val"] == result and w["op"] == "put"]
    if not known:
        return "value-never-written-to-key"
    if before(read, known[0]):
        return "value-from-the-future"
    if all(v is ABSENT for v in vals):
        return "deleted-key-returned"
    return "stale-value-returned"


def check_scan(read: dict, wbk: dict[str, list[dict]], universe: list[str]):
    """Yields (clause, key, detail) for every refuting observation in one scan result."""
    res = read["res"]
    keys = [k for k, _ in res]
    if keys != sorted(keys) or len(set(keys)) != len(keys):
        yield ("scan-not-sorted-or-duplicate-keys", None, str(keys))
    got = {}
    for k, v in res:
        got.setdefault(k, v)
    lo, hi = read["start"], read["end"]
    for k in keys:
        if not (lo <= k < hi):
            yield ("scan-key-outside-range", k, f"range [{lo!r},{hi!r})")
    for k in set(universe) | set(keys):
        if not (lo <= k < hi):
            continue
        ws = wbk.get(k, [])
        adm = admissible(read, ws)
        result = got.get(k, ABSENT)
        clause = classify_read(result, adm, ws, read)
        if clause:
            yield ("scan-" + clause, k, f"scan returned {result!r}; admissible {[w['val'] for w in adm]}")


# --------------------------------------------------------------------------
# transactions


def explain_serial(txns: list[dict], initial: dict, commit_order: list[int], node_budget=200_000):
    """Search a serial order of the committed transactions under which every
    read of every transaction marked check=True returns what it returned.

    txn: {"id", "check": bool, "ops": [("r", key, observed) | ("w", key, value)]}
    Returns (order | None, exhausted: bool, tried_commit_order_only: bool).
    """
    by_id = {t["id"]: t for t in txns}

    def apply(state: dict, t: dict):
        """state after t, or None if a checked read disagrees."""
        own = {}
        for op in t["ops"]:
            if op[0] == "w":
                own[op[1]] = op[2]
            else:
                exp = own[op[1]] if op[1] in own else state.get(op[1])
                if t["check"] and exp != op[2]:
                    return None
        if not own:
            return state
        s2 = dict(state)
        s2.update(own)
        return s2

    # 1. commit order
    st = dict(initial)
    ok = True
    for tid in commit_order:
        st = apply(st, by_id[tid])
        if st is None:
            ok = False
            break
    if ok:
        return list(commit_order), False, True

    # 2. exact search with pruning and memoisation on (placed set, state)
    ids = list(commit_order)
    seen = set()
    nodes = [0]

    def dfs(placed: frozenset, state: dict, order: list):
        if len(order) == len(ids):
            return list(order)
        key = (placed, tuple(sorted(state.items(), key=lambda kv: kv[0])))
        if key in seen:
            return None
        seen.add(key)
        for tid in ids:
            if tid in placed:
                continue
            nodes[0] += 1
            if nodes[0] > node_budget:
                raise _Budget()
            s2 = apply(state, by_id[tid])
            if s2 is None:
                continue
            order.append(tid)
            r = dfs(placed | {tid}, s2, order)
            if r is not None:
                return r
            order.pop()
        return None

    try:
        r = dfs(frozenset(), dict(initial), [])
    except _Budget:
        return None, True, False
    return r, False, False


class _Budget(Exception):
    pass


def snapshot_states(txns_by_id: dict, initial: dict, commit_order: list[int]) -> list[dict]:
    """Committed states S_0..S_n in commit-application order."""
    states = [dict(initial)]
    for tid in commit_order:
        s = dict(states[-1])
        for op in txns_by_id[tid]["ops"]:
            if op[0] == "w":
                s[op[1]] = op[2]
        states.append(s)
    return states


def external_reads(t: dict) -> list[tuple]:
    """Reads of a transaction that were not preceded by its own write to the key."""
    own = set()
    out = []
    for op in t["ops"]:
        if op[0] == "w":
            own.add(op[1])
        elif op[1] not in own:
            out.append(op)
    return out

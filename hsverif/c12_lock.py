"""C12 DistributedLock: fencing tokens strictly increase across all grants of one manager, in grant-time order
(across lock names; a re-entrant acquire returning the holder's unchanged token is not a new grant)."""

from __future__ import annotations

import random

from hsverif.c12_common import Instant, Simulation, at, run_sim
from hsverif.core import Result, ddmin

from happysimulator.components.consensus.distributed_lock import DistributedLock, LockGrant
from happysimulator.core.event import Event
from happysimulator.core.sim_future import SimFuture

COMP = "DistributedLock"


def gen_lock(rng: random.Random, tier: str) -> dict:
    lease = rng.choice([0.5, 1.0, 5.0])
    nlocks = rng.choice([1, 2, 2, 3, 3])
    nclients = rng.choice([2, 3, 4])
    locks = [f"L{i}" for i in range(nlocks)]
    clients = [f"c{i}" for i in range(nclients)]
    ops = []
    t = 0.1
    for _ in range(rng.choice([5, 10, 20, 40])):
        t += rng.choice([0.0, 0.0, rng.uniform(0, 0.1 * lease), rng.uniform(0, 0.6 * lease), rng.uniform(0.9 * lease, 2.5 * lease), lease])
        kind = rng.choice(["acquire", "acquire", "acquire", "try", "release", "release", "release_stale", "release_bogus"])
        ops.append(
            {
                "t": round(t, 6),
                "op": kind,
                "lock": rng.choice(locks),
                "who": rng.choice(clients),
                "via": rng.choice(["call", "call", "event"]),
            }
        )
    return {"lease": lease, "max_waiters": rng.choice([0, 0, 1, 2]), "ops": ops, "end": round(t + 3 * lease, 6)}


def shrink_lock(case: dict, still_fails) -> dict:
    ops = ddmin(case["ops"], lambda o: still_fails({**case, "ops": o}), max_tests=150)
    return {**case, "ops": ops}


def run_lock(case: dict) -> Result:
    res = Result()
    lock = DistributedLock(name="lockmgr", lease_duration=case["lease"], max_waiters=case["max_waiters"])
    sim = Simulation(entities=[lock], end_time=Instant.from_seconds(case["end"]))
    pending: list = []  # [future, lock, who, how-requested, done?]
    last_token: dict = {}  # lock name -> highest token granted so far
    grants: list = []  # (t, lock, holder, token, how)
    my_tokens: dict = {}  # (lock, who) -> [tokens granted, oldest first]
    scheduled: set = set()
    cause = {"last": "start"}
    flagged: set = set()
    lock_names = sorted({o["lock"] for o in case["ops"]})
    state_seen: dict = {}  # lock -> (holder, token) last sampled from the public getters

    def observe(g, how, now):
        """A grant returned to a client."""
        if not isinstance(g, LockGrant):
            return
        res.count("grants_checked")
        prev = last_token.get(g.lock_name)
        prev_all = max(last_token.values(), default=None)  # manager-wide: highest token handed out so far, any lock name
        mine = my_tokens.setdefault((g.lock_name, g.holder), [])
        if mine and mine[-1] == g.fencing_token and prev == g.fencing_token:
            res.count("reentrant_grants")
            grants.append((now, g.lock_name, g.holder, g.fencing_token, "re-entrant:" + how))
            return
        grants.append((now, g.lock_name, g.holder, g.fencing_token, how))
        if prev_all is not None and g.fencing_token <= prev_all:
            other_name = prev is None or g.fencing_token > prev
            key = how + ("/below-a-later-grant-of-another-lock-name" if other_name else "")
            how = key
            if key not in flagged:
                flagged.add(key)
                res.add(
                    "token-monotonic",
                    COMP,
                    how,
                    f"lock {g.lock_name}: grant to {g.holder} carries token {g.fencing_token}; an earlier grant of this manager carried {prev_all} "
                    f"(highest earlier token for this lock name: {prev})",
                    {"grants": grants[-30:]},
                )
        last_token[g.lock_name] = max(prev or 0, g.fencing_token)
        mine.append(g.fencing_token)

    def pick_up_expiry():
        # The component hands its lease-expiry event to the caller through `_pending_expiry`
        # (see tests/integration/consensus/test_consensus_distributed_lock.py); schedule each one once.
        ev = getattr(lock, "_pending_expiry", None)
        if ev is not None and id(ev) not in scheduled:
            scheduled.add(id(ev))
            return ev
        return None

    def drain(now):
        for rec in pending:
            fut, lname, who, how, done, _imm = rec
            if done[0] or not fut.is_resolved:
                continue
            done[0] = True
            v = fut.value
            if v is None:
                res.count("rejections")
            else:
                observe(v, how if rec[5][0] else f"granted-on-{cause['last']}", now)

    def hook(ev):
        now = ev.time.to_seconds()
        if ev.target is lock:
            if ev.event_type == "LockLeaseExpiry":
                cause["last"] = "expiry"
                res.count("expiry_events")
            elif ev.event_type == "LockReleaseRequest":
                cause["last"] = "release"
            elif ev.event_type == "LockAcquireRequest":
                cause["last"] = "acquire-request"
        drain(now)
        # second oracle on the public getters: the token of a lock's current holder never goes down
        for lname in lock_names:
            tok = lock.get_fencing_token(lname)
            if tok is not None:
                prev = state_seen.get(lname)
                if prev is not None and tok < prev and "state" not in flagged:
                    flagged.add("state")
                    res.add("token-monotonic", COMP, "get_fencing_token-decreased", f"lock {lname}: get_fencing_token went from {prev} to {tok}", {"grants": grants[-30:]})
                state_seen[lname] = tok if prev is None else max(prev, tok)
        nxt = pick_up_expiry()
        if nxt is not None:
            sim.schedule(nxt)

    for i, op in enumerate(case["ops"]):

        def do(ev, op=op):
            now = ev.time.to_seconds()
            lname, who = op["lock"], op["who"]
            out = []
            if op["op"] == "acquire":
                if op["via"] == "call":
                    fut = lock.acquire(lname, who)
                    immediate = fut.is_resolved
                    pending.append([fut, lname, who, "acquire-immediate", [False], [immediate]])
                else:
                    reply = SimFuture()
                    pending.append([reply, lname, who, "acquire-by-event", [False], [False]])
                    out.append(
                        Event(
                            time=ev.time,
                            event_type="LockAcquireRequest",
                            target=lock,
                            context={"metadata": {"lock_name": lname, "requester": who}, "reply_future": reply},
                        )
                    )
            elif op["op"] == "try":
                g = lock.try_acquire(lname, who)
                if g is not None:
                    observe(g, "try_acquire", now)
            else:
                toks = my_tokens.get((lname, who), [])
                if op["op"] == "release":
                    tok = toks[-1] if toks else None
                elif op["op"] == "release_stale":
                    tok = toks[0] if toks else 0
                else:
                    tok = 10**6
                if tok is not None:
                    cause["last"] = "release"
                    if op["via"] == "call":
                        if lock.release(lname, tok):
                            res.count("releases")
                    else:
                        out.append(
                            Event(
                                time=ev.time,
                                event_type="LockReleaseRequest",
                                target=lock,
                                context={"metadata": {"lock_name": lname, "fencing_token": tok}},
                            )
                        )
            drain(now)
            nxt = pick_up_expiry()
            if nxt is not None:
                out.append(nxt)
            return out or None

        sim.schedule(at(op["t"], "drv-lock-op", do))
    sim.control.on_event(hook)
    status = run_sim(sim, res)
    if status != "completed":
        return res
    res.count("ops", len(case["ops"]))
    distinct_holders = {(g[1], g[2]) for g in grants}
    woken = [g for g in grants if g[4] in ("granted-on-release", "granted-on-expiry")]
    # non-trivial: a lock changed hands at least twice, at least once by waking a waiter or after an expiry
    res.nontrivial = len(grants) >= 3 and len(distinct_holders) >= 2 and (bool(woken) or res.obs.get("expiry_events", 0) > 0)
    if woken:
        res.count("grants_to_woken_waiters", len(woken))
    return res

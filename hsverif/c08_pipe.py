"""C08 layer (b): tagged requests through real queue-fronted components inside real simulations.

A case (JSON) describes one stage or a small topology, the arrival list
(unique ids, instants in ticks of 125 ms so that float <-> ns is exact, hop
counts, pre-run or run-created), service times and, where the component has
one, its own schedule (shifts, gate windows, limit changes).

Monitors read public attributes only, after every delivery
(`sim.control.on_event`) and at the end of every instant
(`sim.control.on_time_advance`, plus once after the run returned):

  ledger      every offered id is exactly one of rejected-and-counted / waiting /
              in service / completed once, and the component's public counters
              agree with the ledger
  limit       work in service never above the limit (sampled after every delivery)
  stranded    end of instant: an item waits while the worker reports free capacity for it
  order       pops follow the policy's reference model (RecordingPolicy -> PolicyAudit),
              start times are monotone in pop order, built-in FIFO buffers stay FIFO
"""

from __future__ import annotations

import random

from hsverif.core import Result, ensure_repo_on_path

ensure_repo_on_path()

from happysimulator.components.industrial.batch_processor import BatchProcessor  # noqa: E402
from happysimulator.components.industrial.conveyor import ConveyorBelt  # noqa: E402
from happysimulator.components.industrial.gate_controller import GateController  # noqa: E402
from happysimulator.components.industrial.pooled_cycle import PooledCycleResource  # noqa: E402
from happysimulator.components.industrial.reneging import RenegingQueuedResource  # noqa: E402
from happysimulator.components.industrial.shift_schedule import Shift, ShiftedServer, ShiftSchedule  # noqa: E402
from happysimulator.components.queue import Queue  # noqa: E402
from happysimulator.components.queue_driver import QueueDriver  # noqa: E402
from happysimulator.components.queued_resource import QueuedResource  # noqa: E402
from happysimulator.components.random_router import RandomRouter  # noqa: E402
from happysimulator.components.server.concurrency import DynamicConcurrency, FixedConcurrency, WeightedConcurrency  # noqa: E402
from happysimulator.components.server.server import Server  # noqa: E402
from happysimulator.components.server.thread_pool import ThreadPool  # noqa: E402
from happysimulator.core.entity import Entity  # noqa: E402
from happysimulator.core.event import Event, ProcessContinuation  # noqa: E402
from happysimulator.core.simulation import Simulation  # noqa: E402
from happysimulator.core.temporal import Duration, Instant  # noqa: E402
from happysimulator.distributions.latency_distribution import LatencyDistribution  # noqa: E402

from hsverif.c08_policy import PolicyAudit, RecordingPolicy, build_policy, class_name, gen_spec  # noqa: E402
from hsverif.probe import EngineProbe  # noqa: E402

TICK_NS = 125_000_000
TICK_S = 0.125

QR_KINDS = ("server", "threadpool", "userqr", "rawqueue", "shifted", "reneging")
OTHER_KINDS = ("pooled", "batch", "conveyor", "gate")


def ns(ticks) -> int:
    return int(ticks) * TICK_NS


def tag_of(event):
    md = event.context.get("metadata") if event.context else None
    return None if md is None else md.get("id")


# --------------------------------------------------------------------------
# harness entities


class Sink(Entity):
    def __init__(self, name="sink"):
        super().__init__(name)
        self.log: list[tuple] = []

    def handle_event(self, event):
        self.log.append((tag_of(event), self.now.nanoseconds))
        return []


class Relay(Entity):
    """One zero-delay hop (a router with one route)."""

    def __init__(self, name, nxt):
        super().__init__(name)
        self.nxt = nxt

    def handle_event(self, event):
        return [self.forward(event, self.nxt)]


class Injector(Entity):
    """Turns a pre-run trigger into run-created arrivals at the same instant."""

    def __init__(self, name="inj"):
        super().__init__(name)

    def handle_event(self, event):
        out = []
        for tgt, ctx in event.context["emit"]:
            out.append(Event(time=self.now, event_type="Req", target=tgt, context=ctx))
        return out


class Null(Entity):
    def handle_event(self, event):
        return []


class Caller(Entity):
    """Runs a harness callback inside the simulation (limit changes, gate commands)."""

    def __init__(self, name="caller"):
        super().__init__(name)

    def handle_event(self, event):
        h = event.context.get("hops", 0)
        if h > 0:
            return [Event(time=self.now, event_type=event.event_type, target=self, context={"fn": event.context["fn"], "hops": h - 1})]
        r = event.context["fn"]()
        return r if isinstance(r, list) else []


class ScriptedLatency(LatencyDistribution):
    def __init__(self, ticks: list[int]):
        super().__init__(0.0)
        self.ticks = list(ticks) or [1]
        self.i = 0

    def get_latency(self, current_time):
        v = self.ticks[self.i % len(self.ticks)]
        self.i += 1
        return Duration(ns(v))


class _InFlight:
    """Worker-side bookkeeping owned by the harness (it *is* the user's code here)."""

    def __init__(self, limit):
        self.limit = limit
        self.in_flight = 0
        self.max_in_flight = 0
        self.over = []  # (ns, in_flight) whenever a start pushed in_flight above the limit
        self.last_immediate = None  # id of an item that started and finished inside one delivery

    def start(self, now_ns):
        self.in_flight += 1
        self.max_in_flight = max(self.max_in_flight, self.in_flight)
        if self.in_flight > self.limit:
            self.over.append((now_ns, self.in_flight))

    def finish(self):
        self.in_flight -= 1


class UserQR(QueuedResource):
    """What the QueuedResource docs tell users to write: has_capacity on an in-flight counter."""

    def __init__(self, name, limit, policy, downstream, svc_ticks):
        super().__init__(name, policy=policy)
        self.w = _InFlight(limit)
        self.downstream = downstream
        self.svc = list(svc_ticks) or [1]
        self.k = 0

    def has_capacity(self) -> bool:
        return self.w.in_flight < self.w.limit

    def handle_queued_event(self, event):
        self.w.start(self.now.nanoseconds)
        d = self.svc[self.k % len(self.svc)]
        self.k += 1
        yield d * TICK_S
        self.w.finish()
        return [self.forward(event, self.downstream)]


class RawWorker(Entity):
    """Worker behind a bare Queue + QueueDriver."""

    def __init__(self, name, limit, downstream, svc_ticks, immediate=False):
        super().__init__(name)
        self.w = _InFlight(limit)
        self.downstream = downstream
        self.svc = list(svc_ticks) or [1]
        self.k = 0
        self.immediate = immediate

    def has_capacity(self) -> bool:
        return self.w.in_flight < self.w.limit

    def handle_event(self, event):
        d = self.svc[self.k % len(self.svc)]
        self.k += 1
        if self.immediate and d == 0:
            # plain (non-generator) handler: start and finish in one delivery
            self.w.start(self.now.nanoseconds)
            self.w.finish()
            self.w.last_immediate = tag_of(event)
            return [self.forward(event, self.downstream)]
        return self._work(event, d)

    def _work(self, event, d):
        self.w.start(self.now.nanoseconds)
        yield d * TICK_S
        self.w.finish()
        return [self.forward(event, self.downstream)]


class UserReneging(RenegingQueuedResource):
    def __init__(self, name, limit, policy, downstream, reneged_target, svc_ticks, default_patience_s):
        super().__init__(name, reneged_target=reneged_target, default_patience_s=default_patience_s, policy=policy)
        self.w = _InFlight(limit)
        self.downstream = downstream
        self.svc = list(svc_ticks) or [1]
        self.k = 0

    def has_capacity(self) -> bool:
        return self.w.in_flight < self.w.limit

    def _handle_served_event(self, event):
        self.w.start(self.now.nanoseconds)
        d = self.svc[self.k % len(self.svc)]
        self.k += 1
        yield d * TICK_S
        self.w.finish()
        return [self.forward(event, self.downstream)]


# --------------------------------------------------------------------------
# hub: collects violations and dispatches deliveries to stage monitors


class Hub:
    def __init__(self, res: Result, case: dict):
        self.res = res
        self.case = case
        self.mons: list = []
        self.dispatch: dict[int, list] = {}
        self.base_ns = int(case.get("base_ns", 0))  # clock origin (Simulation start_time)
        self.cur_ns = self.base_ns
        self._seen: set = set()
        self.n_instants = 0
        self.n_deliveries = 0
        self.hops_at: dict[int, set] = {}  # ns -> hop counts of offers delivered to a front
        self.arrival = {a["id"]: a for a in case.get("arrivals", [])}
        self.live: dict = {}  # id -> (event object most recently offered to a queue-fronted stage, its monitor)
        self.pending: dict = {}  # id -> pre-run arrival event not delivered yet (direct arrivals only)
        self.reoffer_fronts: set = set()  # entities that legitimately deliver an id to themselves again (PooledCycleResource)

    def bind(self, entity, mon, role):
        self.dispatch.setdefault(id(entity), []).append((mon, role))

    def add(self, oracle, component, shape, detail, witness=None):
        key = (oracle, component, shape)
        if key in self._seen:
            return
        self._seen.add(key)
        self.res.add(oracle, component, shape, detail, witness)

    def cancel(self, iid):
        """The sender gives up on request `iid`: Event.cancel() on the object it handed over."""
        ent = self.live.get(iid)
        if ent is None:
            ev = self.pending.get(iid)
            if ev is not None:
                ev.cancel()
                self.res.count("cancels_before_arrival")
            return []
        ev, mon = ent
        st = mon.state.get(iid)
        if st in ("WAIT", "POPPED"):
            mon.cancel_called[iid] = st  # client boundary: the sender called cancel() while the item was queued
        if st == "WAIT":
            head = mon.rp.inner.peek()
            self.res.count("cancels_while_waiting_at_head" if head is ev else "cancels_while_waiting_behind_head")
        elif st == "POPPED":
            self.res.count("cancels_while_in_handoff")
        else:
            self.res.count("cancels_after_start_or_refusal")
        ev.cancel()
        return []

    def on_event(self, ev):
        self.n_deliveries += 1
        t = ev.time.nanoseconds
        self.cur_ns = t
        lst = self.dispatch.get(id(ev.target))
        if lst:
            cont = isinstance(ev, ProcessContinuation)
            for mon, role in lst:
                mon.on_delivery(role, ev, cont, t)
        for mon in self.mons:
            mon.sample(t)

    def on_advance(self, new_time):
        self.n_instants += 1
        new_ns = new_time.nanoseconds
        for mon in self.mons:
            mon.end_of_instant(self.cur_ns, new_ns, False)
        self.cur_ns = new_ns

    def finish(self):
        for mon in self.mons:
            mon.end_of_instant(self.cur_ns, None, True)


# --------------------------------------------------------------------------
# queue + driver based stages


class QRMon:
    """Ledger for Server / ThreadPool / user QueuedResource / bare Queue+Driver / ShiftedServer / Reneging.

    Per-id states: REJ (push refused, counted by the queue) | WAIT | POPPED (left the queue,
    hand-off to the worker in progress) | START (in service) | FIN (service finished, completion
    event on its way downstream) | DONE | REJ2 (worker refused after dequeue, counted) | RENEGED.
    """

    STATES = ("REJ", "WAIT", "POPPED", "START", "FIN", "DONE", "REJ2", "RENEGED", "WITHDRAWN")

    def __init__(self, hub: Hub, name: str, spec: dict, down: Entity):
        self.hub = hub
        self.name = name
        self.spec = spec
        self.kind = spec["kind"]
        self.down = down
        self.state: dict = {}
        self.n = dict.fromkeys(self.STATES, 0)
        self.weight: dict = {}
        self.offers = 0
        self.pushes = 0
        self.pop_order: list = []
        self.start_ns: dict = {}
        self.last_start_ns = None
        self.starts_this_instant = 0
        self.limit_at_last_pop = None
        self.limit_raised_since_pop = False
        self.limit_drop_ns = None  # instant at which the limit last went down (window edge: ties are not judged)
        self.max_wait_with_limit2 = 0
        self.weighted = spec.get("model") == "weighted"
        self.varying = spec.get("model") == "dynamic" or self.kind == "shifted"
        self.hw = None
        self.overcommitted: set = set()
        self.ev: dict = {}  # id -> the event object this stage's queue holds / held
        self.cancel_called: dict = {}  # id -> ledger state at the moment its sender called cancel()
        self.polled_while_full: set = set()
        self.over_reported = False
        self.rsink = None
        self.sched = None
        self.driver = None
        self._build()
        hub.mons.append(self)
        hub.bind(self.front, self, "front")
        hub.bind(self.worker, self, "worker")
        if self.down is not None:
            hub.bind(self.down, self, "down")
        self.prev = self._counters()

    # ---- construction of the real component
    def _build(self):
        s = self.spec
        name = self.name
        holder = {}
        now_ns = lambda: holder["front"].now.nanoseconds  # noqa: E731
        clock = lambda: holder["front"].now  # noqa: E731
        real = build_policy(s["policy"], clock)
        self.audit = PolicyAudit(s["policy"], real)
        self.rp = RecordingPolicy(real, self.audit, now_ns, self._policy_event)
        svc = s.get("svc", [1])
        lim = s.get("limit", 1)
        k = self.kind
        self.f_rej2 = None
        self.f_completed = None
        if k == "server":
            m = s.get("model", "int")
            if m == "int":
                conc = lim
            elif m == "fixed":
                conc = FixedConcurrency(lim)
            elif m == "dynamic":
                conc = DynamicConcurrency(initial=lim, min_limit=1, max_limit=None)
            else:
                conc = WeightedConcurrency(lim)
            c = Server(name, concurrency=conc, service_time=ScriptedLatency(svc), queue_policy=self.rp, downstream=self.down)
            self.comp, self.front, self.worker, self.queue = c, c, c.worker, c.queue
            self.cls = "Server"
            self.f_limit = lambda: c.concurrency
            self.f_active = lambda: c.active_requests
            self.f_hascap = lambda w=1: c.has_capacity(w)
            self.f_rej2 = lambda: c.stats.requests_rejected
            self.f_completed = lambda: c.stats.requests_completed
        elif k == "threadpool":
            c = ThreadPool(name, num_workers=lim, queue_policy=self.rp)
            self.comp, self.front, self.worker, self.queue = c, c, c.worker, c.queue
            self.cls = "ThreadPool"
            self.f_limit = lambda: c.num_workers
            self.f_active = lambda: c.active_workers
            self.f_hascap = lambda w=1: c.has_capacity()
            self.f_rej2 = lambda: c.stats.tasks_rejected
            self.f_completed = lambda: c.stats.tasks_completed
        elif k == "userqr":
            c = UserQR(name, lim, self.rp, self.down, svc)
            self.comp, self.front, self.worker, self.queue = c, c, c.worker, c.queue
            self.cls = "QueuedResource"
            self._harness_worker(c.w, c.has_capacity)
        elif k == "rawqueue":
            w = RawWorker(name + ".w", lim, self.down, svc, immediate=s.get("immediate", False))
            q = Queue(name=name + ".q", egress=None, policy=self.rp)
            d = QueueDriver(name=name + ".d", queue=q, target=w)
            q.egress = d
            self.comp, self.front, self.worker, self.queue, self.driver = q, q, w, q, d
            self.cls = "QueueDriver"
            self._harness_worker(w.w, w.has_capacity)
        elif k == "shifted":
            shifts = [Shift(a * TICK_S, b * TICK_S, c_) for a, b, c_ in s["shifts"]]
            self.sched = ShiftSchedule(shifts, default_capacity=s.get("default_cap", 0))
            c = ShiftedServer(name, self.sched, service_time=svc[0] * TICK_S, downstream=self.down, policy=self.rp)
            self.comp, self.front, self.worker, self.queue = c, c, c.worker, c.queue
            self.cls = "ShiftedServer"
            self.f_limit = lambda: c.current_capacity
            self.f_active = None
            self.f_hascap = lambda w=1: c.has_capacity()
            self.f_completed = lambda: c.processed
        elif k == "reneging":
            self.rsink = Sink(name + ".reneged")
            self.hub.bind(self.rsink, self, "reneged")
            dp = s.get("default_patience")
            c = UserReneging(name, lim, self.rp, self.down, self.rsink, svc, float("inf") if dp is None else dp * TICK_S)
            self.comp, self.front, self.worker, self.queue = c, c, c.worker, c.queue
            self.cls = "RenegingQueuedResource"
            self._harness_worker(c.w, c.has_capacity)
        else:
            raise KeyError(k)
        holder["front"] = self.front
        if self.queue.policy is not self.rp:
            # the component threw the configured policy away (e.g. `policy or FIFOQueue()` on an empty,
            # hence falsy, policy object): order and capacity of the configured policy are not honoured
            got = type(self.queue.policy).__name__
            self.hub.add(
                "order",
                self.cls,
                "configured-policy-discarded-at-construction",
                f"{self.cls}(policy=<{self.audit.comp}>) queues with a fresh {got} instead of the policy it was given",
                {"configured": s["policy"], "installed": got},
            )
            self.hub.res.count("configured_policy_discarded")
            self.queue.policy = self.rp  # keep monitoring with the policy the case asked for

    def _harness_worker(self, w: _InFlight, hascap):
        self.hw = w
        self.f_limit = lambda: w.limit
        self.f_active = lambda: w.in_flight
        self.f_hascap = lambda wt=1: hascap()

    def entities(self):
        out = [self.front]
        if self.kind == "rawqueue":
            out += [self.driver, self.worker]
        if self.rsink is not None:
            out.append(self.rsink)
        return out

    # ---- observations
    def _counters(self):
        return (
            self.queue.depth,
            self.queue.stats_accepted,
            self.queue.stats_dropped,
            self.f_active() if self.f_active else None,
            self.f_rej2() if self.f_rej2 else 0,
            self.f_completed() if self.f_completed else None,
            self.comp.reneged if self.kind == "reneging" else 0,
            self.f_limit(),
        )

    def _set(self, iid, new, allowed, t, what):
        old = self.state.get(iid)
        if old not in allowed:
            oracle = "completed-twice" if (what == "completed" and old == "DONE") else "ledger"
            self.hub.add(
                oracle, self.cls, f"{what}-from-{old or 'unknown'}", f"id {iid}: {what} at t={t}ns while ledger state was {old}", {"id": iid, "t_ns": t}
            )
            if old is None or old == "DONE":
                return False
        self.n[old] -= 1
        self.state[iid] = new
        self.n[new] += 1
        return True

    def _policy_event(self, what, iid, extra):
        t = self.hub.cur_ns
        if what == "push":
            self.pushes += 1
            if iid in self.state:
                self.hub.add("ledger", self.cls, "offered-twice", f"id {iid} pushed again (state {self.state[iid]})")
                return
            self.state[iid] = "WAIT" if extra else "REJ"
            self.n[self.state[iid]] += 1
        elif what == "pop" and iid is not None:
            # over-commit: the poll behind this dequeue was decided on a stale has_capacity() (an earlier
            # dequeued item had not reached the worker yet); by now items in service + items in
            # hand-off + this one exceed the limit
            act = self.f_active() if self.f_active else self._in_service()
            if act + self.n["POPPED"] + 1 > self.f_limit():
                # stale poll = some other hand-off was under way at this very instant (an item still in
                # hand-off, or one that started at this instant after the poll was decided); a dequeue
                # for a worker that has simply been full since an earlier instant is a different defect
                if self.n["POPPED"] >= 1 or self.last_start_ns == t:
                    self.overcommitted.add(iid)
                    self.hub.res.count("overcommitted_dequeues")
                else:
                    self.polled_while_full.add(iid)
            self._set(iid, "POPPED", ("WAIT",), t, "popped")
            self.pop_order.append(iid)
            self.limit_at_last_pop = self.f_limit()
            self.limit_raised_since_pop = False

    def on_delivery(self, role, ev, cont, t):
        iid = tag_of(ev)
        if role == "front":
            if cont or iid is None or ev.event_type != "Req":
                return
            self.offers += 1
            md = ev.context["metadata"]
            self.ev[iid] = ev
            self.hub.live[iid] = (ev, self)
            self.hub.pending.pop(iid, None)
            self.weight[iid] = md.get("weight", 1) if self.weighted else 1
            self.hub.hops_at.setdefault(t, set()).add(md.get("hops", 0))
        elif role == "worker":
            if iid is None:
                return
            c = self._counters()
            p = self.prev
            if not cont:
                if c[4] > p[4]:
                    self._set(iid, "REJ2", ("POPPED",), t, "rejected-after-dequeue")
                    self.hub.res.count("rejected_after_dequeue")
                elif c[6] > p[6]:
                    self._set(iid, "RENEGED", ("POPPED",), t, "reneged")
                    self._check_patience(iid, t, True)
                elif self._set(iid, "START", ("POPPED",), t, "started"):
                    self.start_ns[iid] = t
                    if iid in self.cancel_called:
                        was = "waiting in the queue" if self.cancel_called[iid] == "WAIT" else "in the dequeue->worker hand-off"
                        self.hub.add(
                            "ledger",
                            self.cls,
                            "cancelled-while-queued-item-started-service",
                            f"id {iid}: its sender called Event.cancel() while it was {was} (cancelled={ev.cancelled} now), yet it reached the worker and started at t={t}ns",
                            {"id": iid, "t_ns": t},
                        )
                    if self.kind == "reneging":
                        self._check_patience(iid, t, False)
                    self._check_start(iid, t, c)
                    if self.hw is not None and self.hw.last_immediate == iid:
                        self._set(iid, "FIN", ("START",), t, "finished")
            elif self.state.get(iid) == "START":
                fin = (c[5] is not None and c[5] > p[5]) or (c[5] is None and c[3] is not None and c[3] < p[3])
                if fin:
                    self._set(iid, "DONE" if self.down is None else "FIN", ("START",), t, "finished")
        elif role == "down":
            if cont or iid is None:
                return
            if iid in self.state:
                if self.state[iid] == "DONE" and id(ev.target) in self.hub.reoffer_fronts:
                    return  # the downstream pool re-offering a queued item to itself, not a second completion
                self._set(iid, "DONE", ("FIN", "START"), t, "completed")
        elif role == "reneged":
            if iid is not None and self.state.get(iid) != "RENEGED":
                self.hub.add("ledger", self.cls, "reneged-event-without-count", f"id {iid} state {self.state.get(iid)}")

    def _check_patience(self, iid, t, reneged):
        """RenegingQueuedResource's own rule: an item reneges iff it waited longer than its patience."""
        a = self.hub.arrival.get(iid)
        if a is None or self.hub.case.get("topo", "single") != "single":
            return
        pat = a.get("patience")
        if pat is None:
            pat = self.spec.get("default_patience")
        waited = t - (self.hub.base_ns + ns(a["t"]))
        should = pat is not None and waited > ns(pat)
        self.hub.res.count("patience_checks")
        if should != reneged:
            self.hub.add(
                "ledger",
                self.cls,
                "reneged-within-patience" if reneged else "served-beyond-patience",
                f"id {iid} waited {waited}ns with patience {pat} ticks and was {'reneged' if reneged else 'served'}",
            )

    def _in_service(self) -> int:
        if self.weighted:
            return sum(self.weight.get(i, 1) for i, s in self.state.items() if s == "START")
        return self.n["START"]

    def _check_start(self, iid, t, c):
        lim = c[7]
        ins = self._in_service()
        if self.last_start_ns == t:
            self.starts_this_instant += 1
        else:
            self.starts_this_instant = 1
        self.last_start_ns = t
        self.hub.res.count("starts_checked")
        act = c[3]
        over = None
        if self.limit_drop_ns == t:
            pass  # the limit went down at this very instant: poll-vs-change order is a tie, not judged
        elif act is not None and act > lim:
            over = act
        elif act is None and ins > lim:
            over = ins
        if over is not None:
            if iid in self.overcommitted:
                shape = "dequeue-beyond-free-capacity-after-stale-poll"
            elif iid in self.polled_while_full:
                shape = "dequeued-for-a-worker-that-was-already-full"
            else:
                shape = "same-instant-starts" if self.starts_this_instant > 1 else "start-while-full"
            self.over_reported = True
            comp = "QueueDriver" if iid in self.overcommitted else self.cls
            self.hub.add("over-admission", comp, shape, f"[{self.cls}] in service {over} > limit {lim} after id {iid} started at t={t}ns", {"t_ns": t})
        if self.sched is not None:
            t_s = t / 1e9
            edge = any(abs(t_s - x) < 1e-12 for x in self.sched.transition_times())
            want = self.sched.capacity_at(t_s)
            if not edge and ins > want and over is None:
                self.hub.add(
                    "over-admission",
                    self.cls,
                    "start-above-scheduled-capacity" + ("-stale-current-capacity" if self.comp.current_capacity != want else ""),
                    f"id {iid} started at t={t}ns with {ins} in service; schedule allows {want}, current_capacity={self.comp.current_capacity}",
                    {"t_ns": t},
                )

    def sample(self, t):
        c = self._counters()
        p = self.prev
        self.prev = c
        if c[7] > p[7]:
            self.limit_raised_since_pop = True
        elif c[7] < p[7]:
            self.limit_drop_ns = t
        act, lim = c[3], c[7]
        if act is not None and p[3] is not None and act > p[3] and act > lim and not self.over_reported and self.limit_drop_ns != t:
            self.over_reported = True
            self.hub.add("over-admission", self.cls, "active-above-limit-after-delivery", f"active {act} > limit {lim} at t={t}ns", {"t_ns": t})

    # ---- end of instant
    def end_of_instant(self, t, new_ns, final):
        hub = self.hub
        hub.res.count("instants_checked")
        c = self._counters()
        depth, accepted, dropped, act, rej2, completed, reneged, lim = c
        n = self.n
        if depth >= 2 and lim >= 2:
            self.max_wait_with_limit2 = max(self.max_wait_with_limit2, depth)
        w = {"t_ns": t, "ledger": {k: v for k, v in n.items() if v}, "counters": list(c)}
        for oracle, shape, detail in self.audit.violations:
            comp = self.audit.order_comp if (oracle in ("order", "peek") and self.audit.order_comp) else self.audit.comp
            hub.add(oracle, comp, "in-pipeline-" + shape, detail, w)
        self.audit.violations.clear()
        if n["POPPED"]:
            # A request its sender cancelled while it waited is still handed out by the queue, the
            # driver forwards it and the engine skips the cancelled event: it never starts.  That is
            # the sender's withdrawal, not lost work.
            for i in [i for i, s in self.state.items() if s == "POPPED"]:
                e = self.ev.get(i)
                if e is not None and e.cancelled:
                    self._set(i, "WITHDRAWN", ("POPPED",), t, "withdrawn")
                    hub.res.count("cancelled_items_dequeued_and_skipped")
        if n["POPPED"]:
            ids = [i for i, s in self.state.items() if s == "POPPED"][:5]
            hub.add("ledger", self.cls, "dequeued-never-started", f"ids {ids} left the queue but never reached the worker by the end of t={t}ns", w)
        if n["FIN"]:
            ids = [i for i, s in self.state.items() if s == "FIN"][:5]
            hub.add("ledger", self.cls, "finished-never-reached-downstream", f"ids {ids} finished service at t={t}ns but nothing arrived downstream", w)
        if self.offers != self.pushes:
            hub.add("ledger", self.cls, "offer-not-enqueued-or-refused", f"offers={self.offers} pushes={self.pushes}", w)
        internal = self.audit.internal_dropped()
        if n["WAIT"] != depth + internal:
            hub.add("ledger", self.cls, "waiting-count-differs-from-depth", f"ledger waiting={n['WAIT']} depth={depth} policy-dropped={internal}", w)
        if n["REJ"] != dropped:
            hub.add("ledger", self.cls, "rejected-not-counted", f"refused pushes={n['REJ']} stats_dropped={dropped}", w)
        if self.pushes - n["REJ"] != accepted:
            hub.add("ledger", self.cls, "accepted-counter", f"accepted pushes={self.pushes - n['REJ']} stats_accepted={accepted}", w)
        ins = self._in_service()
        if act is not None and ins != act:
            hub.add("ledger", self.cls, "in-service-count-differs", f"ledger in service={ins} component reports {act}", w)
        if completed is not None and completed != n["DONE"]:
            hub.add("ledger", self.cls, "completed-counter-differs", f"ledger completed={n['DONE']} component reports {completed}", w)
        if self.f_rej2 and rej2 != n["REJ2"]:
            hub.add("ledger", self.cls, "rejected-after-dequeue-counter", f"ledger={n['REJ2']} component={rej2}", w)
        if self.kind == "reneging" and reneged != n["RENEGED"]:
            hub.add("ledger", self.cls, "reneged-counter", f"ledger={n['RENEGED']} component={reneged}", w)
        if not self.varying and ins > lim and not self.over_reported:
            hub.add("over-admission", self.cls, "in-service-above-limit-at-end-of-instant", f"{ins} > {lim}", w)
        # work conservation
        if depth > 0:
            head = self.rp.inner.peek()
            if head is not None:
                hw = (head.context.get("metadata", {}).get("weight", 1)) if self.weighted else 1
                free = self.f_hascap(hw)
                hub.res.count("conservation_checks")
                sched_free = False
                if self.sched is not None and not free:
                    sched_free = ins < self.sched.capacity_at(t / 1e9)
                live_wait = sum(1 for i, s in self.state.items() if s == "WAIT" and not (i in self.cancel_called or (i in self.ev and self.ev[i].cancelled)))
                if (free or sched_free) and live_wait - internal > 0:
                    raised = self.varying and self.limit_raised_since_pop
                    if sched_free:
                        shape, comp = "scheduled-capacity-free-but-current-capacity-stale", self.cls
                    elif raised:
                        shape, comp = "limit-raised-while-waiting", ("DynamicConcurrency" if self.kind == "server" else self.cls)
                    elif ins >= 1:
                        shape, comp = "burst-partially-idle-worker", "QueueDriver"
                    else:
                        shape, comp = "idle-worker-with-waiting-items", "QueueDriver"
                    if n["WITHDRAWN"] and comp == "QueueDriver":
                        shape += "-after-cancelled-item-dequeued"
                    when = "at quiescence" if final else "time passes"
                    hub.add(
                        "stranded",
                        comp,
                        shape,
                        f"[{self.cls}] {when}: depth={depth}, in service {ins}/{lim}, "
                        + ("the schedule allows more at" if sched_free else "worker reports free capacity at")
                        + f" the end of t={t}ns"
                        + (f" (next instant {new_ns}ns)" if new_ns is not None else ""),
                        w,
                    )

    def nontrivial(self):
        return self.max_wait_with_limit2 >= 2


# --------------------------------------------------------------------------
# components with a built-in buffer


class _CounterMon:
    """Shared: classify each delivery by the public counter that moved."""

    cls = "?"

    def __init__(self, hub, name, down):
        self.hub = hub
        self.name = name
        self.down = down
        self.state: dict = {}
        self.offers = 0
        self.accepted_order: list = []
        self.done_order: list = []
        self.order_ok = True
        hub.mons.append(self)

    def _bind(self):
        self.front = self.comp
        self.hub.bind(self.comp, self, "front")
        self.hub.bind(self.down, self, "down")
        self.prev = self._counters()

    def entities(self):
        return [self.comp]

    def sample(self, t):
        self.prev = self._counters()

    def _count(self, st):
        return sum(1 for s in self.state.values() if s == st)

    def _offer(self, iid, ev, t):
        self.offers += 1
        self.hub.hops_at.setdefault(t, set()).add(ev.context["metadata"].get("hops", 0))

    def _done(self, iid, t, fifo=True, ev=None):
        old = self.state.get(iid)
        if old is None:
            return
        if old == "DONE" and ev is not None and id(ev.target) in self.hub.reoffer_fronts:
            return  # the downstream pool re-offering a queued item to itself, not a second completion
        if old == "DONE":
            self.hub.add("completed-twice", self.cls, "completed-from-DONE", f"id {iid} reached downstream twice (t={t}ns)")
            return
        if old not in ("START", "FIN"):
            self.hub.add("ledger", self.cls, f"completed-from-{old}", f"id {iid} reached downstream at t={t}ns while ledger state was {old}")
        self.state[iid] = "DONE"
        self.done_order.append(iid)
        if fifo and self.order_ok:
            k = len(self.done_order) - 1
            if k >= len(self.accepted_order) or self.accepted_order[k] != iid:
                self.order_ok = False
                want = self.accepted_order[k] if k < len(self.accepted_order) else None
                self.hub.add("order", self.cls, "downstream-order-differs-from-arrival-order", f"id {iid} left at t={t}ns, expected id {want}")

    def nontrivial(self):
        return False


class PooledMon(_CounterMon):
    """PooledCycleResource: FIFO wait queue in front of `pool_size` units.

    The component pops its queue head inside a finishing cycle and re-offers it to itself as a
    new event; that id is REOFFER until the re-offer is delivered.
    """

    cls = "PooledCycleResource"

    def __init__(self, hub, name, spec, down):
        super().__init__(hub, name, down)
        self.spec = spec
        self.comp = PooledCycleResource(name, pool_size=spec["limit"], cycle_time=spec["svc"][0] * TICK_S, downstream=down, queue_capacity=spec.get("qcap", 0))
        self.qview: list = []  # ids in the wait queue, in the order they joined
        self.first_pos: dict = {}  # id -> sequence number of first time it queued
        self.requeued: set = set()
        self.max_wait = 0
        self._bind()
        hub.reoffer_fronts.add(id(self.comp))

    def _counters(self):
        c = self.comp
        return (c.active, c.queued, c.rejected, c.completed, c.available)

    def on_delivery(self, role, ev, cont, t):
        iid = tag_of(ev)
        if iid is None:
            return
        if role == "down":
            if not cont:
                self._done(iid, t, fifo=False, ev=ev)
            return
        c, p = self._counters(), self.prev
        hub = self.hub
        st = self.state
        if cont:
            if c[3] > p[3] and st.get(iid) == "START":
                st[iid] = "FIN"
            if c[1] < p[1] and self.qview:
                st[self.qview.pop(0)] = "REOFFER"
            return
        old = st.get(iid)
        if old is None:
            self._offer(iid, ev, t)
        elif old == "WAIT":
            # the component re-offered an id that is not the head of its FIFO queue
            hub.add("order", self.cls, "non-head-item-taken-from-wait-queue", f"id {iid} re-offered at t={t}ns while ids {self.qview[:3]} were ahead")
            if iid in self.qview:
                self.qview.remove(iid)
        elif old != "REOFFER":
            hub.add("ledger", self.cls, f"offered-again-from-{old}", f"id {iid} delivered again at t={t}ns")
        if c[0] > p[0]:
            st[iid] = "START"
            hub.res.count("starts_checked")
            if c[0] > self.comp.pool_size or c[4] < 0:
                hub.add("over-admission", self.cls, "start-while-full", f"active={c[0]} pool={self.comp.pool_size} available={c[4]}")
            if old is None and self.qview:
                # (a head that is being re-offered at this instant is judged when it lands: started = fine)
                stolen = any(v == "REOFFER" for v in st.values())
                hub.add(
                    "order",
                    self.cls,
                    "queue-head-overtaken-by-same-instant-arrival-during-reoffer" if stolen else "arrival-served-ahead-of-queued-items",
                    f"id {iid} arrived at t={t}ns and started at once while ids {self.qview[:4]} were queued"
                    + (" (the freed unit was meant for the queue head, which is in flight back to the pool)" if stolen else ""),
                    {"t_ns": t},
                )
            elif old == "REOFFER":
                pos = self.first_pos.get(iid, -1)
                late = [x for x in self.qview if self.first_pos.get(x, 1 << 60) < pos]
                # an item that was sent to the back by the overtaking above is already reported
                if late and not any(x in self.requeued for x in late):
                    hub.add(
                        "order",
                        self.cls,
                        "queued-item-starts-before-earlier-queued-item",
                        f"id {iid} started at t={t}ns while earlier queued ids {late[:4]} still wait",
                        {"t_ns": t},
                    )
        elif c[1] > p[1]:
            st[iid] = "WAIT"
            self.qview.append(iid)
            if old == "REOFFER":
                self.requeued.add(iid)
                hub.res.count("pooled_requeues")
                self._overtaken(iid, t, "went back to the end of the wait queue")
            else:
                self.first_pos[iid] = len(self.first_pos)
        elif c[2] > p[2]:
            st[iid] = "REJ"
            if old == "REOFFER":
                hub.res.count("pooled_reoffer_rejected")
                self._overtaken(iid, t, "was rejected (wait queue full)")
        else:
            hub.add("ledger", self.cls, "delivery-changed-no-counter", f"id {iid} at t={t}ns: counters {p}->{c}")

    def _overtaken(self, iid, t, what):
        # the head of the FIFO wait queue was taken out for the freed unit, but an arrival delivered
        # at the same instant got the unit first: the head is no longer served in arrival order
        self.hub.add(
            "order",
            self.cls,
            "queue-head-overtaken-by-same-instant-arrival-during-reoffer",
            f"id {iid} was first in the wait queue, was taken out for a freed unit at t={t}ns, lost the unit to a later arrival and {what}",
            {"t_ns": t},
        )

    def end_of_instant(self, t, new_ns, final):
        hub = self.hub
        hub.res.count("instants_checked")
        a, q, rej, comp, avail = self._counters()
        w = {"t_ns": t, "counters": [a, q, rej, comp, avail]}
        if self.comp.pool_size >= 2:
            self.max_wait = max(self.max_wait, q)
        nW, nS, nR, nD, nF, nO = (self._count(s) for s in ("WAIT", "START", "REJ", "DONE", "FIN", "REOFFER"))
        if nF:
            hub.add("ledger", self.cls, "finished-never-reached-downstream", f"{nF} ids", w)
        if nO:
            hub.add("ledger", self.cls, "dequeued-never-started", f"{nO} ids taken from the wait queue are nowhere at the end of t={t}ns", w)
        if nW != q:
            hub.add("ledger", self.cls, "waiting-count-differs-from-depth", f"ledger waiting={nW} queued={q}", w)
        if nS != a:
            hub.add("ledger", self.cls, "in-service-count-differs", f"ledger in service={nS} active={a}", w)
        if nR != rej:
            hub.add("ledger", self.cls, "rejected-not-counted", f"ledger rejected={nR} counter={rej}", w)
        if nD != comp:
            hub.add("ledger", self.cls, "completed-counter-differs", f"ledger completed={nD} counter={comp}", w)
        qcap = self.spec.get("qcap", 0)
        if qcap > 0 and q > qcap:
            hub.add("capacity", self.cls, "wait-queue-above-capacity", f"queued={q} queue_capacity={qcap}", w)
        if a > self.comp.pool_size or a + avail != self.comp.pool_size:
            hub.add("over-admission", self.cls, "units-not-conserved", f"active={a} available={avail} pool={self.comp.pool_size}", w)
        if q > 0:
            hub.res.count("conservation_checks")
            if avail > 0:
                hub.add(
                    "stranded",
                    self.cls,
                    "unit-free-while-items-queued",
                    f"{'at quiescence' if final else 'time passes'}: queued={q} available={avail} at the end of t={t}ns",
                    w,
                )

    def nontrivial(self):
        return self.max_wait >= 2


class BatchMon(_CounterMon):
    """BatchProcessor, checked against its own release rule (full batch or timeout since first item)."""

    cls = "BatchProcessor"

    def __init__(self, hub, name, spec, down):
        super().__init__(hub, name, down)
        self.spec = spec
        self.comp = BatchProcessor(name, downstream=down, batch_size=spec["batch_size"], process_time=spec["svc"][0] * TICK_S, timeout_s=spec.get("timeout", 0) * TICK_S)
        self.buf: list = []
        self.first_ns = None
        self.batches: list = []  # in-process batches, oldest first
        self.max_buf = 0
        self._bind()

    def _counters(self):
        c = self.comp
        return (c.buffer_depth, c.batches_processed, c.items_processed, c.timeouts)

    def _form(self, ids):
        for x in ids:
            self.state[x] = "START"
        self.batches.append(list(ids))
        self.buf = []
        self.first_ns = None
        self.hub.res.count("starts_checked")

    def on_delivery(self, role, ev, cont, t):
        iid = tag_of(ev)
        if role == "down":
            if not cont and iid is not None:
                self._done(iid, t, ev=ev)
            return
        c, p = self._counters(), self.prev
        hub = self.hub
        if cont:
            if c[1] > p[1]:
                if not self.batches:
                    hub.add("ledger", self.cls, "batch-finished-that-never-started", f"t={t}ns")
                    return
                b = self.batches.pop(0)
                if c[2] - p[2] != len(b):
                    hub.add("ledger", self.cls, "items-processed-differs-from-batch", f"batch of {len(b)} counted as {c[2] - p[2]}")
                for x in b:
                    self.state[x] = "FIN"
            return
        if ev.event_type == "_BatchTimeout":
            if c[0] == 0 and p[0] > 0:
                self._form(self.buf)
            return
        if iid is None:
            return
        if iid in self.state:
            hub.add("ledger", self.cls, "offered-twice", f"id {iid}")
            return
        self._offer(iid, ev, t)
        self.accepted_order.append(iid)
        if c[0] == p[0] + 1:
            self.state[iid] = "BUF"
            self.buf.append(iid)
            if len(self.buf) == 1:
                self.first_ns = t
        elif c[0] == 0:
            self._form([*self.buf, iid])
        else:
            hub.add("ledger", self.cls, "delivery-changed-no-counter", f"id {iid} at t={t}ns: counters {p}->{c}")

    def end_of_instant(self, t, new_ns, final):
        hub = self.hub
        hub.res.count("instants_checked")
        depth, nb, ni, nt = self._counters()
        w = {"t_ns": t, "counters": [depth, nb, ni, nt], "batch_size": self.comp.batch_size, "timeout_s": self.comp.timeout_s}
        self.max_buf = max(self.max_buf, depth)
        if self._count("FIN"):
            hub.add("ledger", self.cls, "finished-never-reached-downstream", f"{self._count('FIN')} ids", w)
        if self._count("BUF") != depth:
            hub.add("ledger", self.cls, "waiting-count-differs-from-depth", f"ledger buffered={self._count('BUF')} buffer_depth={depth}", w)
        if self._count("DONE") != ni:
            hub.add("ledger", self.cls, "completed-counter-differs", f"ledger completed={self._count('DONE')} items_processed={ni}", w)
        if depth > 0:
            hub.res.count("conservation_checks")
            tmo = self.comp.timeout_s
            size1 = "-batch-size-1" if self.comp.batch_size == 1 else ""
            if depth >= self.comp.batch_size:
                hub.add(
                    "stranded",
                    self.cls,
                    "full-batch-not-released" + size1 + ("-with-timeout" if tmo > 0 else ""),
                    f"buffer_depth={depth} >= batch_size={self.comp.batch_size} at the end of t={t}ns",
                    w,
                )
            elif tmo > 0 and self.first_ns is not None:
                due = self.first_ns + int(round(tmo * 1e9))
                if (new_ns is not None and new_ns > due + 1000) or (final and True):
                    hub.add(
                        "stranded",
                        self.cls,
                        "partial-batch-held-beyond-timeout",
                        f"first item buffered at {self.first_ns}ns, timeout {tmo}s, still buffered "
                        + ("at quiescence" if final else f"when the clock moves to {new_ns}ns"),
                        w,
                    )

    def nontrivial(self):
        return self.max_buf >= 2


class ConveyorMon(_CounterMon):
    cls = "ConveyorBelt"

    def __init__(self, hub, name, spec, down):
        super().__init__(hub, name, down)
        self.spec = spec
        self.cap = spec.get("cap", 0)
        self.comp = ConveyorBelt(name, downstream=down, transit_time=spec["svc"][0] * TICK_S, capacity=self.cap)
        self.max_transit = 0
        self._bind()

    def _counters(self):
        c = self.comp
        return (c.items_in_transit, c.items_transported, c.items_rejected)

    def on_delivery(self, role, ev, cont, t):
        iid = tag_of(ev)
        if iid is None:
            return
        if role == "down":
            if not cont:
                self._done(iid, t, ev=ev)
            return
        c, p = self._counters(), self.prev
        hub = self.hub
        if cont:
            if c[1] > p[1] and self.state.get(iid) == "START":
                self.state[iid] = "FIN"
            return
        if iid in self.state:
            hub.add("ledger", self.cls, "offered-twice", f"id {iid}")
            return
        self._offer(iid, ev, t)
        if c[0] > p[0]:
            self.state[iid] = "START"
            self.accepted_order.append(iid)
            hub.res.count("starts_checked")
            if self.cap > 0 and c[0] > self.cap:
                hub.add("over-admission", self.cls, "start-while-full", f"in transit {c[0]} > capacity {self.cap} at t={t}ns")
        elif c[2] > p[2]:
            self.state[iid] = "REJ"
        elif c[1] > p[1]:  # zero transit time cannot finish inside the start delivery, but be safe
            self.state[iid] = "FIN"
            self.accepted_order.append(iid)
        else:
            hub.add("ledger", self.cls, "delivery-changed-no-counter", f"id {iid} at t={t}ns: counters {p}->{c}")

    def end_of_instant(self, t, new_ns, final):
        hub = self.hub
        hub.res.count("instants_checked")
        tr, done, rej = self._counters()
        w = {"t_ns": t, "counters": [tr, done, rej]}
        self.max_transit = max(self.max_transit, tr)
        if self._count("FIN"):
            hub.add("ledger", self.cls, "finished-never-reached-downstream", f"{self._count('FIN')} ids", w)
        if self._count("START") != tr:
            hub.add("ledger", self.cls, "in-service-count-differs", f"ledger in transit={self._count('START')} items_in_transit={tr}", w)
        if self._count("REJ") != rej:
            hub.add("ledger", self.cls, "rejected-not-counted", f"ledger rejected={self._count('REJ')} items_rejected={rej}", w)
        if self._count("DONE") != done:
            hub.add("ledger", self.cls, "completed-counter-differs", f"ledger completed={self._count('DONE')} items_transported={done}", w)
        if self.cap > 0 and tr > self.cap:
            hub.add("over-admission", self.cls, "in-service-above-limit-at-end-of-instant", f"{tr} > {self.cap}", w)

    def nontrivial(self):
        return self.max_transit >= 2 and self.cap >= 2


class GateMon(_CounterMon):
    """GateController, checked against its own rule: closed = hold in FIFO order, open = nothing held."""

    cls = "GateController"

    def __init__(self, hub, name, spec, down):
        super().__init__(hub, name, down)
        self.spec = spec
        self.comp = GateController(
            name,
            downstream=down,
            schedule=[(a * TICK_S, b * TICK_S) for a, b in spec.get("schedule", [])],
            initially_open=spec.get("initially_open", True),
            queue_capacity=spec.get("qcap", 0),
        )
        self.held: list = []
        self.max_held = 0
        self._bind()
        # Expected state from the documented schedule, only where it is unambiguous: no open()/close()
        # commands, windows sorted and without positive overlap (touching / zero-length at a
        # boundary are fine: within one (open, close) pair the open is created first).
        wins = [(a, b) for a, b in spec.get("schedule", [])]
        self.sched_wins = None
        if not spec.get("cmds") and wins == sorted(wins) and all(a <= b for a, b in wins):
            ok = True
            for i, (a1, b1) in enumerate(wins):
                for a2, b2 in wins[i + 1 :]:
                    if max(a1, a2) < min(b1, b2):
                        ok = False  # positive overlap
                    if (a1 == b1 and a2 < a1 < b2) or (a2 == b2 and a1 < a2 < b1):
                        ok = False  # zero-length window strictly inside another
            if ok:
                self.sched_wins = [(ns(a), ns(b)) for a, b in wins]

    def _scheduled_open(self, t):
        """(open?, back_to_back?) at the end of instant t according to the schedule."""
        for a, b in self.sched_wins:
            if a <= t < b:
                return True, any(b2 == a and a2 < b2 for a2, b2 in self.sched_wins)
        if all(t < a for a, _ in self.sched_wins):
            return bool(self.spec.get("initially_open", True)) and all(t < b for _, b in self.sched_wins), False
        return False, False

    def _counters(self):
        c = self.comp
        s = c.stats
        return (c.queue_depth, s.passed_through, s.queued_while_closed, s.rejected, s.open_cycles, c.is_open)

    def sample(self, t):
        c, p = self._counters(), self.prev
        self.prev = c
        if c[0] < p[0]:
            # a flush (schedule event or open() called by the harness Caller)
            k = p[0] - c[0]
            if c[1] - p[1] != k:
                self.hub.add("ledger", self.cls, "flush-count-differs", f"queue shrank by {k}, passed_through grew by {c[1] - p[1]}")
            for x in self.held[:k]:
                self.state[x] = "FIN"
            self.held = self.held[k:]

    def on_delivery(self, role, ev, cont, t):
        iid = tag_of(ev)
        if iid is None or cont:
            return
        if role == "down":
            self._done(iid, t, ev=ev)
            return
        c, p = self._counters(), self.prev
        hub = self.hub
        if iid in self.state:
            hub.add("ledger", self.cls, "offered-twice", f"id {iid}")
            return
        self._offer(iid, ev, t)
        if c[0] > p[0]:
            self.state[iid] = "WAIT"
            self.held.append(iid)
            self.accepted_order.append(iid)
        elif c[1] > p[1]:
            self.state[iid] = "FIN"
            self.accepted_order.append(iid)
            hub.res.count("starts_checked")
        elif c[3] > p[3]:
            self.state[iid] = "REJ"
        else:
            hub.add("ledger", self.cls, "delivery-changed-no-counter", f"id {iid} at t={t}ns: counters {p}->{c}")
        self.prev = c  # so that sample() does not read this delivery as a flush

    def end_of_instant(self, t, new_ns, final):
        hub = self.hub
        hub.res.count("instants_checked")
        depth, passed, _qwc, rej, _oc, is_open = self._counters()
        w = {"t_ns": t, "counters": [depth, passed, rej, is_open]}
        self.max_held = max(self.max_held, depth)
        if self._count("FIN"):
            hub.add("ledger", self.cls, "finished-never-reached-downstream", f"{self._count('FIN')} ids", w)
        if self._count("WAIT") != depth:
            hub.add("ledger", self.cls, "waiting-count-differs-from-depth", f"ledger held={self._count('WAIT')} queue_depth={depth}", w)
        if self._count("REJ") != rej:
            hub.add("ledger", self.cls, "rejected-not-counted", f"ledger rejected={self._count('REJ')} counter={rej}", w)
        if self._count("DONE") != passed:
            hub.add("ledger", self.cls, "completed-counter-differs", f"ledger passed={self._count('DONE')} passed_through={passed}", w)
        qcap = self.spec.get("qcap", 0)
        if qcap > 0 and depth > qcap:
            hub.add("capacity", self.cls, "wait-queue-above-capacity", f"queue_depth={depth} queue_capacity={qcap}", w)
        if self.sched_wins is not None:
            want, b2b = self._scheduled_open(t)
            hub.res.count("gate_schedule_checks")
            if b2b:
                hub.res.count("gate_instants_in_back_to_back_window")
            if want and depth > 0:
                hub.add(
                    "stranded",
                    self.cls,
                    "held-inside-scheduled-open-window" + ("-back-to-back-windows" if b2b else ""),
                    f"queue_depth={depth}, is_open={is_open} at the end of t={t}ns although the schedule {self.spec.get('schedule')} (ticks) has the gate open",
                    w,
                )
        if depth > 0:
            hub.res.count("conservation_checks")
            if is_open:
                hub.add("stranded", self.cls, "gate-open-with-held-items", f"queue_depth={depth} while is_open at the end of t={t}ns", w)

    def nontrivial(self):
        return self.max_held >= 2


MON_BY_KIND = {"pooled": PooledMon, "batch": BatchMon, "conveyor": ConveyorMon, "gate": GateMon}


# --------------------------------------------------------------------------
# building and running one case


def _make_stage(hub, name, spec, down):
    if spec["kind"] in QR_KINDS:
        return QRMon(hub, name, spec, down)
    return MON_BY_KIND[spec["kind"]](hub, name, spec, down)


def run_pipeline(case: dict) -> Result:
    res = Result()
    random.seed(case.get("seed", 0))
    hub = Hub(res, case)
    sink = Sink("sink")
    entities: list = [sink]
    topo = case.get("topo", "single")
    stages = case["stages"]
    mons = []
    if topo == "single":
        down = None if stages[0]["kind"] == "threadpool" else sink
        m = _make_stage(hub, "s1", stages[0], down)
        mons = [m]
        entry = m.front
    elif topo == "chain2":
        down = None if stages[1]["kind"] == "threadpool" else sink
        m2 = _make_stage(hub, "s2", stages[1], down)
        m1 = _make_stage(hub, "s1", stages[0], m2.front)
        mons = [m1, m2]
        entry = m1.front
    else:  # fan2: router -> {s1a, s1b} -> s2 -> sink
        down = None if stages[2]["kind"] == "threadpool" else sink
        m2 = _make_stage(hub, "s2", stages[2], down)
        ma = _make_stage(hub, "s1a", stages[0], m2.front)
        mb = _make_stage(hub, "s1b", stages[1], m2.front)
        router = RandomRouter("router", targets=[ma.front, mb.front])
        entities.append(router)
        mons = [ma, mb, m2]
        entry = router
    for m in mons:
        entities.extend(m.entities())
    # relay chains, one per hop count
    heads = {0: entry}
    for h in range(1, 5):
        nxt = entry
        for j in range(h):
            r = Relay(f"relay{h}.{j}", nxt)
            entities.append(r)
            nxt = r
        heads[h] = nxt
    inj, null, caller = Injector(), Null("null"), Caller()
    entities += [inj, null, caller]
    B = hub.base_ns
    sim = Simulation(entities=entities, start_time=Instant(B)) if B else Simulation(entities=entities)
    # arrivals
    n_arr = 0
    for a in case["arrivals"]:
        md = {"id": a["id"], "hops": a.get("hops", 0)}
        for k_src, k_dst in (("prio", "prio"), ("flow", "flow"), ("weight", "weight")):
            if k_src in a:
                md[k_dst] = a[k_src]
        if "dl" in a:
            md["dl"] = B + ns(max(0, a["dl"])) + a.get("dlns", 0)  # absolute ns; a few ns apart within one tick
        if "ptime" in a:
            md["processing_time"] = a["ptime"] * TICK_S
        ctx = {"metadata": md}
        if a.get("patience") is not None:
            ctx["patience_s"] = a["patience"] * TICK_S
        t = Instant(B + ns(a["t"]))
        head = heads[a.get("hops", 0)]
        if a.get("via", "pre") == "inj":
            ctx["created_at"] = t
            sim.schedule(Event(time=t, event_type="Fire", target=inj, context={"emit": [(head, ctx)]}))
        else:
            ev0 = Event(time=t, event_type="Req", target=head, context=ctx)
            if a.get("hops", 0) == 0:
                hub.pending[a["id"]] = ev0
            sim.schedule(ev0)
        n_arr += 1
    for c in case.get("cancels", []):
        tk, cid = c[0], c[1]
        hops = c[2] if len(c) > 2 else 0
        sim.schedule(Event(time=Instant(B + ns(tk)), event_type="Cancel", target=caller, context={"fn": (lambda i=cid: hub.cancel(i)), "hops": hops}))
    for tk in case.get("keepalive", []):
        sim.schedule(Event(time=Instant(B + ns(tk)), event_type="Tick", target=null))
    for m in mons:
        if isinstance(m, GateMon):
            sim.schedule(m.comp.start_events())
            for tk, cmd in m.spec.get("cmds", []):
                fn = m.comp.open if cmd == "open" else m.comp.close
                sim.schedule(Event(time=Instant(B + ns(tk)), event_type="Cmd", target=caller, context={"fn": fn}))
        if isinstance(m, QRMon) and m.spec.get("model") == "dynamic":
            model = m.comp.concurrency_model
            for tk, new in m.spec.get("limit_changes", []):
                sim.schedule(Event(time=Instant(B + ns(tk)), event_type="Cmd", target=caller, context={"fn": (lambda mm=model, v=new: mm.set_limit(v))}))
    sim.control.on_event(hub.on_event)
    sim.control.on_time_advance(hub.on_advance)
    cap = 400 + 60 * n_arr
    with EngineProbe(log_deliveries=False, instant_cap=cap * 5, total_cap=cap * 40, record_emissions=False) as p:
        status = p.run(sim)
    if status == "completed":
        hub.finish()
    else:
        res.inconclusive = f"run ended with status {status} after {p.n_deliveries} deliveries"
    # nothing may reach the sink twice, whatever stage it came from
    seen = set()
    for iid, t in sink.log:
        if iid in seen:
            hub.add("completed-twice", mons[-1].cls, "sink-saw-id-twice", f"id {iid} at t={t}ns")
        seen.add(iid)
    if hub.base_ns:
        res.count("pipeline_cases_at_huge_absolute_time")
    res.count("events_monitored", hub.n_deliveries)
    res.count("offers", sum(m.offers for m in mons))
    res.count("completed_at_sink", len(sink.log))
    for m in mons:
        res.seen("components", m.cls)
        if isinstance(m, QRMon):
            res.seen("policies_in_pipeline", m.audit.comp)
            res.count("policy_ops_in_pipeline", m.audit.ops)
    mixed_hops = any(len(h) >= 2 for h in hub.hops_at.values())
    if mixed_hops:
        res.count("cases_with_mixed_hop_instants")
    res.nontrivial = any(m.nontrivial() for m in mons) or mixed_hops
    return res


# --------------------------------------------------------------------------
# generators


def gen_arrivals(rng: random.Random, n: int, horizon: int) -> list:
    k = rng.choice([1, 1, 2, 3, 5])
    instants = sorted(rng.sample(range(0, horizon + 1), min(k, horizon + 1)))
    out = []
    for i in range(n):
        t = rng.choice(instants) if rng.random() < 0.8 else rng.randrange(0, horizon + 1)
        a = {
            "id": i,
            "t": t,
            "hops": rng.choice([0, 0, 0, 1, 2, 3, 4]),
            "via": rng.choice(["pre", "pre", "inj"]),
            "prio": rng.choice([0, 0, 1, 2, 3]),
            "dl": t + rng.choice([0, 1, 2, 4, 8, 30]),
            "dlns": rng.choice([0, 0, 0, 1, 2, 3, 5, 8, 24, 40, 100]),
            "flow": f"f{rng.choice([0, 0, 1, 2])}",
            "weight": rng.choice([1, 1, 1, 2, 3]),
            "ptime": rng.choice([0, 1, 1, 2, 4]),
        }
        if rng.random() < 0.5:
            a["patience"] = rng.choice([0, 1, 2, 4, 8])
        out.append(a)
    return out


# 1e7 s, 2**53 ns, 1e9 s, "now" as a Unix time; odd ns so that nothing is a round float
BIG_ORIGINS_NS = (10**16 + 1, 2**53 + 3, 10**18 + 7, 1_700_000_000_123_456_789)

PIPE_POLICY_KINDS = ("fifo", "fifo", "fifo", "lifo", "prio", "deadline", "fair", "wfq", "alifo", "codel", "red")


def gen_stage(rng: random.Random, kind: str, horizon: int) -> dict:
    s = {"kind": kind, "limit": rng.choice([1, 2, 2, 3, 4]), "svc": [rng.choice([0, 1, 1, 2, 3, 4, 8]) for _ in range(rng.choice([1, 1, 3]))]}
    if kind in QR_KINDS:
        s["policy"] = gen_spec(rng, PIPE_POLICY_KINDS, for_events=True)
    if kind == "server":
        s["model"] = rng.choice(["int", "int", "fixed", "dynamic", "weighted"])
        if s["model"] == "dynamic":
            s["limit_changes"] = sorted([rng.randrange(0, horizon + 10), rng.choice([1, 2, 3, 4, 6])] for _ in range(rng.choice([0, 1, 2, 3])))
        if s["model"] == "weighted":
            s["limit"] = rng.choice([1, 2, 3, 4, 6])
    elif kind == "rawqueue":
        s["immediate"] = rng.random() < 0.3
    elif kind == "shifted":
        edges = sorted(rng.sample(range(0, horizon + 16), rng.choice([2, 3, 4, 6])))
        shifts = []
        for a, b in zip(edges[:-1], edges[1:], strict=False):
            if rng.random() < 0.8:
                shifts.append([a, b, rng.choice([0, 1, 2, 3])])
        s["shifts"] = shifts
        s["default_cap"] = rng.choice([0, 0, 1, 2])
    elif kind == "reneging":
        s["default_patience"] = rng.choice([None, 0, 2, 6])
    elif kind == "pooled":
        s["qcap"] = rng.choice([0, 0, 1, 2, 5])
        s["svc"] = s["svc"][:1]
    elif kind == "batch":
        s["batch_size"] = rng.choice([1, 2, 3, 5])
        s["timeout"] = rng.choice([0, 0, 1, 3, 6])
        s["svc"] = s["svc"][:1]
    elif kind == "conveyor":
        s["cap"] = rng.choice([0, 1, 2, 3])
        s["svc"] = s["svc"][:1]
    elif kind == "gate":
        mode = rng.choice(["separate", "separate", "touching", "touching", "zero", "overlap"])
        if mode == "separate":
            edges = sorted(rng.sample(range(0, horizon + 10), rng.choice([0, 2, 4])))
            sched = [[edges[i], edges[i + 1]] for i in range(0, len(edges), 2)]
        else:
            k = rng.choice([2, 2, 3, 4])
            edges = sorted(rng.sample(range(0, horizon + 10), min(k + 1, horizon + 10)))
            sched = [[edges[i], edges[i + 1]] for i in range(len(edges) - 1)]  # end of one == start of next
            if mode == "touching" and len(sched) > 2 and rng.random() < 0.4:
                del sched[rng.randrange(1, len(sched) - 1)]  # a gap in the middle of the chain
            if mode == "zero" and sched:
                p = rng.choice(edges)
                sched.append([p, p])  # zero-length window on a boundary instant
                if rng.random() < 0.3:
                    q = rng.randrange(0, horizon + 10)
                    sched.append([q, q])
            if mode == "overlap" and sched:
                a, b = rng.choice(sched)
                sched.append([a, b] if rng.random() < 0.3 else [a, b + rng.choice([1, 2, 3])])
            sched.sort()
        s["schedule"] = sched
        s["initially_open"] = rng.random() < 0.5
        s["qcap"] = rng.choice([0, 0, 2, 4])
        s["cmds"] = sorted([rng.randrange(0, horizon + 10), rng.choice(["open", "close"])] for _ in range(rng.choice([0, 0, 0, 1, 3])))
    return s


def gen_case(rng: random.Random, kinds, topo="single") -> dict:
    horizon = rng.choice([0, 2, 6, 12, 24])
    n = rng.choice([1, 2, 3, 4, 6, 8, 12, 18, 24])
    nst = {"single": 1, "chain2": 2, "fan2": 3}[topo]
    stages = []
    for i in range(nst):
        pool = kinds if i == nst - 1 else tuple(k for k in kinds if k != "threadpool") or kinds
        stages.append(gen_stage(rng, rng.choice(pool), horizon))
    arrivals = gen_arrivals(rng, n, horizon)
    gate = next((st for st in stages if st["kind"] == "gate" and st.get("schedule")), None)
    if gate is not None and rng.random() < 0.7:
        pts = set()
        for a, b in gate["schedule"]:
            pts.update({a, b, (a + b) // 2, max(0, a - 1), b + 1, a + 1 if a + 1 < b else a})
        pts = sorted(pts)
        for a in arrivals:
            if rng.random() < 0.8:
                a["t"] = rng.choice(pts)
                a["dl"] = a["t"] + rng.choice([0, 1, 2, 4, 8, 30])
    cancels = []
    if rng.random() < 0.35:
        for _ in range(rng.choice([1, 1, 2, 3])):
            a = rng.choice(arrivals)
            cancels.append([a["t"] + rng.choice([0, 0, 1, 1, 2, 3, 4, 6, 8]), a["id"], rng.choice([0, 0, 0, 1, 2, 4])])
        cancels.sort()
    base_ns = 0
    if not any(st["kind"] in ("shifted", "gate") for st in stages) and rng.random() < 0.3:
        # huge absolute times: float seconds can no longer tell neighbouring nanoseconds apart
        # (ShiftedServer / GateController take absolute float-second schedules: kept at origin 0)
        base_ns = rng.choice(BIG_ORIGINS_NS)
    ka = sorted({rng.randrange(0, horizon + 30) for _ in range(rng.choice([0, 1, 3, 6]))} | {horizon + 40})
    return {"topo": topo, "stages": stages, "arrivals": arrivals, "cancels": cancels, "keepalive": ka, "base_ns": base_ns, "seed": rng.randrange(1 << 30)}

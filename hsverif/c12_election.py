"""C12 LeaderElection: the pairs (current_term, current_leader) reported over time by all participants
never contain two different leaders for one term."""

from __future__ import annotations

import random

from hsverif.c12_common import (
    DelayScript,
    fault_free_script,
    Instant,
    Simulation,
    at,
    gen_partitions,
    mesh,
    new_network,
    random_script,
    run_sim,
    schedule_partitions,
)
from hsverif.core import Result

from happysimulator.components.consensus.election_strategies import BullyStrategy, RandomizedStrategy, RingStrategy
from happysimulator.components.consensus.leader_election import LeaderElection
from happysimulator.core.event import ProcessContinuation
from happysimulator.faults.node_faults import CrashNode
from happysimulator.faults.schedule import FaultSchedule

COMP = "LeaderElection"
STRATEGIES = {"bully": BullyStrategy, "ring": RingStrategy, "randomized": RandomizedStrategy}
MSG = [
    "ElectionChallenge",
    "ElectionSuppress",
    "ElectionVictory",
    "ElectionToken",
    "ElectionBallot",
    "ElectionBallotResponse",
    "LeaderHeartbeat",
]


def gen_election(rng: random.Random, tier: str) -> dict:
    n = rng.choice([3, 4, 4, 5, 5])
    names = [f"e{i}" for i in range(n)]
    to = rng.choice([0.5, 1.0, 2.0])
    hb = to * rng.choice([0.1, 0.25, 0.5])
    strategy = rng.choice(["bully", "bully", "ring", "ring", "randomized"])
    fault_free = rng.random() < 0.25
    if fault_free:
        hi = to * rng.choice([0.002, 0.01, 0.05])
        script = fault_free_script(rng, hi / 10, hi)
    else:
        script = random_script(rng, names, MSG, timeout_scale=to * rng.choice([0.05, 0.3, 1.0]))
    views = {}
    adds = []
    mode = rng.choice(["full", "full", "partial", "join", "stale-leader"])
    stale = None
    if mode == "stale-leader":
        # the established leader is cut off, a higher-named node joins the rest and wins, the partition heals and the
        # old leader's heartbeats (lower term) reach the followers again
        joiner = names[-1]
        old = names[-2]
        t_cut = round(rng.uniform(3.0 * to, 5.0 * to), 6)
        t_join = round(t_cut + rng.uniform(0.0, 2.0 * to), 6)
        t_heal = round(t_cut + rng.uniform(4.0 * to, 9.0 * to), 6)
        stale = {"at": t_cut, "heal_at": t_heal, "a": [old], "b": [x for x in names if x != old], "asym": False}
        for x in names:
            views[x] = list(names) if x == joiner else [y for y in names if y != joiner]
            if x != joiner:
                adds.append({"at": round(t_join + rng.choice([0.0, rng.uniform(0, 0.2 * to)]), 6), "node": x, "member": joiner})
        if strategy == "randomized" or rng.random() < 0.7:
            strategy = "bully"
    elif mode == "full":
        for x in names:
            views[x] = list(names)
    elif mode == "partial":
        # membership views converge over time (a membership protocol feeding add_member)
        for x in names:
            others = [y for y in names if y != x]
            k = rng.randrange(1, len(others) + 1)
            views[x] = sorted([x] + rng.sample(others, k))
            for y in names:
                if y not in views[x]:
                    adds.append({"at": round(rng.uniform(0.0, 6 * to), 6), "node": x, "member": y})
    else:
        # the last node joins an established cluster
        joiner = names[-1] if rng.random() < 0.7 else rng.choice(names)
        t_join = round(rng.uniform(1.5 * to, 5 * to), 6)
        for x in names:
            views[x] = list(names) if x == joiner else [y for y in names if y != joiner]
            if x != joiner:
                adds.append({"at": round(t_join + rng.choice([0.0, rng.uniform(0, to)]), 6), "node": x, "member": joiner})
    # The ORDER in which a participant lists its members (dict insertion order of `members`) is part of the input:
    # same set, per-node permuted order ("own rack first", self first, shuffled).
    order = rng.choice(["same", "same", "shuffled", "shuffled", "self-first", "rack", "rack"])
    if order == "shuffled":
        for x in names:
            rng.shuffle(views[x])
    elif order == "self-first":
        for x in names:
            views[x] = [x] + [y for y in views[x] if y != x]
    elif order == "rack":
        cut = rng.randrange(1, n)
        racks = [names[:cut], names[cut:]]
        if rng.random() < 0.5:
            rng.shuffle(racks[0])
            rng.shuffle(racks[1])
        for x in names:
            own = racks[0] if x in racks[0] else racks[1]
            other = racks[1] if own is racks[0] else racks[0]
            lst = [x] + [y for y in own if y != x] + list(other)
            views[x] = [y for y in lst if y in views[x]]
    start_pattern = rng.choice(["staggered", "staggered", "concurrent", "near-concurrent"])
    base = round(rng.uniform(0.0, to), 6)
    starts = []
    for x in names:
        if start_pattern == "concurrent":
            t0 = base
        elif start_pattern == "near-concurrent":
            t0 = round(base + rng.uniform(0.0, 0.02 * to), 6)
        else:
            t0 = round(rng.uniform(0.0, to), 6)
        if mode in ("join", "stale-leader") and x == joiner:
            t0 = t_join
        starts.append({"node": x, "at": t0})
    crashes = []
    if not fault_free and mode != "stale-leader" and rng.random() < 0.35:
        for x in rng.sample(names, rng.choice([1, 1, 2])):
            c_at = round(rng.uniform(0.5 * to, 6 * to), 6)
            crashes.append({"node": x, "at": c_at, "restart_at": round(c_at + rng.uniform(0.5 * to, 4 * to), 6) if rng.random() < 0.6 else None})
    return {
        "n": n,
        "strategy": strategy,
        "election_timeout": to,
        "heartbeat_interval": hb,
        "script": script,
        "mode": mode,
        "views": views,
        "adds": sorted(adds, key=lambda a: a["at"]),
        "starts": starts,
        "crashes": crashes,
        "partitions": [stale]
        if stale
        else (gen_partitions(rng, names, 0.5 * to, 6 * to) if not fault_free and rng.random() < 0.3 else []),
        "order": order,
        "start_pattern": start_pattern,
        "fault_free": fault_free,
        "gseed": rng.randrange(1 << 30),
        "end": round((stale["heal_at"] + 5 * to) if stale else 12 * to, 6),
    }


class ElectionMonitor:
    def __init__(self, res: Result, nodes, net):
        self.res = res
        self.nodes = nodes
        self.net = net
        self.by_id = {id(n): n for n in nodes}
        self.last = {n.name: (0, None) for n in nodes}
        self.by_term: dict = {}  # term -> {leader: (time, reporter, trigger)}
        self.reports: list = []
        self.trace: list = []
        self.flagged: set = set()
        self.n_samples = 0
        self.wire_victories: dict = {}  # term announced on the wire -> set(leaders)
        self.own: dict = {n.name: {} for n in nodes}  # participant -> term -> first leader it reported for that term
        self.views_differed = False  # some two participants had different member views at some sampled moment

    def on_event(self, ev):
        self.n_samples += 1
        if isinstance(ev, ProcessContinuation):
            return
        tgt = ev.target
        md = ev.context.get("metadata", {}) if isinstance(ev.context, dict) else {}
        node = self.by_id.get(id(tgt))
        if tgt is self.net:
            if ev.event_type in ("ElectionVictory", "LeaderHeartbeat"):
                self.wire_victories.setdefault(md.get("term"), set()).add(md.get("leader"))
            if len(self.trace) < 700:
                self.trace.append([round(ev.time.to_seconds(), 6), "send", ev.event_type, md.get("source"), md.get("destination"), md.get("term"), md.get("leader", md.get("challenger", md.get("initiator")))])
        elif node is not None and len(self.trace) < 700:
            self.trace.append([round(ev.time.to_seconds(), 6), "recv", ev.event_type, md.get("source"), node.name, md.get("term"), md.get("leader", md.get("challenger", md.get("initiator")))])
        now = ev.time.to_seconds()
        if not self.views_differed and node is None and tgt is not self.net:
            # driver events are the only ones that change member views; downstream_entities() is the public view
            sigs = {tuple(sorted(m.name for m in n.downstream_entities())) for n in self.nodes}
            if len(sigs) > 1:
                self.views_differed = True
        for n in self.nodes:
            cur = (n.current_term, n.current_leader)
            if cur == self.last[n.name]:
                continue
            self.last[n.name] = cur
            term, leader = cur
            if leader is None:
                continue
            self.res.count("reports_checked")
            # how did this participant arrive at this pair?
            if node is n and ev.event_type in ("ElectionVictory", "LeaderHeartbeat"):
                how = "announced-term-adopted" if md.get("term") == term else "local-increment-on-announcement"
            elif node is n:
                how = "own-election-self" if leader == n.name else "own-election-keeps-previous-leader"
            else:
                how = "other"
            rec = (round(now, 6), n.name, term, leader, how, ev.event_type)
            self.reports.append(rec)
            mine = self.own[n.name]
            if term not in mine:
                mine[term] = rec
            elif mine[term][3] != leader:
                # one participant, one of ITS term values, two different leaders over time
                if node is n and ev.event_type == "LeaderHeartbeat":
                    ht = md.get("term")
                    rel = "equal" if ht == term else ("lower" if isinstance(ht, int) and ht < term else "other")
                    shape = f"leader-replaced-by-heartbeat-carrying-{rel}-term"
                else:
                    shape = f"leader-replaced-on-{ev.event_type}"
                shape = ("member-views-differed/" if self.views_differed else "member-views-always-identical/") + shape
                if ("own", shape) not in self.flagged:
                    self.flagged.add(("own", shape))
                    first = mine[term]
                    self.res.add(
                        "one-leader-per-term-per-participant",
                        COMP,
                        shape,
                        f"{n.name} reported leader {first[3]} for its term {term} from t={first[0]} and leader {leader} for the same term at t={rec[0]} "
                        f"(trigger {ev.event_type} from {md.get('source')} announcing term {md.get('term')})",
                        {"reports": [r for r in self.reports if r[1] == n.name][-30:], "trace": self.trace[-120:]},
                    )
            d = self.by_term.setdefault(term, {})
            if leader not in d:
                d[leader] = rec
                if len(d) >= 2:
                    others = [r for l, r in d.items() if l != leader]
                    self.flag(term, rec, others[0])

    def flag(self, term, rec, other):
        hows = {rec[4], other[4]}
        views = "member-views-differed" if self.views_differed else "member-views-always-identical"
        shape = views + ("/announced-terms-collide" if hows == {"announced-term-adopted"} else "/term-from-local-counter")
        k = shape
        if k in self.flagged:
            return
        self.flagged.add(k)
        self.res.add(
            "one-leader-per-term",
            COMP,
            shape,
            f"term {term}: {other[1]} reported leader {other[3]} at t={other[0]} ({other[4]}); {rec[1]} reported leader {rec[3]} at t={rec[0]} ({rec[4]})",
            {"reports": self.reports[-60:], "trace": self.trace[-150:]},
        )


def run_election(case: dict) -> Result:
    res = Result()
    random.seed(case["gseed"])  # RandomizedStrategy draws from the global RNG
    names = [f"e{i}" for i in range(case["n"])]
    script = DelayScript({**case["script"], "keep_log": False})
    net = new_network()
    nodes = [
        LeaderElection(
            name=x,
            network=net,
            strategy=STRATEGIES[case["strategy"]](),
            election_timeout=case["election_timeout"],
            heartbeat_interval=case["heartbeat_interval"],
        )
        for x in names
    ]
    by_name = {nd.name: nd for nd in nodes}
    mesh(net, nodes, script)
    for nd in nodes:
        for m in case["views"][nd.name]:
            nd.add_member(by_name[m])
    sched = None
    if case.get("crashes"):
        sched = FaultSchedule()
        for c in case["crashes"]:
            sched.add(CrashNode(c["node"], at=c["at"], restart_at=c["restart_at"]))
    sim = Simulation(entities=[net, *nodes], end_time=Instant.from_seconds(case["end"]), fault_schedule=sched)
    mon = ElectionMonitor(res, nodes, net)
    for s in case["starts"]:
        sim.schedule(at(s["at"], "drv-start", lambda ev, nd=by_name[s["node"]]: nd.start()))
    for a in case["adds"]:
        sim.schedule(at(a["at"], "drv-add-member", lambda ev, a=a: by_name[a["node"]].add_member(by_name[a["member"]])))
    schedule_partitions(sim, net, by_name, case.get("partitions", []))
    sim.control.on_event(mon.on_event)
    status = run_sim(sim, res)
    res.count("samples", mon.n_samples)
    if status != "completed":
        return res
    leaders = {r[3] for r in mon.reports}
    terms = {r[2] for r in mon.reports}
    res.count("election_terms_seen", len(terms))
    # non-trivial: at least two participants reported a leader and at least two terms were seen
    res.nontrivial = len({r[1] for r in mon.reports}) >= 2 and len(terms) >= 2
    if len(leaders) >= 2:
        res.count("runs_with_two_distinct_leaders")
    res.seen("strategies", case["strategy"])
    return res

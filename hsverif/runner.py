"""CLI of the runtime-monitoring framework.

    ./check C07 [--tier quick|thorough] [--seed N] [--jobs 16]
                [--families a,b] [--scale 0.1] [--replay replays/x.json]

Exit 0: property held on everything explored (KNOWN-FINDING lines allowed).
Exit 1: at least one `VIOLATION property=<id> replay=<path>` line.
Exit 2: INCONCLUSIVE - the deciding monitors observed nothing, or >= 2 % of the cases (and >= 10) ended in a harness error.
"""

from __future__ import annotations

import argparse
import concurrent.futures as cf
import importlib
import json
import os
import shutil
import subprocess
import sys
import tempfile
import time

from hsverif import findings as kf
from hsverif.core import case_hash, ensure_repo_on_path, repo_root

HERE = os.path.dirname(os.path.dirname(os.path.abspath(__file__)))
MAX_SET = 400  # cap for "distinct things seen" lists kept in evidence


def _spawn(job: dict, workdir: str, tag: str, timeout: float) -> tuple[list[dict], str | None]:
    jobfile = os.path.join(workdir, f"{tag}.job.json")
    outfile = os.path.join(workdir, f"{tag}.out.jsonl")
    errfile = os.path.join(workdir, f"{tag}.err")
    json.dump(job, open(jobfile, "w"))
    env = dict(os.environ)
    env["PYTHONPATH"] = HERE + (":" + env["PYTHONPATH"] if env.get("PYTHONPATH") else "")
    env.setdefault("PYTHONHASHSEED", "0")
    env.pop("PYTHONDONTWRITEBYTECODE", None)
    env.setdefault("PYTHONPYCACHEPREFIX", os.path.join(HERE, ".work", "pycache"))
    for var in ("OPENBLAS_NUM_THREADS", "OMP_NUM_THREADS", "MKL_NUM_THREADS", "NUMEXPR_NUM_THREADS"):
        env.setdefault(var, "1")
    problem = None
    try:
        with open(errfile, "w") as ef:
            p = subprocess.run(
                [sys.executable, "-m", "hsverif.worker", jobfile, outfile],
                env=env,
                stdout=ef,
                stderr=ef,
                timeout=timeout,
                cwd=HERE,
                check=False,
            )
        if p.returncode != 0:
            problem = f"worker exit {p.returncode}: " + open(errfile).read()[-800:]
    except subprocess.TimeoutExpired:
        problem = f"shard watchdog ({timeout:.0f}s)"
    recs = []
    if os.path.exists(outfile):
        for line in open(outfile):
            line = line.strip()
            if line:
                try:
                    recs.append(json.loads(line))
                except json.JSONDecodeError:
                    pass
    return recs, problem


def main(argv=None) -> int:
    ap = argparse.ArgumentParser()
    ap.add_argument("pid")
    ap.add_argument("--tier", default=os.environ.get("VERIF_TIER", "quick"), choices=["quick", "thorough"])
    ap.add_argument("--seed", type=int, default=int(os.environ.get("VERIF_SEED", "0") or 0))
    ap.add_argument("--jobs", type=int, default=int(os.environ.get("VERIF_JOBS", "0") or 0) or (os.cpu_count() or 4))
    ap.add_argument("--families", default="")
    ap.add_argument("--scale", type=float, default=float(os.environ.get("VERIF_SCALE", "1") or 1))
    ap.add_argument("--replay", default=None)
    ap.add_argument("--no-evidence", action="store_true")
    ap.add_argument("--keep-going", action="store_true", help="report all violation keys, not the first few")
    args = ap.parse_args(argv)

    pid = args.pid.upper()
    t0 = time.monotonic()
    ensure_repo_on_path()
    mod = importlib.import_module(f"hsverif.props.{pid.lower()}")
    workroot = os.path.join(HERE, ".work")
    os.makedirs(workroot, exist_ok=True)
    workdir = tempfile.mkdtemp(prefix=f"{pid}-", dir=workroot)
    try:
        if args.replay:
            return _replay(pid, mod, args, workdir)
        return _check(pid, mod, args, workdir, t0)
    finally:
        shutil.rmtree(workdir, ignore_errors=True)


def _replay(pid, mod, args, workdir) -> int:
    rp = json.load(open(args.replay))
    fam = mod.FAMILIES[rp["family"]]
    recs, problem = _spawn(
        {"pid": pid, "mode": "replay", "family": fam.name, "case": rp["case"]},
        workdir,
        "replay",
        fam.case_timeout * 2 + 30,
    )
    if problem or not recs:
        print(f"INCONCLUSIVE property={pid} replay failed: {problem}")
        return 2
    res = recs[0]["result"]
    print(json.dumps(res, indent=1, default=str)[:6000])
    if res["violations"]:
        print(f"VIOLATION property={pid} replay={args.replay}")
        return 1
    print(f"replay of {args.replay}: no violation")
    return 0


def _check(pid, mod, args, workdir, t0) -> int:
    tier = args.tier
    budget = dict(mod.BUDGET[tier])
    if args.families:
        want = set(args.families.split(","))
        budget = {k: v for k, v in budget.items() if k in want}
    if args.scale != 1:
        budget = {k: max(1, int(v * args.scale)) for k, v in budget.items()}

    known_entries = [e for e in kf.for_property(pid) if e.get("status") == "known"]
    fixed_entries = [e for e in kf.for_property(pid) if e.get("status") == "fixed"]

    jobs = []
    # pinned witnesses first: one worker per family, all pins of that family in it
    pins_by_family: dict[str, list] = {}
    for i, e in enumerate(known_entries):
        w = e.get("witness")
        if not w:
            continue
        pins_by_family.setdefault(w["family"], []).append({"ref": i, "case": w["case"]})
    for fname, pins in pins_by_family.items():
        fam = mod.FAMILIES[fname]
        chunk = max(1, -(-len(pins) // max(1, min(4, args.jobs // 2))))
        for c in range(0, len(pins), chunk):
            part = pins[c : c + chunk]
            jobs.append(
                (
                    "pin",
                    fname,
                    {"pid": pid, "mode": "pins", "family": fam.name, "pins": part},
                    f"pin-{fname}-{c}",
                    fam.case_timeout * 2 * len(part) + 60,
                )
            )
    # exploration shards
    n_samples_each = 2
    total_cases = sum(budget.values())
    default_per = max(1, -(-total_cases // (args.jobs * 4)))
    for fname, n in budget.items():
        fam = mod.FAMILIES[fname]
        per = getattr(fam, "shard_size", None) or min(default_per, max(1, -(-n // 2)) if n > 4 * args.jobs else default_per)
        start = 0
        while start < n:
            end = min(n, start + per)
            jobs.append(
                (
                    "explore",
                    fname,
                    {
                        "pid": pid,
                        "mode": "explore",
                        "family": fname,
                        "tier": tier,
                        "seed": args.seed,
                        "start": start,
                        "end": end,
                        "samples": n_samples_each if start == 0 else 0,
                        "no_shrink_keys": [list(kf.key_of(e)) for e in known_entries],
                    },
                    f"{fname}-{start}",
                    max(300.0, (end - start) * fam.case_timeout * 0.25 + 120),
                )
            )
            start = end

    pin_results: dict[int, list[dict]] = {}
    recs_all: list[dict] = []
    shard_problems: list[str] = []
    with cf.ThreadPoolExecutor(max_workers=args.jobs) as ex:
        futs = {ex.submit(_spawn, job, workdir, tag, to): (kind, ref) for kind, ref, job, tag, to in jobs}
        for fut in cf.as_completed(futs):
            kind, ref = futs[fut]
            recs, problem = fut.result()
            if kind == "pin":
                for r in recs:
                    pin_results.setdefault(r.get("pin", -1), []).append(r)
                if problem:
                    shard_problems.append(f"pin {ref}: {problem}")
            else:
                recs_all.extend(recs)
                if problem:
                    shard_problems.append(f"{ref}: {problem}")

    # ---- pinned witnesses: which known findings are still alive
    alive_keys: set[tuple] = set()
    known_seen = []
    new_violations: list[tuple[dict, dict, str]] = []  # (violation, case, family)
    for i, e in enumerate(known_entries):
        if not e.get("witness"):
            continue
        recs = pin_results.get(i, [])
        hit = False
        for r in recs:
            for v in r["result"]["violations"]:
                k = (v["component"], v["oracle"], v["shape"])
                if k == kf.key_of(e):
                    hit = True
        if hit:
            alive_keys.add(kf.key_of(e))
            known_seen.append(e["id"])
            print(f"KNOWN-FINDING: property={pid} {e['id']}: {e['what']}")
    # violations inside pinned witnesses that match no alive key are still violations
    for i, recs in pin_results.items():
        for r in recs:
            for v in r["result"]["violations"]:
                k = (v["component"], v["oracle"], v["shape"])
                if k not in alive_keys:
                    new_violations.append((v, r.get("case"), r["family"]))

    # ---- fold exploration
    evaluations = 0
    inconclusive = 0
    harness_errors = 0
    held = 0
    violated_cases = 0
    known_hits = 0
    obs: dict[str, int] = {}
    sets: dict[str, list] = {}
    nontrivial_fps: set[str] = set()
    per_family: dict[str, dict] = {}
    samples = []
    inconclusive_reasons: dict[str, int] = {}
    for r in sorted(recs_all, key=lambda r: (r["family"], r["index"])):
        evaluations += 1
        res = r["result"]
        pf = per_family.setdefault(r["family"], {"cases": 0, "nontrivial": 0, "violated": 0, "inconclusive": 0})
        pf["cases"] += 1
        for k, v in res["obs"].items():
            if k.startswith("_"):
                continue
            obs[k] = obs.get(k, 0) + v
        for k, vals in res["sets"].items():
            s = sets.setdefault(k, [])
            for val in vals:
                if len(s) < MAX_SET and val not in s:
                    s.append(val)
        if res["obs"].get("_harness_error"):
            harness_errors += 1
        if res["nontrivial"]:
            nontrivial_fps.add(res.get("fingerprint") or r.get("hash") or case_hash(r.get("case")))
            pf["nontrivial"] += 1
        if res["violations"]:
            unknown = [v for v in res["violations"] if (v["component"], v["oracle"], v["shape"]) not in alive_keys]
            known_hits += len(res["violations"]) - len(unknown)
            if unknown:
                violated_cases += 1
                pf["violated"] += 1
                for v in unknown:
                    new_violations.append((v, r.get("case"), r["family"]))
            else:
                held += 0  # known only: neither held nor a new violation
        elif res["inconclusive"]:
            inconclusive += 1
            pf["inconclusive"] += 1
            reason = str(res["inconclusive"])[:80]
            inconclusive_reasons[reason] = inconclusive_reasons.get(reason, 0) + 1
        else:
            held += 1
        if "case" in r and len(samples) < 2 * len(budget) + 2 and not res["violations"] and not res["inconclusive"]:
            samples.append({"family": r["family"], "case": _truncate(r["case"])})

    # ---- report new violations (one replay file per distinct mechanism key)
    exit_code = 0
    reported: dict[tuple, str] = {}
    os.makedirs(os.path.join(HERE, "replays"), exist_ok=True)
    for v, case, fam in new_violations:
        k = (v["component"], v["oracle"], v["shape"])
        if k in reported:
            continue
        if len(reported) >= 8 and not args.keep_going:
            break
        h = case_hash([k, case])
        path = os.path.join(HERE, "replays", f"{pid}-{h}.json")
        json.dump(
            {
                "property": pid,
                "family": fam,
                "seed": args.seed,
                "tier": tier,
                "repo": repo_root(),
                "violation": v,
                "case": case,
            },
            open(path, "w"),
            indent=1,
            default=str,
        )
        reported[k] = path
        print(f"VIOLATION property={pid} replay={path}")
        print(f"  key={k} detail={str(v['detail'])[:300]}")
        exit_code = 1

    wall = time.monotonic() - t0
    if not samples:
        samples = [{"note": "no clean sample available in this run"}]
    extra_rule = getattr(mod, "RULE", "")
    evidence = {
        "property_id": pid,
        "tier": tier,
        "seed": args.seed,
        "level": mod.LEVEL,
        "coverage": {
            "evaluations": evaluations,
            "distinct_nontrivial": len(nontrivial_fps),
            "rule": extra_rule,
            "samples": samples,
            "held": held,
            "inconclusive": inconclusive,
            "inconclusive_reasons": inconclusive_reasons,
            "violated_cases_new": violated_cases,
            "violations_matching_known_findings": known_hits,
            "known_findings_seen": known_seen,
            "fixed_findings": [e.get("line") or e.get("what") for e in fixed_entries],
            "per_family": per_family,
            "observed": obs,
            "distinct_seen": {k: {"count": len(v), "first": v[:12]} for k, v in sets.items()},
            "shard_problems": shard_problems[:10],
            "harness_errors": harness_errors,
            "repo": repo_root(),
            "jobs": args.jobs,
            "exhaustive": bool(getattr(mod, "EXHAUSTIVE", False)),
        },
        "assumptions": list(getattr(mod, "ASSUMPTIONS", [])),
        "wall_s": round(wall, 2),
        "violations": len(reported),
    }
    if not args.no_evidence and not args.families and args.scale == 1:
        os.makedirs(os.path.join(HERE, "evidence"), exist_ok=True)
        json.dump(evidence, open(os.path.join(HERE, "evidence", f"{pid}.json"), "w"), indent=1, default=str)

    print(
        f"{pid} tier={tier} seed={args.seed}: cases={evaluations} held={held} nontrivial_distinct={len(nontrivial_fps)} "
        f"inconclusive={inconclusive} new_violation_cases={violated_cases} known_hits={known_hits} wall={wall:.1f}s"
    )
    for k in sorted(obs):
        print(f"  observed {k}={obs[k]}")
    if shard_problems:
        print("  shard problems:", shard_problems[:3])
    if harness_errors:
        print(f"  HARNESS ERRORS: {harness_errors}", sets.get("harness_error_text", [""])[:1])
    if exit_code == 0:
        must = [] if (args.families or args.scale < 0.05) else getattr(mod, "MUST_OBSERVE", [])
        missing = [m for m in must if obs.get(m, 0) <= 0]
        if evaluations == 0 or held == 0 and not known_hits or missing or harness_errors > evaluations // 2:
            print(f"INCONCLUSIVE property={pid} deciding monitors observed nothing (missing={missing})")
            return 2
        if harness_errors >= max(10, evaluations // 50):
            # the harness itself broke on a sizeable share of the cases (0 on the tree the check was built on):
            # whatever changed in the library, those cases were not judged - do not report 'held'
            print(f"INCONCLUSIVE property={pid} {harness_errors} of {evaluations} cases ended in a harness error and were not judged")
            return 2
    return exit_code


def _truncate(case, limit=3000):
    s = json.dumps(case, default=str)
    if len(s) <= limit:
        return case
    return {"truncated_json": s[:limit] + "..."}


if __name__ == "__main__":
    sys.exit(main())

"""Child interpreter of the C03 determinism check.

    python -m hsverif.c03_child      (job JSON on stdin, result JSON on stdout)

job: {"items": [{"name", "seed", "params"}], "order": [indices, repeats allowed],
      "perturb_time": null | {"offset": s, "jump": s, "seed": n}, "detail": bool,
      "interleave_construct": bool, "precede_other_seed": bool}
Runs the catalogue scenarios in the given order in THIS interpreter (whose
PYTHONHASHSEED was chosen by the parent) and reports one canonical digest per
execution: sha256 over the delivery log (time ns, event type, target name) seen
by the engine probe plus the public stats snapshot of the scenario's components,
wall-clock fields removed.
"""

from __future__ import annotations

import hashlib
import json
import os
import random
import re
import sys
import time as _time

_ADDR = re.compile(r" at 0x[0-9a-fA-F]+")
# uuid4 identifiers (MessageQueue message ids, control hook ids) are labels, not statistics: they are
# replaced by a placeholder; an ORDER or a count that depended on them would still change the digest
_UUID = re.compile(r"[0-9a-f]{8}-[0-9a-f]{4}-[0-9a-f]{4}-[0-9a-f]{4}-[0-9a-f]{12}")
_WALL = ("wall", "speedup", "elapsed_real", "real_time")


def _perturb(spec):
    rng = random.Random(spec.get("seed", 0))
    state = {"off": float(spec.get("offset", 0.0))}
    real = {k: getattr(_time, k) for k in ("time", "monotonic", "perf_counter", "time_ns", "monotonic_ns", "perf_counter_ns")}

    def bump():
        state["off"] += rng.random() * float(spec.get("jump", 0.0))
        return state["off"]

    def wall():
        # the wall clock (unlike the monotonic ones) may also step backwards (NTP, manual set)
        back = float(spec.get("back", 0.0))
        if back and rng.random() < 0.3:
            state["off"] -= rng.random() * back
        return real["time"]() + bump()

    _time.time = wall
    _time.monotonic = lambda: real["monotonic"]() + bump()
    _time.perf_counter = lambda: real["perf_counter"]() + bump()
    _time.time_ns = lambda: real["time_ns"]() + int(bump() * 1e9)
    _time.monotonic_ns = lambda: real["monotonic_ns"]() + int(bump() * 1e9)
    _time.perf_counter_ns = lambda: real["perf_counter_ns"]() + int(bump() * 1e9)


def _strip(obj):
    if isinstance(obj, dict):
        return {_UUID.sub("<uuid>", str(k)): _strip(v) for k, v in sorted(obj.items(), key=lambda kv: str(kv[0])) if not any(w in str(k).lower() for w in _WALL)}
    if isinstance(obj, (set, frozenset)):
        # a set is unordered: its iteration order (which follows the per-process hashes) is not part of the state
        return sorted((_strip(x) for x in obj), key=lambda v: json.dumps(v, sort_keys=True, default=str))
    if isinstance(obj, (list, tuple)):
        return [_strip(x) for x in obj]
    if isinstance(obj, float):
        return repr(obj)
    if isinstance(obj, str):
        return _UUID.sub("<uuid>", obj)
    if isinstance(obj, (int, bool)) or obj is None:
        return obj
    return _UUID.sub("<uuid>", _ADDR.sub("", repr(obj)))


def _construct_bystander():
    """Another, unrelated Simulation is *constructed* (events created and scheduled, never run) between
    building a model and running it.  Draws from no RNG."""
    from happysimulator.core.entity import Entity
    from happysimulator.core.event import Event
    from happysimulator.core.simulation import Simulation
    from happysimulator.core.temporal import Instant

    class Bystander(Entity):
        def handle_event(self, event):
            return None

    b = Bystander("bystander")
    other = Simulation(entities=[b], end_time=Instant.from_seconds(1.0))
    for i in range(7):
        other.schedule(Event(time=Instant.from_seconds(0.1 * i), event_type="Noise", target=b))
    return other


def main():
    job = json.load(sys.stdin)
    os.environ["HSVERIF_C03_SLOW"] = str(job.get("slow") or "")
    os.environ["HSVERIF_C03_BYSTANDER"] = "1" if job.get("interleave_construct") else ""
    if job.get("perturb_time"):
        _perturb(job["perturb_time"])
    from hsverif.core import ensure_repo_on_path

    ensure_repo_on_path()
    from hsverif.probe import EngineProbe, quiet_library_logging

    quiet_library_logging()
    import hsverif.c03_extra  # noqa: F401  registers determinism-specific scenarios
    from hsverif.scenarios import CATALOGUE, snapshot

    try:
        import numpy as np
    except Exception:  # noqa: BLE001
        np = None
    out = []
    for pos, idx in enumerate(job["order"]):
        item = job["items"][idx]
        rec = {"i": idx, "pos": pos}
        try:
            if job.get("precede_other_seed"):
                # the same model built and run with ANOTHER seed earlier in this interpreter (a sweep over seeds):
                # whatever the library memoises at module level must be keyed by everything it depends on
                try:
                    other = CATALOGUE[item["name"]](item["seed"] ^ 0x5BD1E995, item.get("params") or {})
                    with EngineProbe(log_deliveries=False, instant_cap=20000, total_cap=300000) as p0:
                        p0.run(other.sim)
                except Exception:  # noqa: BLE001
                    pass
            sc = CATALOGUE[item["name"]](item["seed"], item.get("params") or {})
            if job.get("interleave_construct"):
                _construct_bystander()
            st0 = hash(random.getstate())
            np0 = hashlib.sha1(np.random.get_state()[1].tobytes()).hexdigest() if np is not None else None
            np0pos = np.random.get_state()[2] if np is not None else None
            with EngineProbe(log_deliveries=True, instant_cap=20000, total_cap=300000) as p:
                # a scenario may bring its own driver (pause / resume through the control surface)
                status = p.run(sc.sim, sc.extras.get("runner"))
            rng_used = hash(random.getstate()) != st0
            if np is not None:
                s1 = np.random.get_state()
                rng_used = rng_used or hashlib.sha1(s1[1].tobytes()).hexdigest() != np0 or s1[2] != np0pos
            deliv = [(d[1], d[2], d[3]) for d in p.deliveries]
            if sc.extras.get("per_entity_only"):
                deliv = []  # partitions run in threads: only per-entity histories are comparable
            h1 = hashlib.sha256(json.dumps(deliv).encode()).hexdigest()
            snap = _strip(snapshot(sc))
            per_comp = {k: hashlib.sha256(json.dumps(v, sort_keys=True, default=str).encode()).hexdigest()[:12] for k, v in snap.items()}
            h2 = hashlib.sha256(json.dumps(snap, sort_keys=True, default=str).encode()).hexdigest()
            rec.update(
                status=status,
                n=len(deliv),
                deliv_digest=h1,
                stats_digest=h2,
                digest=hashlib.sha256((status + h1 + h2).encode()).hexdigest(),
                rng_used=bool(rng_used),
                per_comp=per_comp,
            )
            if job.get("detail"):
                rec["deliveries"] = deliv[:4000]
                rec["snapshot"] = snap
        except Exception as exc:  # noqa: BLE001
            import traceback

            rec.update(status="exception", digest="exception:" + type(exc).__name__, error=traceback.format_exc()[-800:], n=0, rng_used=False)
        out.append(rec)
    json.dump({"hashseed": os.environ.get("PYTHONHASHSEED"), "results": out}, sys.stdout)


if __name__ == "__main__":
    main()

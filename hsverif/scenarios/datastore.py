"""datastore family: KVStore, CachedStore, SoftTTLCache, MultiTierCache, ReplicatedStore,
ShardedStore, Database (+Transaction), CacheWarmer.

All of these expose generator APIs (`yield from store.get(k)`), so they are driven from
`Proc` harness entities: one worker per arrival instant, the workers share a small key set
and overlap in time (a get issued while a put / flush / refresh is still in progress).
`SoftTTLCache` and `CacheWarmer` additionally have real `handle_event` paths
(`_sttl_refresh`, `cache_warm`) which the builders reach through the library's own events.

Three kinds of builders:
  * contention   : reasonable configurations under bursts (the original catalogue);
  * degenerate   : operations that match NOTHING (missing keys, empty stores, empty key lists,
                   empty queries / transactions) and structures of size one;
  * proportions  : sibling parameters out of proportion (TTLs vs latencies, connection vs query
                   latency, capacity 1).
Structural counts (replicas, shards, tiers, keys) come from `p.count(i, default)`.
"""

from __future__ import annotations

import random

from happysimulator.components.datastore import (
    CachedStore,
    CacheWarmer,
    ClockEviction,
    ConsistencyLevel,
    ConsistentHashSharding,
    Database,
    FIFOEviction,
    HashSharding,
    KVStore,
    LFUEviction,
    LRUEviction,
    MultiTierCache,
    PromotionPolicy,
    RandomEviction,
    RangeSharding,
    ReplicatedStore,
    SampledLRUEviction,
    ShardedStore,
    SLRUEviction,
    SoftTTLCache,
    TTLEviction,
    TwoQueueEviction,
    WriteAround,
    WriteBack,
    WriteThrough,
)

from hsverif.scenarios import Scenario, scenario
from hsverif.scenarios._kit import P, Proc, ev, make_sim

KEYS = ["a0", "h1", "m2", "q3", "x4", "k5", "c6", "t7"]
N_POLICIES = 9
MISSING = "zz-missing"


def _start(sim, procs, arrivals):
    for i, t in enumerate(arrivals):
        sim.schedule(ev(t, "start", procs[i % len(procs)], worker=i))


def _w(event) -> int:
    return event.context["metadata"]["worker"]


def _keys(p: P, i: int = 2, default: int = 6, lo: int = 1) -> list[str]:
    """The shared key set: its size is the i-th structural count."""
    return KEYS[: p.count(i, default, lo=lo, hi=len(KEYS))]


def _policy(idx: int, p: P, seed: int, clock_entity=None):
    """One of the nine eviction policies.  TTL reads the *simulated* clock, either through an
    explicit clock function or (clock_entity None) through the owning CachedStore's binding."""
    idx %= N_POLICIES
    if idx == 0:
        return LRUEviction()
    if idx == 1:
        return LFUEviction()
    if idx == 2:
        if clock_entity is None:
            return TTLEviction(ttl=p.lat(5) * 2)
        return TTLEviction(ttl=p.lat(5) * 2, clock_func=lambda: clock_entity.now.to_seconds())
    if idx == 3:
        return FIFOEviction()
    if idx == 4:
        return RandomEviction(seed=seed)
    if idx == 5:
        return SLRUEviction(protected_ratio=0.5)
    if idx == 6:
        return SampledLRUEviction(sample_size=2, seed=seed)
    if idx == 7:
        return ClockEviction()
    return TwoQueueEviction(kin_ratio=0.5)


class FlakyKV(KVStore):
    """Replica that times out on every k-th call (public extension point: a KVStore subclass)."""

    def __init__(self, name: str, fail_every: int, **kw):
        super().__init__(name, **kw)
        self.fail_every = max(2, fail_every)
        self.calls = 0

    def _maybe_fail(self, latency):
        self.calls += 1
        if self.calls % self.fail_every == 0:
            yield latency
            raise TimeoutError(f"{self.name} timed out")

    def get(self, key):
        yield from self._maybe_fail(self.read_latency)
        return (yield from super().get(key))

    def put(self, key, value):
        yield from self._maybe_fail(self.write_latency)
        yield from super().put(key, value)

    def delete(self, key):
        yield from self._maybe_fail(self.write_latency)
        return (yield from super().delete(key))


def _backing(p: P, keys, name="backing", fill=True, **kw):
    kv = KVStore(name, read_latency=p.lat(0), write_latency=p.lat(1), delete_latency=p.lat(2), **kw)
    if fill:
        for j, k in enumerate(keys):
            kv.put_sync(k, 100 + j)
    return kv


# ----------------------------------------------------------------------
# KVStore


def _kv_body(kv, keys, hold):
    def K(j):
        return keys[j % len(keys)]

    def body(proc, event):
        i = _w(event)
        k = K(i % 2)
        if i % 4 == 0:
            yield from kv.put(k, i)
            v = yield from kv.get(k)
            proc.log.append(("rw", v))
        elif i % 4 == 1:
            v = yield from kv.get(k)
            yield hold
            yield from kv.put(K(2 + i % 4), i)  # new key: eviction when full
            proc.log.append(("r", v))
        elif i % 4 == 2:
            yield from kv.put(k, -i)
            ok = yield from kv.delete(k)
            ok2 = yield from kv.delete(k)  # already gone
            proc.log.append(("d", ok, ok2))
        else:
            ok = yield from kv.delete(k)
            v = yield from kv.get(k)
            v2 = yield from kv.get(MISSING)
            yield from kv.put(k, i)
            proc.log.append(("dr", ok, v, v2))
        proc.done += 1

    return body


@scenario("datastore.kvstore_contention", "datastore")
def kvstore_contention(seed, params):
    """Bounded KVStore: same-key puts / gets / deletes overlap, new keys force evictions."""
    p = P(params, seed)
    keys = _keys(p)
    kv = KVStore("kv", read_latency=p.lat(0), write_latency=p.lat(1), delete_latency=p.lat(2), capacity=p.cap(2))
    arr = p.arrivals(8)
    procs = [Proc(f"w{i}", _kv_body(kv, keys, p.hold())) for i in range(len(arr))]
    sim = make_sim([kv, *procs], p.end())
    _start(sim, procs, arr)
    return Scenario(sim, {"kv": kv}, "datastore", True, len(arr))


@scenario("datastore.kvstore_capacity_one", "datastore")
def kvstore_capacity_one(seed, params):
    """capacity=1: every put of another key evicts; default delete_latency (= write latency)."""
    p = P(params, seed)
    kv = KVStore("kv", read_latency=p.lat(0), write_latency=p.lat(1), capacity=1)
    arr = p.arrivals(6)
    procs = [Proc(f"w{i}", _kv_body(kv, _keys(p, default=3), p.hold())) for i in range(len(arr))]
    sim = make_sim([kv, *procs], p.end())
    _start(sim, procs, arr)
    return Scenario(sim, {"kv": kv}, "datastore", True, len(arr))


# ----------------------------------------------------------------------
# CachedStore


def _cached_workload(cs, keys, hold):
    def K(j):
        return keys[j % len(keys)]

    def body(proc, event):
        i = _w(event)
        k = K(i % 3)
        if i % 5 == 0:
            yield from cs.put(k, i)
            v = yield from cs.get(k)
        elif i % 5 == 1:
            v = yield from cs.get(k)  # miss while the put above is still writing through
            yield hold
            v = yield from cs.get(k)
        elif i % 5 == 2:
            yield from cs.put(K(3 + i % 3), i)  # other keys: evictions
            v = yield from cs.get(K((i + 1) % 3))
        elif i % 5 == 3:
            v = yield from cs.delete(k)
            yield from cs.put(k, -i)
            v = yield from cs.delete(MISSING)  # neither cached nor stored
        else:
            cs.invalidate(k)
            cs.invalidate(MISSING)
            v = yield from cs.get(k)
            yield hold
            v = yield from cs.get(MISSING)  # miss in cache and store
            v = yield from cs.get(K(3 + i % 3))
        proc.log.append(v if isinstance(v, (int, bool)) or v is None else str(v))
        proc.done += 1

    return body


@scenario("datastore.cached_store_write_through", "datastore")
def cached_store_write_through(seed, params):
    """Write-through CachedStore over a slow KVStore; eviction policy = x.v mod 9 (all nine)."""
    p = P(params, seed)
    keys = _keys(p)
    kv = _backing(p, keys)
    pol = _policy(int(p.x("v", seed)), p, seed, kv)
    cs = CachedStore("cache", kv, cache_capacity=p.cap(2), eviction_policy=pol, cache_read_latency=p.lat(3), write_through=True)
    arr = p.arrivals(10)
    procs = [Proc(f"w{i}", _cached_workload(cs, keys, p.hold())) for i in range(len(arr))]
    sim = make_sim([kv, cs, *procs], p.end())
    _start(sim, procs, arr)
    return Scenario(sim, {"cache": cs, "backing": kv}, "datastore", True, len(arr), notes=type(pol).__name__)


@scenario("datastore.cached_store_capacity_one", "datastore")
def cached_store_capacity_one(seed, params):
    """cache_capacity=1 (every second key evicts), write-through or write-back by x.v parity,
    TTL policy bound to the simulation clock by the store itself; flush() of a clean cache."""
    p = P(params, seed)
    v = int(p.x("v", seed))
    keys = _keys(p, default=4)
    kv = _backing(p, keys)
    pol = _policy(v // 2, p, seed, None)
    cs = CachedStore("cache", kv, cache_capacity=1, eviction_policy=pol, cache_read_latency=p.lat(3), write_through=(v % 2 == 0))
    inner = _cached_workload(cs, keys, p.hold())

    def body(proc, event):
        n0 = yield from cs.flush()  # nothing dirty yet (or ever, when write-through)
        yield from inner(proc, event)
        n1 = yield from cs.flush()
        proc.log.append((n0, n1))

    arr = p.arrivals(8)
    procs = [Proc(f"w{i}", body) for i in range(len(arr))]
    sim = make_sim([kv, cs, *procs], p.end())
    _start(sim, procs, arr)
    return Scenario(sim, {"cache": cs, "backing": kv}, "datastore", True, len(arr), notes=type(pol).__name__)


@scenario("datastore.cached_store_write_back", "datastore")
def cached_store_write_back(seed, params):
    """Write-back CachedStore (write_through=False) with a flusher steered by the WriteBack /
    WriteAround / WriteThrough policy objects of write_policies.py; flush() overlaps the writers."""
    p = P(params, seed)
    keys = _keys(p)
    kv = _backing(p, keys)
    pol = _policy(int(p.x("v", seed)) + 1, p, seed, kv)
    cs = CachedStore("cache", kv, cache_capacity=p.cap(2) + 1, eviction_policy=pol, cache_read_latency=p.lat(3), write_through=False)
    wb = WriteBack(flush_interval=p.lat(4) * 3, max_dirty=2)
    wa = WriteAround()
    wt = WriteThrough()
    hold = p.hold()
    arr = p.arrivals(9)

    def K(j):
        return keys[j % len(keys)]

    def writer(proc, event):
        i = _w(event)
        k = K((i // 3) % 2)  # write-back writers and the readers share the first two keys
        if i % 3 == 0:  # write-back path
            yield from cs.put(k, i)
            wb.on_write(k, i)
            if wb.should_flush() and not wb.should_write_through():
                ks = wb.get_keys_to_flush()
                n = yield from cs.flush()  # overlaps the other writers
                wb.on_flush(ks)
                proc.log.append(("flush", n))
        elif i % 3 == 1:  # write-around path: store first, then invalidate the cached copy
            k = K(4 + (i // 3) % 2)
            yield from kv.put(k, i)
            wa.on_write(k, i)
            for kk in wa.get_keys_to_invalidate():
                cs.invalidate(kk)
            v = yield from cs.get(k)
            proc.log.append(("around", v))
        else:  # reader racing the dirty data
            v = yield from cs.get(k)
            yield hold
            wt.on_write(k, v)
            ok = (yield from cs.delete(k)) if i % 2 else None
            proc.log.append(("rd", v, ok))
        proc.done += 1

    def flusher(proc, event):
        n = yield from cs.flush()  # nothing dirty at the very start
        for _ in range(3):
            yield wb.flush_interval
            n = yield from cs.flush()
            wb.on_flush(wb.get_keys_to_flush())
            proc.log.append(n)
        proc.done += 1

    procs = [Proc(f"w{i}", writer) for i in range(len(arr))]
    fl = Proc("flusher", flusher)
    sim = make_sim([kv, cs, fl, *procs], p.end())
    _start(sim, procs, arr)
    sim.schedule(ev(min(arr), "start", fl, worker=-1))
    return Scenario(sim, {"cache": cs, "backing": kv}, "datastore", True, len(arr) + 1, notes=type(pol).__name__)


# ----------------------------------------------------------------------
# SoftTTLCache


def _sttl_body(c, keys, soft_s, hard_s, exact_soft=None):
    def K(j):
        return keys[j % len(keys)]

    def body(proc, event):
        i = _w(event)
        k = K(i % 2)
        v0 = yield from c.get(k)  # hard miss (several workers on the same key)
        v1 = yield from c.get(k)  # fresh hit
        yield soft_s * 1.5
        v2 = yield from c.get(k)  # stale hit -> background refresh
        if i % 3 == 2:
            c.invalidate(k)  # entry dropped while its refresh is in flight -> coalesced hard miss
            v2 = yield from c.get(k)
        v3 = yield from c.get(K(2 + i % 3))  # other keys: LRU eviction, maybe of a refreshing key
        v4 = yield from c.get(k)  # refresh in flight: stale hit again or coalesced miss
        vm = yield from c.get(MISSING)  # never in the backing store
        if i % 3 == 0:
            yield from c.put(k, i)
            if exact_soft is not None:
                yield exact_soft  # the entry is now EXACTLY soft_ttl old: the fresh/stale boundary
                vm = (vm, (yield from c.get(k)))
        elif i % 3 == 1:
            c.invalidate(k)
            c.invalidate(MISSING)
        yield hard_s * 1.1
        v5 = yield from c.get(k)  # expired
        proc.log.append([v0, v1, v2, v3, v4, vm, v5])
        proc.done += 1

    return body


@scenario("datastore.soft_ttl_refresh", "datastore")
def soft_ttl_refresh(seed, params):
    """Readers hit fresh / stale / expired entries; stale hits start background refreshes
    (`_sttl_refresh` events handled by the cache itself) which later readers coalesce on."""
    p = P(params, seed)
    keys = _keys(p)
    kv = KVStore("backing", read_latency=p.lat(0) * 2, write_latency=p.lat(1))
    for j, k in enumerate(keys):
        kv.put_sync(k, 100 + j)
    soft = p.lat(2)
    crl = p.lat(3)
    hard = soft * 3 + crl * 4 + kv.read_latency * 2  # wide enough for a stale window after one cached read
    c = SoftTTLCache("sttl", kv, soft_ttl=soft, hard_ttl=hard, cache_capacity=p.cap(2) + 1, cache_read_latency=crl)
    arr = p.arrivals(6)
    procs = [Proc(f"w{i}", _sttl_body(c, keys, soft, hard)) for i in range(len(arr))]
    sim = make_sim([kv, c, *procs], p.end())
    _start(sim, procs, arr)
    return Scenario(sim, {"sttl": c, "backing": kv}, "datastore", True, len(arr))


def _sttl_proportion(name, doc, ttls):
    @scenario(name, "datastore")
    def builder(seed, params):
        p = P(params, seed)
        keys = _keys(p, default=4)
        kv = KVStore("backing", read_latency=p.lat(0), write_latency=p.lat(1))
        for j, k in enumerate(keys):
            kv.put_sync(k, 100 + j)
        crl = p.lat(3)
        soft, hard = ttls(p, kv.read_latency, crl)
        cap = None if int(p.x("v", seed)) % 3 == 0 else 1 + int(p.x("v", seed)) % 2  # unbounded, 1 or 2
        c = SoftTTLCache("sttl", kv, soft_ttl=soft, hard_ttl=hard, cache_capacity=cap, cache_read_latency=crl)
        arr = p.arrivals(5)
        # the workers pace themselves on the read latency (the TTLs may be next to nothing)
        procs = [Proc(f"w{i}", _sttl_body(c, keys, max(soft, kv.read_latency), max(hard, crl), exact_soft=soft)) for i in range(len(arr))]
        sim = make_sim([kv, c, *procs], p.end())
        _start(sim, procs, arr)
        return Scenario(sim, {"sttl": c, "backing": kv}, "datastore", True, len(arr), notes=f"soft={soft} hard={hard}")

    builder.__doc__ = doc
    return builder


_sttl_proportion(
    "datastore.soft_ttl_equals_hard_ttl",
    "soft_ttl == hard_ttl: there is no stale window, an entry goes from fresh to expired.",
    lambda p, rl, crl: (p.lat(2) + crl, p.lat(2) + crl),
)
_sttl_proportion(
    "datastore.soft_ttl_just_below_hard_ttl",
    "hard_ttl = soft_ttl + 1 ns: a stale window one nanosecond wide.",
    lambda p, rl, crl: (p.lat(2) + crl, p.lat(2) + crl + 1e-9),
)
_sttl_proportion(
    "datastore.soft_ttl_below_read_latency",
    "soft_ttl (1 ns) far below the backing read latency: an entry is stale as soon as it is "
    "stored, every hit starts a refresh that takes much longer than the freshness window.",
    lambda p, rl, crl: (1e-9, (rl + crl) * 6),
)
_sttl_proportion(
    "datastore.soft_ttl_zero",
    "soft_ttl = hard_ttl = 0: nothing is ever valid, every read goes to the backing store.",
    lambda p, rl, crl: (0.0, 0.0),
)


# ----------------------------------------------------------------------
# MultiTierCache


@scenario("datastore.multi_tier", "datastore")
def multi_tier(seed, params):
    """1..4 CachedStore tiers (count 0) over one KVStore; the LAST tier is warmed by a CacheWarmer
    while clients read / write / delete through the MultiTierCache (promotion = x.v mod 3)."""
    p = P(params, seed)
    v = int(p.x("v", seed))
    keys = _keys(p)
    kv = _backing(p, keys[:-1] if len(keys) > 1 else keys)  # the last key is missing from the store
    n_tiers = p.count(0, 2, lo=1, hi=4)
    tiers = [
        CachedStore(f"l{t + 1}", kv, cache_capacity=p.cap(2) * (1 + 2 * t), eviction_policy=_policy(v + 3 * t, p, seed, kv), cache_read_latency=p.lat(3 + t))
        for t in range(n_tiers)
    ]
    promo = list(PromotionPolicy)[v % 3]
    mt = MultiTierCache("mt", tiers=tiers, backing_store=kv, promotion_policy=promo)
    warmer = CacheWarmer("warmer", cache=tiers[-1], keys_to_warm=list(keys), warmup_rate=1.0 / p.lat(5), warmup_latency=p.lat(6))
    hold = p.hold()
    warm_time = len(keys) * (p.lat(5) + p.lat(0) + p.lat(4)) + hold

    def K(j):
        return keys[j % len(keys)]

    def body(proc, event):
        i = _w(event)
        k = K(i % 4)
        if i % 4 == 0:
            a = yield from mt.get(k)
            b = yield from mt.get(k)
        elif i % 4 == 1:
            yield from mt.put(k, i)
            a = yield from mt.get(K((i + 1) % 4))
            b = yield from mt.get(MISSING)
        elif i % 4 == 2:
            a = yield from mt.get(k)
            yield hold
            b = yield from mt.delete(k)
            b = (b, (yield from mt.delete(MISSING)))
        else:
            mt.invalidate(k)
            mt.invalidate(MISSING)
            a = yield from mt.get(k)
            yield hold
            b = yield from mt.get(K(4 + i % 2))
        yield warm_time  # by now the warmer has filled the last tier while L1 (small) has evicted
        c = yield from mt.get(K(i + 2))
        d = yield from mt.get(K(i + 2))
        proc.log.append(str((a, b, c, d)))
        proc.done += 1

    arr = p.arrivals(8)
    procs = [Proc(f"w{i}", body) for i in range(len(arr))]
    sim = make_sim([kv, *tiers, mt, warmer, *procs], p.end())
    sim.schedule(warmer.start_warming())  # documented usage: scheduled before the run (t = 0)
    _start(sim, procs, arr)
    comps = {"mt": mt, "warmer": warmer, **{t.name: t for t in tiers}}
    return Scenario(sim, comps, "datastore", True, len(arr) + 1, notes=f"{promo.name} tiers={n_tiers}")


# ----------------------------------------------------------------------
# ReplicatedStore


def _replicated_body(rs, keys, hold):
    def K(j):
        return keys[j % len(keys)]

    def body(proc, event):
        i = _w(event)
        k = K(i % 2)
        if i % 3 == 0:
            ok = yield from rs.put(k, i)
            val = yield from rs.get(k)
        elif i % 3 == 1:
            val = yield from rs.get(k)
            yield hold
            ok = yield from rs.put(K(2 + i % 4), i)
        else:
            ok = yield from rs.delete(k)
            val = yield from rs.get(k)
            val = (val, (yield from rs.get(MISSING)), (yield from rs.delete(MISSING)))
        proc.log.append(str((ok, val)))
        proc.done += 1

    return body


@scenario("datastore.replicated_quorum", "datastore")
def replicated_quorum(seed, params):
    """1..5 replicas (count 0) with different latencies, every third one timing out
    periodically; consistency levels from x.v; same-key reads overlap writes and deletes."""
    p = P(params, seed)
    v = int(p.x("v", seed))
    levels = [ConsistencyLevel.QUORUM, ConsistencyLevel.ONE, ConsistencyLevel.ALL]
    n = p.count(0, 3, lo=1, hi=5)
    reps = []
    for j in range(n):
        if j % 3 == 1:
            reps.append(FlakyKV(f"r{j}", fail_every=3, read_latency=p.lat(2 * j), write_latency=p.lat(2 * j + 1)))
        else:
            reps.append(KVStore(f"r{j}", read_latency=p.lat(2 * j), write_latency=p.lat(2 * j + 1), capacity=p.cap(2) if j % 3 == 2 else None))
    rs = ReplicatedStore(
        "rs",
        reps,
        read_consistency=levels[v % 3],
        write_consistency=levels[(v // 3) % 3],
        read_timeout=p.lat(6) * 10,
        write_timeout=p.lat(7) * 20,
    )
    arr = p.arrivals(8)
    procs = [Proc(f"w{i}", _replicated_body(rs, _keys(p), p.hold())) for i in range(len(arr))]
    sim = make_sim([*reps, rs, *procs], p.end())
    _start(sim, procs, arr)
    return Scenario(sim, {"rs": rs, **{r.name: r for r in reps}}, "datastore", True, len(arr), notes=f"replicas={n}")


@scenario("datastore.replicated_single_replica", "datastore")
def replicated_single_replica(seed, params):
    """ONE replica (quorum = all = one), flaky for odd x.v: a timed-out replica leaves nobody."""
    p = P(params, seed)
    v = int(p.x("v", seed))
    levels = [ConsistencyLevel.QUORUM, ConsistencyLevel.ONE, ConsistencyLevel.ALL]
    if v % 2:
        rep = FlakyKV("r0", fail_every=2, read_latency=p.lat(0), write_latency=p.lat(1))
    else:
        rep = KVStore("r0", read_latency=p.lat(0), write_latency=p.lat(1), capacity=1)
    rs = ReplicatedStore("rs", [rep], read_consistency=levels[v % 3], write_consistency=levels[(v // 3) % 3], read_timeout=p.lat(2), write_timeout=p.lat(3))
    arr = p.arrivals(6)
    procs = [Proc(f"w{i}", _replicated_body(rs, _keys(p, default=3), p.hold())) for i in range(len(arr))]
    sim = make_sim([rep, rs, *procs], p.end())
    _start(sim, procs, arr)
    return Scenario(sim, {"rs": rs, "r0": rep}, "datastore", True, len(arr))


# ----------------------------------------------------------------------
# ShardedStore


def _strategy(v: int, seed: int, n_shards: int):
    bounds = ["d", "i", "n", "r", "u", "w", "x", "y", "z", "{", "|"][: max(0, n_shards - 1)]
    return [HashSharding(), RangeSharding(), RangeSharding(boundaries=bounds), ConsistentHashSharding(virtual_nodes=8, seed=seed)][v % 4]


def _sharded_body(ss, keys, hold):
    def K(j):
        return keys[j % len(keys)]

    def body(proc, event):
        i = _w(event)
        k = K(i)
        if i % 4 == 0:
            yield from ss.put(k, i)
            r = yield from ss.get(k)
        elif i % 4 == 1:
            r0 = yield from ss.scatter_gather([])  # nothing to gather
            r1 = yield from ss.scatter_gather(list(keys))
            r2 = yield from ss.scatter_gather([MISSING])  # one key, stored nowhere
            r = (r0, sorted(r1), r2)
        elif i % 4 == 2:
            yield from ss.put(k, i)
            yield hold
            r = yield from ss.delete(k)
            r = (r, (yield from ss.delete(k)), (yield from ss.get(k)))
        else:
            r = yield from ss.get(k)
            yield from ss.put(k, -i)
            r2 = yield from ss.scatter_gather([k])  # exactly one key
            r3 = yield from ss.scatter_gather([k, K(i + 1), MISSING, k])
            r = (r, sorted(r2), sorted(r3))
        proc.log.append(str(r))
        proc.done += 1

    return body


@scenario("datastore.sharded_scatter_gather", "datastore")
def sharded_scatter_gather(seed, params):
    """ShardedStore over 1..12 KVStore shards (count 0) of unequal speed; scatter_gather sweeps
    all / one / no keys while point writes / deletes on the same keys are in progress
    (strategy = x.v mod 4)."""
    p = P(params, seed)
    v = int(p.x("v", seed))
    n_shards = p.count(0, 3, lo=1, hi=12)
    shards = [KVStore(f"s{j}", read_latency=p.lat(2 * j), write_latency=p.lat(2 * j + 1), capacity=p.cap(2) + 1) for j in range(n_shards)]
    ss = ShardedStore("sharded", shards, sharding_strategy=_strategy(v, seed, n_shards))
    arr = p.arrivals(8)
    procs = [Proc(f"w{i}", _sharded_body(ss, _keys(p), p.hold())) for i in range(len(arr))]
    sim = make_sim([*shards, ss, *procs], p.end())
    _start(sim, procs, arr)
    return Scenario(sim, {"sharded": ss}, "datastore", True, len(arr), notes=f"{type(ss.sharding_strategy).__name__} shards={n_shards}")


@scenario("datastore.cached_sharded_replicated", "datastore")
def cached_sharded_replicated(seed, params):
    """Composite: CachedStore -> ShardedStore -> ReplicatedStore -> KVStore replicas
    (groups = count 0, replicas per group = count 1)."""
    p = P(params, seed)
    v = int(p.x("v", seed))
    n_groups = p.count(0, 2, lo=1, hi=3)
    n_reps = p.count(1, 2, lo=1, hi=3)
    kvs, groups = [], []
    for g in range(n_groups):
        reps = [KVStore(f"g{g}r{j}", read_latency=p.lat(g * 2 + j), write_latency=p.lat(g * 2 + j + 3)) for j in range(n_reps)]
        kvs += reps
        groups.append(
            ReplicatedStore(
                f"group{g}",
                reps,
                read_consistency=[ConsistencyLevel.ONE, ConsistencyLevel.ALL][(v + g) % 2],
                write_consistency=ConsistencyLevel.ALL,
                read_timeout=p.lat(6) * 10,
                write_timeout=p.lat(7) * 10,
            )
        )
    ss = ShardedStore("sharded", groups, sharding_strategy=_strategy(v, seed, n_groups)) if v % 4 != 2 else ShardedStore("sharded", groups)
    cs = CachedStore("front", ss, cache_capacity=p.cap(2), eviction_policy=_policy(v + 5, p, seed, ss), cache_read_latency=p.lat(2), write_through=True)
    arr = p.arrivals(8)
    procs = [Proc(f"w{i}", _cached_workload(cs, _keys(p), p.hold())) for i in range(len(arr))]
    sim = make_sim([*kvs, *groups, ss, cs, *procs], p.end())
    _start(sim, procs, arr)
    return Scenario(sim, {"front": cs, "sharded": ss, **{g.name: g for g in groups}}, "datastore", True, len(arr))


# ----------------------------------------------------------------------
# empty structures


@scenario("datastore.empty_structures", "datastore")
def empty_structures(seed, params):
    """Every store starts EMPTY and is hit with reads / deletes / gathers / flushes that match
    nothing before the first put (worker i works on store i mod 6), then used normally."""
    p = P(params, seed)
    v = int(p.x("v", seed))
    kv = _backing(p, [], name="kv", fill=False)
    back = _backing(p, [], name="backing", fill=False)
    cs = CachedStore("cache", back, cache_capacity=1, eviction_policy=_policy(v, p, seed, None), cache_read_latency=p.lat(3), write_through=False)
    st = SoftTTLCache("sttl", back, soft_ttl=p.lat(4), hard_ttl=p.lat(4) * 3, cache_capacity=1, cache_read_latency=p.lat(3))
    tier = CachedStore("l1", back, cache_capacity=1, eviction_policy=_policy(v + 1, p, seed, None), cache_read_latency=p.lat(3))
    mt = MultiTierCache("mt", tiers=[tier], backing_store=back, promotion_policy=list(PromotionPolicy)[v % 3])
    rep = KVStore("r0", read_latency=p.lat(5), write_latency=p.lat(6))
    rs = ReplicatedStore("rs", [rep], read_timeout=p.lat(5) * 4, write_timeout=p.lat(6) * 4)
    n_shards = p.count(0, 2, lo=1, hi=5)
    shards = [KVStore(f"s{j}", read_latency=p.lat(j), write_latency=p.lat(j + 1)) for j in range(n_shards)]
    ss = ShardedStore("sharded", shards, sharding_strategy=_strategy(v, seed, n_shards))
    stores = [kv, cs, st, mt, rs, ss]
    hold = p.hold()

    def body(proc, event):
        i = _w(event)
        s = stores[i % len(stores)]
        k = KEYS[i % 2]
        out = [(yield from s.get(k))]  # empty store
        if hasattr(s, "delete"):
            out.append((yield from s.delete(k)))
        if s is ss:
            out.append((yield from ss.scatter_gather([])))
            out.append((yield from ss.scatter_gather([k])))
        if s is cs:
            out.append((yield from cs.flush()))
            cs.invalidate(k)
            cs.invalidate_all()
        if s is st:
            st.invalidate(k)
            st.invalidate_all()
        if s is mt:
            mt.invalidate(k)
            mt.invalidate_all()
        yield hold
        yield from s.put(k, i)
        out.append((yield from s.get(k)))
        if hasattr(s, "delete"):
            out.append((yield from s.delete(k)))
            out.append((yield from s.delete(k)))
        out.append((yield from s.get(k)))
        if s is cs:
            out.append((yield from cs.flush()))
        proc.log.append(str(out))
        proc.done += 1

    arr = p.arrivals(12)
    procs = [Proc(f"w{i}", body) for i in range(len(arr))]
    sim = make_sim([kv, back, cs, st, tier, mt, rep, rs, *shards, ss, *procs], p.end())
    _start(sim, procs, arr)
    return Scenario(sim, {"kv": kv, "cache": cs, "sttl": st, "mt": mt, "rs": rs, "sharded": ss}, "datastore", True, len(arr))


# ----------------------------------------------------------------------
# Database


def _db_body(db, hold, late_after=None, late_by=0.0):
    def body(proc, event):
        i = _w(event)
        if late_after is not None and i >= late_after:
            yield late_by  # arrives once the first `late_after` clients own the whole pool
        if i % 4 == 0:
            r = yield from db.execute(f"SELECT * FROM t WHERE id = {i}")
            r0 = yield from db.execute("")  # empty query
            proc.log.append(("q", r, r0))
        elif i % 8 == 5:
            tx = yield from db.begin_transaction()
            yield from tx.commit()  # empty transaction
            tx2 = yield from db.begin_transaction()
            yield from tx2.rollback()  # empty transaction
            proc.log.append(("empty-tx", tx.state.name, tx2.state.name))
        else:
            tx = yield from db.begin_transaction()
            r1 = yield from tx.execute(f"INSERT INTO t VALUES ({i})")
            yield hold  # keeps the connection while the others poll for one
            r2 = yield from tx.execute("SELECT * FROM t")
            if i % 4 == 3:
                yield from tx.rollback()
            else:
                yield from tx.execute("UPDATE t SET x = 1")
                r3 = yield from tx.execute("   ")  # blank statement inside a transaction
                yield from tx.commit()
            proc.log.append(("tx", tx.state.name, r1, r2))
            if i % 4 == 2:  # connection re-use straight after release
                r = yield from db.execute("DELETE FROM t")
                proc.log.append(("q2", r))
        proc.done += 1

    return body


@scenario("datastore.database_pool_exhaustion", "datastore")
def database_pool_exhaustion(seed, params):
    """More clients than max_connections.  The first `cap` clients create the pool, all others
    arrive a little later (still bunched) and must poll for a connection while the holders sit
    in transactions (commit and rollback)."""
    p = P(params, seed)
    db = Database(
        "db",
        max_connections=p.cap(2),
        query_latency=p.lat(0),
        connection_latency=p.lat(1),
        commit_latency=p.lat(2),
        rollback_latency=p.lat(3),
    )
    db.create_table("t")
    arr = p.arrivals(8)
    procs = [Proc(f"c{i}", _db_body(db, p.hold(), late_after=p.cap(2), late_by=p.lat(1) * 1.5)) for i in range(len(arr))]
    sim = make_sim([db, *procs], p.end())
    _start(sim, procs, arr)
    return Scenario(sim, {"db": db}, "datastore", True, len(arr))


@scenario("datastore.database_callable_latency", "datastore")
def database_callable_latency(seed, params):
    """Pure burst on a single-connection pool with a per-query latency function."""
    p = P(params, seed)
    l0, l1 = p.lat(0), p.lat(4)

    def qlat(q: str) -> float:
        return l0 if q.upper().startswith("SELECT") else l0 + l1

    db = Database("db", max_connections=1, query_latency=qlat, connection_latency=p.lat(1), commit_latency=p.lat(2), rollback_latency=p.lat(3))
    arr = p.arrivals(5)
    procs = [Proc(f"c{i}", _db_body(db, p.hold())) for i in range(len(arr))]
    sim = make_sim([db, *procs], p.end())
    _start(sim, procs, arr)
    return Scenario(sim, {"db": db}, "datastore", True, len(arr))


@scenario("datastore.database_slow_connect_single", "datastore")
def database_slow_connect_single(seed, params):
    """max_connections=1 and connection_latency 50x the query latency (commit / rollback even
    shorter): clients that arrive while the only connection is still being established."""
    p = P(params, seed)
    q = p.lat(0)
    db = Database("db", max_connections=1, query_latency=q, connection_latency=q * 50, commit_latency=max(q / 4, 1e-9), rollback_latency=max(q / 8, 1e-9))
    arr = p.arrivals(5)
    # the first client opens the connection; the others arrive while / after it is established
    procs = [Proc(f"c{i}", _db_body(db, min(p.hold(), q * 10), late_after=1, late_by=q * (25 if i % 2 else 75))) for i in range(len(arr))]
    sim = make_sim([db, *procs], p.end())
    _start(sim, procs, arr)
    return Scenario(sim, {"db": db}, "datastore", True, len(arr))


# ----------------------------------------------------------------------
# CacheWarmer


def _warm_setup(p, seed, kind, keys):
    kv = _backing(p, keys[:-1] if len(keys) > 1 else keys)  # the last key is missing -> keys_failed
    if kind % 2 == 0:
        cache = CachedStore("cache", kv, cache_capacity=p.cap(2) + 2, eviction_policy=_policy(kind // 2, p, seed, kv), cache_read_latency=p.lat(3))
    else:
        cache = SoftTTLCache("cache", kv, soft_ttl=p.lat(3) * 2, hard_ttl=p.lat(3) * 6, cache_capacity=p.cap(2) + 2, cache_read_latency=p.lat(4))
    return kv, cache


@scenario("datastore.cache_warmer_cold_start", "datastore")
def cache_warmer_cold_start(seed, params):
    """Documented usage: start_warming() scheduled before the run; clients read and write the
    same keys while the warmer walks its key list (callable key provider)."""
    p = P(params, seed)
    klist = _keys(p)
    kv, cache = _warm_setup(p, seed, int(p.x("v", seed)), klist)
    rng = random.Random(seed)
    keys = list(klist)
    rng.shuffle(keys)
    warmer = CacheWarmer("warmer", cache=cache, keys_to_warm=lambda: list(keys), warmup_rate=1.0 / p.lat(5), warmup_latency=p.lat(6))
    hold = p.hold()

    def body(proc, event):
        i = _w(event)
        k = klist[i % min(3, len(klist))]
        a = yield from cache.get(k)
        if i % 2:
            yield from cache.put(k, i)
        yield hold
        b = yield from cache.get(klist[(i + 3) % len(klist)])
        proc.log.append((a, b, round(warmer.progress, 3)))
        proc.done += 1

    arr = p.arrivals(6)
    procs = [Proc(f"w{i}", body) for i in range(len(arr))]
    sim = make_sim([kv, cache, warmer, *procs], p.end())
    sim.schedule(warmer.start_warming())
    _start(sim, procs, arr)
    return Scenario(sim, {"warmer": warmer, "cache": cache, "backing": kv}, "datastore", True, len(arr) + 1)


@scenario("datastore.cache_warmer_rewarm", "datastore")
def cache_warmer_rewarm(seed, params):
    """Cold-start warm-up scheduled before the run, then a re-warm during the run: an operator
    entity flushes the cache at t > 0 and schedules the event returned by
    `warmer.start_warming()` exactly as returned."""
    p = P(params, seed)
    klist = _keys(p)
    kv, cache = _warm_setup(p, seed, int(p.x("v", seed)), klist)
    warmer = CacheWarmer("warmer", cache=cache, keys_to_warm=list(klist), warmup_rate=1.0 / p.lat(5), warmup_latency=p.lat(6))
    hold = p.hold()

    def operator(proc, event):
        yield hold
        while not warmer.is_complete:  # let the cold-start warm-up finish first
            yield max(hold, 0.001)
        cache.invalidate_all()
        proc.done += 1
        return [warmer.start_warming()]

    def body(proc, event):
        i = _w(event)
        k = klist[i % min(3, len(klist))]
        a = yield from cache.get(k)
        yield hold * 2 + len(klist) * (p.lat(5) + p.lat(0))
        b = yield from cache.get(k)
        proc.log.append((a, b, warmer.is_complete))
        proc.done += 1

    arr = p.arrivals(5)
    procs = [Proc(f"w{i}", body) for i in range(len(arr))]
    op = Proc("operator", operator)
    sim = make_sim([kv, cache, warmer, op, *procs], p.end())
    sim.schedule(warmer.start_warming())
    _start(sim, procs, arr)
    sim.schedule(ev(max(arr), "start", op, worker=-1))
    return Scenario(sim, {"warmer": warmer, "cache": cache}, "datastore", True, len(arr) + 2)


@scenario("datastore.cache_warmer_empty_keys", "datastore")
def cache_warmer_empty_keys(seed, params):
    """Nothing to warm: an empty key list (scheduled before the run), a callable that returns []
    (started in the middle of the run) and a single-key list whose key does not exist; the
    warm-up rate is far above / below the cache latency by x.v parity."""
    p = P(params, seed)
    v = int(p.x("v", seed))
    kv, cache = _warm_setup(p, seed, v, _keys(p, default=2))
    rate = min(1000.0 / p.lat(5), 1e9) if v % 2 else (0.05 / p.lat(5))
    w_empty = CacheWarmer("warm_empty", cache=cache, keys_to_warm=[], warmup_rate=rate, warmup_latency=p.lat(6))
    w_call = CacheWarmer("warm_callable", cache=cache, keys_to_warm=lambda: [], warmup_rate=rate, warmup_latency=p.lat(6))
    w_miss = CacheWarmer("warm_missing", cache=cache, keys_to_warm=[MISSING], warmup_rate=rate, warmup_latency=p.lat(6))
    hold = p.hold()

    def operator(proc, event):
        yield hold
        proc.done += 1
        return [w_call.start_warming(), w_miss.start_warming()]

    def body(proc, event):
        a = yield from cache.get(KEYS[0])
        yield hold * 2
        b = yield from cache.get(MISSING)
        proc.log.append((a, b, w_empty.is_complete, w_call.is_complete, w_miss.is_complete, w_empty.progress))
        proc.done += 1

    arr = p.arrivals(3)
    procs = [Proc(f"w{i}", body) for i in range(len(arr))]
    op = Proc("operator", operator)
    sim = make_sim([kv, cache, w_empty, w_call, w_miss, op, *procs], p.end())
    sim.schedule(w_empty.start_warming())
    _start(sim, procs, arr)
    sim.schedule(ev(min(arr), "start", op, worker=-1))
    comps = {"warm_empty": w_empty, "warm_callable": w_call, "warm_missing": w_miss, "cache": cache}
    return Scenario(sim, comps, "datastore", True, len(arr) + 2)


# ----------------------------------------------------------------------
# default construction


@scenario("datastore.default_construction", "datastore")
def default_construction(seed, params):
    """Every component built with its DEFAULT arguments wherever it has one (latencies, timeouts,
    consistency levels, sharding strategy, promotion policy, warm-up rate, pool size); worker i
    uses store i mod 7; only the workload comes from the parameters."""
    p = P(params, seed)
    kv = KVStore("kv")
    back = KVStore("backing")
    for j, k in enumerate(KEYS[:4]):
        back.put_sync(k, 100 + j)
    cs = CachedStore("cache", back, cache_capacity=2, eviction_policy=LRUEviction())
    st = SoftTTLCache("sttl", back, soft_ttl=0.002, hard_ttl=0.02)
    mt = MultiTierCache("mt", tiers=[cs], backing_store=back)
    reps = [KVStore(f"r{j}") for j in range(3)]
    rs = ReplicatedStore("rs", reps)
    shards = [KVStore(f"s{j}") for j in range(2)]
    ss = ShardedStore("sharded", shards)
    db = Database("db")
    warmer = CacheWarmer("warmer", cache=st, keys_to_warm=list(KEYS[:5]))
    stores = [kv, cs, st, mt, rs, ss]
    hold = p.hold()

    def body(proc, event):
        i = _w(event)
        if i % 7 == 6:
            r = yield from db.execute("SELECT 1")
            tx = yield from db.begin_transaction()
            yield from tx.execute("UPDATE t SET x = 1")
            yield from tx.commit()
            proc.log.append(str(r))
        else:
            s = stores[i % 7]
            k = KEYS[i % 4]
            a = yield from s.get(k)
            yield from s.put(k, i)
            yield hold
            b = yield from s.get(k)
            c = yield from s.get(MISSING)
            d = (yield from s.delete(k)) if hasattr(s, "delete") else None
            if s is ss:
                d = (d, sorted((yield from ss.scatter_gather(list(KEYS[:4])))))
            proc.log.append(str((a, b, c, d)))
        proc.done += 1

    arr = p.arrivals(14)
    procs = [Proc(f"w{i}", body) for i in range(len(arr))]
    sim = make_sim([kv, back, cs, st, mt, *reps, rs, *shards, ss, db, warmer, *procs], p.end())
    sim.schedule(warmer.start_warming())
    _start(sim, procs, arr)
    comps = {"kv": kv, "cache": cs, "sttl": st, "mt": mt, "rs": rs, "sharded": ss, "db": db, "warmer": warmer}
    return Scenario(sim, comps, "datastore", True, len(arr) + 1)

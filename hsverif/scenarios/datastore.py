"""datastore family: KVStore, CachedStore, SoftTTLCache, MultiTierCache, ReplicatedStore,
ShardedStore, Database (+Transaction), CacheWarmer.

All of these expose generator APIs (`yield from store.get(k)`), so they are driven from
`Proc` harness entities: one worker per arrival instant, the workers share a small key set
and overlap in time (a get issued while a put / flush / refresh is still in progress).
`SoftTTLCache` and `CacheWarmer` additionally have real `handle_event` paths
(`_sttl_refresh`, `cache_warm`) which the builders reach through the library's own events.
"""

from __future__ import annotations

import random

from happysimulator.components.datastore import (
    CachedStore,
    CacheWarmer,
    ClockEviction,
    ConsistencyLevel,
    ConsistentHashSharding,
    Database,
    FIFOEviction,
    HashSharding,
    KVStore,
    LFUEviction,
    LRUEviction,
    MultiTierCache,
    PromotionPolicy,
    RandomEviction,
    RangeSharding,
    ReplicatedStore,
    SampledLRUEviction,
    ShardedStore,
    SLRUEviction,
    SoftTTLCache,
    TTLEviction,
    TwoQueueEviction,
    WriteAround,
    WriteBack,
    WriteThrough,
)

from hsverif.scenarios import Scenario, scenario
from hsverif.scenarios._kit import P, Proc, ev, make_sim

KEYS = ["a0", "h1", "m2", "q3", "x4", "k5"]
N_POLICIES = 9


def _start(sim, procs, arrivals):
    for i, t in enumerate(arrivals):
        sim.schedule(ev(t, "start", procs[i % len(procs)], worker=i))


def _w(event) -> int:
    return event.context["metadata"]["worker"]


def _policy(idx: int, p: P, seed: int, clock_entity):
    """One of the nine eviction policies (TTL reads the *simulated* clock)."""
    idx %= N_POLICIES
    if idx == 0:
        return LRUEviction()
    if idx == 1:
        return LFUEviction()
    if idx == 2:
        return TTLEviction(ttl=p.lat(5) * 2, clock_func=lambda: clock_entity.now.to_seconds())
    if idx == 3:
        return FIFOEviction()
    if idx == 4:
        return RandomEviction(seed=seed)
    if idx == 5:
        return SLRUEviction(protected_ratio=0.5)
    if idx == 6:
        return SampledLRUEviction(sample_size=2, seed=seed)
    if idx == 7:
        return ClockEviction()
    return TwoQueueEviction(kin_ratio=0.5)


class FlakyKV(KVStore):
    """Replica that times out on every k-th call (public extension point: a KVStore subclass)."""

    def __init__(self, name: str, fail_every: int, **kw):
        super().__init__(name, **kw)
        self.fail_every = max(2, fail_every)
        self.calls = 0

    def _maybe_fail(self, latency):
        self.calls += 1
        if self.calls % self.fail_every == 0:
            yield latency
            raise TimeoutError(f"{self.name} timed out")

    def get(self, key):
        yield from self._maybe_fail(self.read_latency)
        return (yield from super().get(key))

    def put(self, key, value):
        yield from self._maybe_fail(self.write_latency)
        yield from super().put(key, value)

    def delete(self, key):
        yield from self._maybe_fail(self.write_latency)
        return (yield from super().delete(key))


# ----------------------------------------------------------------------
# KVStore


@scenario("datastore.kvstore_contention", "datastore")
def kvstore_contention(seed, params):
    """Bounded KVStore: same-key puts / gets / deletes overlap, new keys force evictions."""
    p = P(params, seed)
    kv = KVStore("kv", read_latency=p.lat(0), write_latency=p.lat(1), delete_latency=p.lat(2), capacity=p.cap(2))
    hold = p.hold()

    def body(proc, event):
        i = _w(event)
        k = KEYS[i % 2]
        if i % 4 == 0:
            yield from kv.put(k, i)
            v = yield from kv.get(k)
            proc.log.append(("rw", v))
        elif i % 4 == 1:
            v = yield from kv.get(k)
            yield hold
            yield from kv.put(KEYS[2 + i % 4], i)  # new key: eviction when full
            proc.log.append(("r", v))
        elif i % 4 == 2:
            yield from kv.put(k, -i)
            ok = yield from kv.delete(k)
            proc.log.append(("d", ok))
        else:
            ok = yield from kv.delete(k)
            v = yield from kv.get(k)
            yield from kv.put(k, i)
            proc.log.append(("dr", ok, v))
        proc.done += 1

    arr = p.arrivals(8)
    procs = [Proc(f"w{i}", body) for i in range(len(arr))]
    sim = make_sim([kv, *procs], p.end())
    _start(sim, procs, arr)
    return Scenario(sim, {"kv": kv}, "datastore", True, len(arr))


# ----------------------------------------------------------------------
# CachedStore


def _cached_workload(cs, hold):
    def body(proc, event):
        i = _w(event)
        k = KEYS[i % 3]
        if i % 5 == 0:
            yield from cs.put(k, i)
            v = yield from cs.get(k)
        elif i % 5 == 1:
            v = yield from cs.get(k)  # miss while the put above is still writing through
            yield hold
            v = yield from cs.get(k)
        elif i % 5 == 2:
            yield from cs.put(KEYS[3 + i % 3], i)  # other keys: evictions
            v = yield from cs.get(KEYS[(i + 1) % 3])
        elif i % 5 == 3:
            v = yield from cs.delete(k)
            yield from cs.put(k, -i)
        else:
            cs.invalidate(k)
            v = yield from cs.get(k)
            yield hold
            v = yield from cs.get(KEYS[3 + i % 3])
        proc.log.append(v if isinstance(v, (int, bool)) or v is None else str(v))
        proc.done += 1

    return body


@scenario("datastore.cached_store_write_through", "datastore")
def cached_store_write_through(seed, params):
    """Write-through CachedStore over a slow KVStore; eviction policy = x.v mod 9 (all nine)."""
    p = P(params, seed)
    kv = KVStore("backing", read_latency=p.lat(0), write_latency=p.lat(1), delete_latency=p.lat(2))
    for j, k in enumerate(KEYS):
        kv.put_sync(k, 100 + j)
    pol = _policy(int(p.x("v", seed)), p, seed, kv)
    cs = CachedStore("cache", kv, cache_capacity=p.cap(2), eviction_policy=pol, cache_read_latency=p.lat(3), write_through=True)
    arr = p.arrivals(10)
    procs = [Proc(f"w{i}", _cached_workload(cs, p.hold())) for i in range(len(arr))]
    sim = make_sim([kv, cs, *procs], p.end())
    _start(sim, procs, arr)
    return Scenario(sim, {"cache": cs, "backing": kv}, "datastore", True, len(arr), notes=type(pol).__name__)


@scenario("datastore.cached_store_write_back", "datastore")
def cached_store_write_back(seed, params):
    """Write-back CachedStore (write_through=False) with a flusher steered by the WriteBack /
    WriteAround / WriteThrough policy objects of write_policies.py; flush() overlaps the writers."""
    p = P(params, seed)
    kv = KVStore("backing", read_latency=p.lat(0), write_latency=p.lat(1), delete_latency=p.lat(2))
    for j, k in enumerate(KEYS):
        kv.put_sync(k, 100 + j)
    pol = _policy(int(p.x("v", seed)) + 1, p, seed, kv)
    cs = CachedStore("cache", kv, cache_capacity=p.cap(2) + 1, eviction_policy=pol, cache_read_latency=p.lat(3), write_through=False)
    wb = WriteBack(flush_interval=p.lat(4) * 3, max_dirty=2)
    wa = WriteAround()
    wt = WriteThrough()
    hold = p.hold()
    arr = p.arrivals(9)

    def writer(proc, event):
        i = _w(event)
        k = KEYS[(i // 3) % 2]  # write-back writers and the readers share a0/h1
        if i % 3 == 0:  # write-back path
            yield from cs.put(k, i)
            wb.on_write(k, i)
            if wb.should_flush() and not wb.should_write_through():
                keys = wb.get_keys_to_flush()
                n = yield from cs.flush()  # overlaps the other writers
                wb.on_flush(keys)
                proc.log.append(("flush", n))
        elif i % 3 == 1:  # write-around path: store first, then invalidate the cached copy
            k = KEYS[4 + (i // 3) % 2]
            yield from kv.put(k, i)
            wa.on_write(k, i)
            for kk in wa.get_keys_to_invalidate():
                cs.invalidate(kk)
            v = yield from cs.get(k)
            proc.log.append(("around", v))
        else:  # reader racing the dirty data
            v = yield from cs.get(k)
            yield hold
            wt.on_write(k, v)
            ok = (yield from cs.delete(k)) if i % 2 else None
            proc.log.append(("rd", v, ok))
        proc.done += 1

    def flusher(proc, event):
        for _ in range(3):
            yield wb.flush_interval
            n = yield from cs.flush()
            wb.on_flush(wb.get_keys_to_flush())
            proc.log.append(n)
        proc.done += 1

    procs = [Proc(f"w{i}", writer) for i in range(len(arr))]
    fl = Proc("flusher", flusher)
    sim = make_sim([kv, cs, fl, *procs], p.end())
    _start(sim, procs, arr)
    sim.schedule(ev(min(arr), "start", fl, worker=-1))
    return Scenario(sim, {"cache": cs, "backing": kv}, "datastore", True, len(arr) + 1, notes=type(pol).__name__)


# ----------------------------------------------------------------------
# SoftTTLCache


@scenario("datastore.soft_ttl_refresh", "datastore")
def soft_ttl_refresh(seed, params):
    """Readers hit fresh / stale / expired entries; stale hits start background refreshes
    (`_sttl_refresh` events handled by the cache itself) which later readers coalesce on."""
    p = P(params, seed)
    kv = KVStore("backing", read_latency=p.lat(0) * 2, write_latency=p.lat(1))
    for j, k in enumerate(KEYS):
        kv.put_sync(k, 100 + j)
    soft = p.lat(2)
    crl = p.lat(3)
    hard = soft * 3 + crl * 4 + kv.read_latency * 2  # wide enough for a stale window after one cached read
    c = SoftTTLCache("sttl", kv, soft_ttl=soft, hard_ttl=hard, cache_capacity=p.cap(2) + 1, cache_read_latency=crl)

    def body(proc, event):
        i = _w(event)
        k = KEYS[i % 2]
        v0 = yield from c.get(k)  # hard miss (several workers on the same key)
        v1 = yield from c.get(k)  # fresh hit
        yield soft * 1.5
        v2 = yield from c.get(k)  # stale hit -> background refresh
        if i % 3 == 2:
            c.invalidate(k)  # entry dropped while its refresh is in flight -> coalesced hard miss
            v2 = yield from c.get(k)
        v3 = yield from c.get(KEYS[2 + i % 3])  # other keys: LRU eviction, maybe of a refreshing key
        v4 = yield from c.get(k)  # refresh in flight: stale hit again or coalesced miss
        if i % 3 == 0:
            yield from c.put(k, i)
        elif i % 3 == 1:
            c.invalidate(k)
        yield hard * 1.1
        v5 = yield from c.get(k)  # expired
        proc.log.append([v0, v1, v2, v3, v4, v5])
        proc.done += 1

    arr = p.arrivals(6)
    procs = [Proc(f"w{i}", body) for i in range(len(arr))]
    sim = make_sim([kv, c, *procs], p.end())
    _start(sim, procs, arr)
    return Scenario(sim, {"sttl": c, "backing": kv}, "datastore", True, len(arr))


# ----------------------------------------------------------------------
# MultiTierCache


@scenario("datastore.multi_tier", "datastore")
def multi_tier(seed, params):
    """L1/L2 CachedStores over one KVStore; L2 is warmed by a CacheWarmer while clients
    read / write / delete through the MultiTierCache (promotion policy = x.v mod 3)."""
    p = P(params, seed)
    v = int(p.x("v", seed))
    kv = KVStore("backing", read_latency=p.lat(0), write_latency=p.lat(1), delete_latency=p.lat(2))
    for j, k in enumerate(KEYS):
        kv.put_sync(k, 100 + j)
    l1 = CachedStore("l1", kv, cache_capacity=p.cap(2), eviction_policy=_policy(v, p, seed, kv), cache_read_latency=p.lat(3))
    l2 = CachedStore("l2", kv, cache_capacity=p.cap(2) * 3, eviction_policy=_policy(v + 3, p, seed, kv), cache_read_latency=p.lat(4))
    promo = list(PromotionPolicy)[v % 3]
    mt = MultiTierCache("mt", tiers=[l1, l2], backing_store=kv, promotion_policy=promo)
    warmer = CacheWarmer("l2warmer", cache=l2, keys_to_warm=list(KEYS), warmup_rate=1.0 / p.lat(5), warmup_latency=p.lat(6))
    hold = p.hold()
    warm_time = len(KEYS) * (p.lat(5) + p.lat(0) + p.lat(4)) + hold

    def body(proc, event):
        i = _w(event)
        k = KEYS[i % 4]
        if i % 4 == 0:
            a = yield from mt.get(k)
            b = yield from mt.get(k)
        elif i % 4 == 1:
            yield from mt.put(k, i)
            a = yield from mt.get(KEYS[(i + 1) % 4])
            b = None
        elif i % 4 == 2:
            a = yield from mt.get(k)
            yield hold
            b = yield from mt.delete(k)
        else:
            mt.invalidate(k)
            a = yield from mt.get(k)
            yield hold
            b = yield from mt.get(KEYS[4 + i % 2])
        yield warm_time  # by now the warmer has filled L2 while L1 (small) has evicted
        c = yield from mt.get(KEYS[(i + 2) % len(KEYS)])
        d = yield from mt.get(KEYS[(i + 2) % len(KEYS)])
        proc.log.append((a, b, c, d))
        proc.done += 1

    arr = p.arrivals(8)
    procs = [Proc(f"w{i}", body) for i in range(len(arr))]
    sim = make_sim([kv, l1, l2, mt, warmer, *procs], p.end())
    sim.schedule(warmer.start_warming())  # documented usage: scheduled before the run (t = 0)
    _start(sim, procs, arr)
    return Scenario(sim, {"mt": mt, "l1": l1, "l2": l2, "warmer": warmer}, "datastore", True, len(arr) + 1, notes=promo.name)


# ----------------------------------------------------------------------
# ReplicatedStore


@scenario("datastore.replicated_quorum", "datastore")
def replicated_quorum(seed, params):
    """Three replicas with different latencies, one of them timing out periodically;
    consistency levels from x.v; same-key reads overlap writes and deletes."""
    p = P(params, seed)
    v = int(p.x("v", seed))
    levels = [ConsistencyLevel.QUORUM, ConsistencyLevel.ONE, ConsistencyLevel.ALL]
    reps = [
        KVStore("r0", read_latency=p.lat(0), write_latency=p.lat(1)),
        FlakyKV("r1", fail_every=3, read_latency=p.lat(2), write_latency=p.lat(3)),
        KVStore("r2", read_latency=p.lat(4), write_latency=p.lat(5), capacity=p.cap(2)),
    ]
    rs = ReplicatedStore(
        "rs",
        reps,
        read_consistency=levels[v % 3],
        write_consistency=levels[(v // 3) % 3],
        read_timeout=p.lat(6) * 10,
        write_timeout=p.lat(7) * 20,
    )
    hold = p.hold()

    def body(proc, event):
        i = _w(event)
        k = KEYS[i % 2]
        if i % 3 == 0:
            ok = yield from rs.put(k, i)
            val = yield from rs.get(k)
        elif i % 3 == 1:
            val = yield from rs.get(k)
            yield hold
            ok = yield from rs.put(KEYS[2 + i % 4], i)
        else:
            ok = yield from rs.delete(k)
            val = yield from rs.get(k)
        proc.log.append((ok, val))
        proc.done += 1

    arr = p.arrivals(8)
    procs = [Proc(f"w{i}", body) for i in range(len(arr))]
    sim = make_sim([*reps, rs, *procs], p.end())
    _start(sim, procs, arr)
    return Scenario(sim, {"rs": rs, **{r.name: r for r in reps}}, "datastore", True, len(arr))


# ----------------------------------------------------------------------
# ShardedStore


def _strategy(v: int, seed: int):
    return [HashSharding(), RangeSharding(), RangeSharding(boundaries=["h", "q"]), ConsistentHashSharding(virtual_nodes=8, seed=seed)][v % 4]


@scenario("datastore.sharded_scatter_gather", "datastore")
def sharded_scatter_gather(seed, params):
    """ShardedStore over KVStore shards of unequal speed; scatter_gather sweeps all keys
    while point writes / deletes on the same keys are in progress (strategy = x.v mod 4)."""
    p = P(params, seed)
    v = int(p.x("v", seed))
    n_shards = 3
    shards = [KVStore(f"s{j}", read_latency=p.lat(2 * j), write_latency=p.lat(2 * j + 1), capacity=p.cap(2) + 1) for j in range(n_shards)]
    ss = ShardedStore("sharded", shards, sharding_strategy=_strategy(v, seed))
    hold = p.hold()

    def body(proc, event):
        i = _w(event)
        k = KEYS[i % len(KEYS)]
        if i % 4 == 0:
            yield from ss.put(k, i)
            r = yield from ss.get(k)
        elif i % 4 == 1:
            r = yield from ss.scatter_gather(list(KEYS))
            r = sorted(r)
        elif i % 4 == 2:
            yield from ss.put(k, i)
            yield hold
            r = yield from ss.delete(k)
        else:
            r = yield from ss.get(k)
            yield from ss.put(k, -i)
            r2 = yield from ss.scatter_gather([k, KEYS[(i + 1) % len(KEYS)]])
            r = (r, sorted(r2))
        proc.log.append(str(r))
        proc.done += 1

    arr = p.arrivals(8)
    procs = [Proc(f"w{i}", body) for i in range(len(arr))]
    sim = make_sim([*shards, ss, *procs], p.end())
    _start(sim, procs, arr)
    return Scenario(sim, {"sharded": ss}, "datastore", True, len(arr), notes=type(ss.sharding_strategy).__name__)


@scenario("datastore.cached_sharded_replicated", "datastore")
def cached_sharded_replicated(seed, params):
    """Composite: CachedStore -> ShardedStore -> ReplicatedStore -> KVStore replicas."""
    p = P(params, seed)
    v = int(p.x("v", seed))
    kvs, groups = [], []
    for g in range(2):
        reps = [KVStore(f"g{g}r{j}", read_latency=p.lat(g * 2 + j), write_latency=p.lat(g * 2 + j + 3)) for j in range(2)]
        kvs += reps
        groups.append(
            ReplicatedStore(
                f"group{g}",
                reps,
                read_consistency=[ConsistencyLevel.ONE, ConsistencyLevel.ALL][(v + g) % 2],
                write_consistency=ConsistencyLevel.ALL,
                read_timeout=p.lat(6) * 10,
                write_timeout=p.lat(7) * 10,
            )
        )
    ss = ShardedStore("sharded", groups, sharding_strategy=_strategy(v, seed)) if v % 4 != 2 else ShardedStore("sharded", groups)
    cs = CachedStore("front", ss, cache_capacity=p.cap(2), eviction_policy=_policy(v + 5, p, seed, ss), cache_read_latency=p.lat(2), write_through=True)
    arr = p.arrivals(8)
    procs = [Proc(f"w{i}", _cached_workload(cs, p.hold())) for i in range(len(arr))]
    sim = make_sim([*kvs, *groups, ss, cs, *procs], p.end())
    _start(sim, procs, arr)
    return Scenario(sim, {"front": cs, "sharded": ss, "group0": groups[0], "group1": groups[1]}, "datastore", True, len(arr))


# ----------------------------------------------------------------------
# Database


def _db_body(db, hold, late_after=None, late_by=0.0):
    def body(proc, event):
        i = _w(event)
        if late_after is not None and i >= late_after:
            yield late_by  # arrives once the first `late_after` clients own the whole pool
        if i % 4 == 0:
            r = yield from db.execute(f"SELECT * FROM t WHERE id = {i}")
            proc.log.append(("q", r))
        else:
            tx = yield from db.begin_transaction()
            r1 = yield from tx.execute(f"INSERT INTO t VALUES ({i})")
            yield hold  # keeps the connection while the others poll for one
            r2 = yield from tx.execute("SELECT * FROM t")
            if i % 4 == 3:
                yield from tx.rollback()
            else:
                yield from tx.execute("UPDATE t SET x = 1")
                yield from tx.commit()
            proc.log.append(("tx", tx.state.name, r1, r2))
            if i % 4 == 2:  # connection re-use straight after release
                r = yield from db.execute("DELETE FROM t")
                proc.log.append(("q2", r))
        proc.done += 1

    return body


@scenario("datastore.database_pool_exhaustion", "datastore")
def database_pool_exhaustion(seed, params):
    """More clients than max_connections.  The first `cap` clients create the pool, all others
    arrive a little later (still bunched) and must poll for a connection while the holders sit
    in transactions (commit and rollback)."""
    p = P(params, seed)
    db = Database(
        "db",
        max_connections=p.cap(2),
        query_latency=p.lat(0),
        connection_latency=p.lat(1),
        commit_latency=p.lat(2),
        rollback_latency=p.lat(3),
    )
    db.create_table("t")
    arr = p.arrivals(8)
    procs = [Proc(f"c{i}", _db_body(db, p.hold(), late_after=p.cap(2), late_by=p.lat(1) * 1.5)) for i in range(len(arr))]
    sim = make_sim([db, *procs], p.end())
    _start(sim, procs, arr)
    return Scenario(sim, {"db": db}, "datastore", True, len(arr))


@scenario("datastore.database_callable_latency", "datastore")
def database_callable_latency(seed, params):
    """Pure burst on a single-connection pool with a per-query latency function."""
    p = P(params, seed)
    l0, l1 = p.lat(0), p.lat(4)

    def qlat(q: str) -> float:
        return l0 if q.upper().startswith("SELECT") else l0 + l1

    db = Database("db", max_connections=1, query_latency=qlat, connection_latency=p.lat(1), commit_latency=p.lat(2), rollback_latency=p.lat(3))
    arr = p.arrivals(5)
    procs = [Proc(f"c{i}", _db_body(db, p.hold())) for i in range(len(arr))]
    sim = make_sim([db, *procs], p.end())
    _start(sim, procs, arr)
    return Scenario(sim, {"db": db}, "datastore", True, len(arr))


# ----------------------------------------------------------------------
# CacheWarmer


def _warm_setup(p, seed, kind):
    kv = KVStore("backing", read_latency=p.lat(0), write_latency=p.lat(1), delete_latency=p.lat(2))
    for j, k in enumerate(KEYS[:-1]):  # the last key is missing -> keys_failed
        kv.put_sync(k, 100 + j)
    if kind % 2 == 0:
        cache = CachedStore("cache", kv, cache_capacity=p.cap(2) + 2, eviction_policy=_policy(kind // 2, p, seed, kv), cache_read_latency=p.lat(3))
    else:
        cache = SoftTTLCache("cache", kv, soft_ttl=p.lat(3) * 2, hard_ttl=p.lat(3) * 6, cache_capacity=p.cap(2) + 2, cache_read_latency=p.lat(4))
    return kv, cache


@scenario("datastore.cache_warmer_cold_start", "datastore")
def cache_warmer_cold_start(seed, params):
    """Documented usage: start_warming() scheduled before the run; clients read and write the
    same keys while the warmer walks its key list (callable key provider)."""
    p = P(params, seed)
    kv, cache = _warm_setup(p, seed, int(p.x("v", seed)))
    rng = random.Random(seed)
    keys = list(KEYS)
    rng.shuffle(keys)
    warmer = CacheWarmer("warmer", cache=cache, keys_to_warm=lambda: list(keys), warmup_rate=1.0 / p.lat(5), warmup_latency=p.lat(6))
    hold = p.hold()

    def body(proc, event):
        i = _w(event)
        k = KEYS[i % 3]
        a = yield from cache.get(k)
        if i % 2:
            yield from cache.put(k, i)
        yield hold
        b = yield from cache.get(KEYS[(i + 3) % len(KEYS)])
        proc.log.append((a, b, round(warmer.progress, 3)))
        proc.done += 1

    arr = p.arrivals(6)
    procs = [Proc(f"w{i}", body) for i in range(len(arr))]
    sim = make_sim([kv, cache, warmer, *procs], p.end())
    sim.schedule(warmer.start_warming())
    _start(sim, procs, arr)
    return Scenario(sim, {"warmer": warmer, "cache": cache, "backing": kv}, "datastore", True, len(arr) + 1)


@scenario("datastore.cache_warmer_rewarm", "datastore")
def cache_warmer_rewarm(seed, params):
    """Cold-start warm-up scheduled before the run, then a re-warm during the run: an operator
    entity flushes the cache at t > 0 and schedules the event returned by
    `warmer.start_warming()` exactly as returned."""
    p = P(params, seed)
    kv, cache = _warm_setup(p, seed, int(p.x("v", seed)))
    warmer = CacheWarmer("warmer", cache=cache, keys_to_warm=list(KEYS), warmup_rate=1.0 / p.lat(5), warmup_latency=p.lat(6))
    hold = p.hold()

    def operator(proc, event):
        yield hold
        while not warmer.is_complete:  # let the cold-start warm-up finish first
            yield max(hold, 0.001)
        cache.invalidate_all()
        proc.done += 1
        return [warmer.start_warming()]

    def body(proc, event):
        i = _w(event)
        k = KEYS[i % 3]
        a = yield from cache.get(k)
        yield hold * 2 + len(KEYS) * (p.lat(5) + p.lat(0))
        b = yield from cache.get(k)
        proc.log.append((a, b, warmer.is_complete))
        proc.done += 1

    arr = p.arrivals(5)
    procs = [Proc(f"w{i}", body) for i in range(len(arr))]
    op = Proc("operator", operator)
    sim = make_sim([kv, cache, warmer, op, *procs], p.end())
    sim.schedule(warmer.start_warming())
    _start(sim, procs, arr)
    sim.schedule(ev(max(arr), "start", op, worker=-1))
    return Scenario(sim, {"warmer": warmer, "cache": cache}, "datastore", True, len(arr) + 2)

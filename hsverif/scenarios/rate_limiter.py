"""rate_limiter family: RateLimitedEntity x every policy, DistributedRateLimiter, Inductor, NullRateLimiter."""

from __future__ import annotations

from happysimulator.components.datastore import KVStore
from happysimulator.components.rate_limiter import (
    AdaptivePolicy,
    DistributedRateLimiter,
    FixedWindowPolicy,
    Inductor,
    LeakyBucketPolicy,
    NullRateLimiter,
    RateLimitedEntity,
    SlidingWindowPolicy,
    TokenBucketPolicy,
)

from hsverif.scenarios import Scenario, scenario
from hsverif.scenarios._kit import P, Recorder, Replier, ev, make_sim


def _burst(sim, target, arrivals, event_type="Request"):
    for i, t in enumerate(arrivals):
        sim.schedule(ev(t, event_type, target, n=i))


def _policy(kind: str, p: P):
    w = p.lat(0) * 10  # window / interval, positive
    cap = p.cap(2)
    if kind == "token_bucket":
        # refill rates that do not land on the nanosecond grid (7 per window, thirds) and fractional
        # initial tokens: the wait for the next token is then truncated to whole nanoseconds, so the
        # poll finds 0.99999.. tokens (the situation the policies' "zero wait -> 1 ns" guards exist for)
        v = int(p.x("v", 1))
        rate = (1.0, 7.0, 1.0 / 3.0, 2.5)[v % 4] / w
        return TokenBucketPolicy(capacity=float(cap), refill_rate=rate, initial_tokens=(v % (2 * cap + 1)) / 2.0)
    if kind == "leaky_bucket":
        return LeakyBucketPolicy(leak_rate=1.0 / w)
    if kind == "sliding_window":
        return SlidingWindowPolicy(window_size_seconds=w, max_requests=cap)
    if kind == "fixed_window":
        return FixedWindowPolicy(requests_per_window=cap, window_size=w)
    if kind == "adaptive":
        k = (2.0, 7.0, 1.0 / 3.0)[int(p.x("v", 0)) % 3]
        return AdaptivePolicy(initial_rate=k / w, min_rate=0.5 * k / w, max_rate=20.0 * k / w, window_size=w)
    raise KeyError(kind)


def _make_rle(kind):
    def build(seed, params):
        p = P(params, seed)
        sink = Replier("backend", p.lat(1)) if kind == "adaptive" else Recorder("sink")
        pol = _policy(kind, p)
        rle = RateLimitedEntity("limiter", downstream=sink, policy=pol, queue_capacity=int(p.x("queue_capacity", 50)))
        arr = p.arrivals(8)
        sim = make_sim([rle, sink], p.end())
        _burst(sim, rle, arr)
        # the waiting behaviour of a RateLimitedEntity is its policy's: part of the mechanism
        return Scenario(
            sim, {"limiter": rle, "sink": sink}, "rate_limiter", True, len(arr), extras={"mechanism_tag": type(pol).__name__}
        )

    build.__name__ = f"rle_{kind}"
    build.__doc__ = f"Burst into a RateLimitedEntity with {kind}; queued requests are re-polled."
    return build


for _k in ("token_bucket", "leaky_bucket", "sliding_window", "fixed_window", "adaptive"):
    scenario(f"rate_limiter.entity_{_k}", "rate_limiter")(_make_rle(_k))


@scenario("rate_limiter.fixed_window_round_window", "rate_limiter")
def fixed_window_round_window(seed, params):
    """FixedWindowPolicy with a decimal window (0.1 s style) whose boundaries are not float-exact."""
    p = P(params, seed)
    sink = Recorder("sink")
    w = (0.1, 0.3, 0.7, 0.05)[int(p.x("v", 0)) % 4]
    rle = RateLimitedEntity("limiter", downstream=sink, policy=FixedWindowPolicy(requests_per_window=p.cap(2), window_size=w))
    arr = p.arrivals(8)
    sim = make_sim([rle, sink], p.end())
    _burst(sim, rle, arr)
    return Scenario(
        sim, {"limiter": rle, "sink": sink}, "rate_limiter", True, len(arr), extras={"mechanism_tag": "FixedWindowPolicy"}
    )


@scenario("rate_limiter.distributed_shared_store", "rate_limiter")
def distributed_shared_store(seed, params):
    """Several DistributedRateLimiter instances over one KVStore with positive read/write latency."""
    p = P(params, seed)
    store = KVStore("store", read_latency=p.lat(0), write_latency=p.lat(1))
    sink = Recorder("sink")
    k = max(2, p.cap(2))
    lims = [
        DistributedRateLimiter(
            f"drl{i}", downstream=sink, backing_store=store, global_limit=3 + int(p.x("v", 0)) % 5, window_size=p.lat(2) * 20
        )
        for i in range(k)
    ]
    arr = p.arrivals(8)
    sim = make_sim([*lims, store, sink], p.end())
    for i, t in enumerate(arr):
        sim.schedule(ev(t, "Request", lims[i % k], n=i))
    return Scenario(sim, {"store": store, "sink": sink, **{x.name: x for x in lims}}, "rate_limiter", True, len(arr))


@scenario("rate_limiter.inductor_burst", "rate_limiter")
def inductor_burst(seed, params):
    p = P(params, seed)
    sink = Recorder("sink")
    ind = Inductor("inductor", downstream=sink, time_constant=p.lat(0) * 5, queue_capacity=int(p.x("queue_capacity", 40)))
    arr = p.arrivals(8)
    # a slow trickle first so the inductor has a rate estimate, then the burst
    lead = [max(0, min(arr) - 3_000_000_000 + i * 1_000_000_007) for i in range(3)] if min(arr) >= 3_000_000_000 else []
    sim = make_sim([ind, sink], p.end())
    _burst(sim, ind, lead + arr + [max(arr) + 40_000_003, max(arr) + 40_000_004])
    return Scenario(sim, {"inductor": ind, "sink": sink}, "rate_limiter", True, len(arr) + len(lead) + 2)


@scenario("rate_limiter.null_passthrough", "rate_limiter")
def null_passthrough(seed, params):
    p = P(params, seed)
    back = Replier("backend", p.lat(0))
    nrl = NullRateLimiter("null", downstream=back)
    arr = p.arrivals(5)
    sim = make_sim([nrl, back], p.end())
    _burst(sim, nrl, arr)
    return Scenario(sim, {"null": nrl, "backend": back}, "rate_limiter", True, len(arr))


# ----------------------------------------------------------------------
# composition: limiters behind a delaying stage / in front of zero-latency targets; degenerate limits


def _limiter(kind: str, p: P, downstream, v: int):
    w = p.lat(1) * (0.5 if v % 2 else 3.0)
    if kind == "distributed":
        store = KVStore("store", read_latency=p.lat(2), write_latency=p.lat(3))
        lim = DistributedRateLimiter("lim", downstream=downstream, backing_store=store, global_limit=p.count(0, 3), window_size=w)
        return lim, [lim, store], None
    if kind == "inductor":
        lim = Inductor("lim", downstream=downstream, time_constant=w, queue_capacity=p.count(1, 10, lo=0))
        return lim, [lim], None
    if kind == "null":
        lim = NullRateLimiter("lim", downstream=downstream)
        return lim, [lim], None
    pol = _policy(kind, P({**p.d, "lats": [w / 10] + list(p.d.get("lats") or [])}, p.seed))
    lim = RateLimitedEntity("lim", downstream=downstream, policy=pol, queue_capacity=p.count(1, 10, lo=0))
    return lim, [lim], type(pol).__name__


_LIMITERS = ("token_bucket", "leaky_bucket", "sliding_window", "fixed_window", "adaptive", "distributed", "inductor", "null")


def _make_composed(kind):
    def build(seed, params):
        from hsverif.scenarios._kit import FRONT_STAGES, front_stage

        p = P(params, seed)
        v = int(p.x("v", seed * 7 + 3))
        tkind = (v // 5) % 3
        if tkind == 0:
            target = Replier("target", 0.0)  # zero-latency target
        elif tkind == 1:
            target = Replier("target", p.lat(1) * 3)
        else:
            from happysimulator.components.server import Server
            from hsverif.scenarios._kit import ConstantLatency

            target = Server("target", concurrency=1, service_time=ConstantLatency(p.lat(2)), queue_capacity=p.count(2, 5))
        lim, ents, tag = _limiter(kind, p, target, v)
        entry, front = front_stage(FRONT_STAGES[v % 5], p, lim, lat_index=0)
        arr = p.arrivals(8)
        sim = make_sim([*front, *ents, target], p.end())
        _burst(sim, entry, arr)
        return Scenario(
            sim, {"lim": lim, "target": target}, "rate_limiter", True, len(arr),
            extras={"mechanism_tag": tag} if tag else {}, notes=f"front={FRONT_STAGES[v % 5]} target={tkind}",
        )  # fmt: skip

    build.__name__ = f"composed_{kind}"
    build.__doc__ = f"{kind} limiter BEHIND a delaying stage (context forwarded) and in front of zero-latency / slow / queueing targets."
    return build


for _k in _LIMITERS:
    scenario(f"rate_limiter.composed_{_k}", "rate_limiter")(_make_composed(_k))


@scenario("rate_limiter.degenerate_limits", "rate_limiter")
def degenerate_limits(seed, params):
    """Every limiter at its degenerate limits: queue_capacity 0 and 1, one request per window, 1 ns windows,
    buckets starting empty, global_limit 1, a single arrival, zero-latency downstream."""
    p = P(params, seed)
    sink = Recorder("sink")
    lims = [
        RateLimitedEntity("tb0", sink, TokenBucketPolicy(capacity=1.0, refill_rate=1.0 / p.lat(0), initial_tokens=0.0), queue_capacity=0),
        RateLimitedEntity("tb1", sink, TokenBucketPolicy(capacity=1.0, refill_rate=1.0 / p.lat(0), initial_tokens=0.0), queue_capacity=1),
        RateLimitedEntity("lb", sink, LeakyBucketPolicy(leak_rate=1.0 / p.lat(1)), queue_capacity=1),
        RateLimitedEntity("sw", sink, SlidingWindowPolicy(window_size_seconds=1e-9, max_requests=1), queue_capacity=p.count(0, 3)),
        RateLimitedEntity("fw", sink, FixedWindowPolicy(requests_per_window=1, window_size=p.lat(2)), queue_capacity=p.count(0, 3)),
        RateLimitedEntity("fw_ns", sink, FixedWindowPolicy(requests_per_window=1, window_size=1e-9), queue_capacity=2),
        RateLimitedEntity("ad", sink, AdaptivePolicy(initial_rate=1.0 / p.lat(0), min_rate=1.0 / p.lat(0), max_rate=1.0 / p.lat(0), window_size=p.lat(0)), queue_capacity=2),
        Inductor("ind0", sink, time_constant=p.lat(3), queue_capacity=0),
        Inductor("ind_ns", sink, time_constant=1e-9, queue_capacity=p.count(1, 4)),
    ]
    store = KVStore("store", read_latency=p.lat(0), write_latency=p.lat(1))
    drl = DistributedRateLimiter("drl", downstream=sink, backing_store=store, global_limit=1, window_size=p.lat(2) * 2, local_threshold=1.0)
    arr = p.arrivals(4)
    sim = make_sim([*lims, drl, store, sink], p.end())
    n = 0
    for lim in [*lims, drl]:
        _burst(sim, lim, arr)
        n += len(arr)
    return Scenario(sim, {x.name: x for x in [*lims, drl]}, "rate_limiter", True, n)

"""messaging family: MessageQueue, Topic, DeadLetterQueue."""

from __future__ import annotations

from happysimulator.components.messaging import DeadLetterQueue, MessageQueue, Topic

from hsverif.scenarios import Scenario, scenario
from hsverif.scenarios._kit import Entity, Event, P, Proc, Recorder, ev, make_sim


class Consumer(Entity):
    """Harness consumer: works for a positive time, then acks / rejects / lets the delivery time out."""

    def __init__(self, name, queue, work_s, mode="ack"):
        super().__init__(name)
        self.queue = queue
        self.work_s = work_s
        self.mode = mode
        self.got = 0
        self.acked = 0
        self.rejected = 0

    def handle_event(self, event):
        if event.event_type != "message_delivery":
            return None
        self.got += 1
        mid = event.context.get("message_id")
        yield self.work_s
        out = []
        m = self.mode
        if m == "mixed":
            m = ("ack", "reject", "redeliver")[self.got % 3]
        if m == "ack":
            self.queue.acknowledge(mid)
            self.acked += 1
        elif m == "reject":
            self.queue.reject(mid, requeue=True)
            self.rejected += 1
        else:
            e = self.queue.schedule_redelivery(mid)
            if e is not None:
                out.append(e)
        out.append(Event(time=self.now, event_type="poll", target=self.queue))
        return out

    @property
    def stats(self):
        return {"got": self.got, "acked": self.acked, "rejected": self.rejected}


def _mq(p, dlq=None, cap=None):
    return MessageQueue(
        "mq",
        delivery_latency=p.lat(0),
        redelivery_delay=p.lat(1) * 3,
        max_redeliveries=int(p.x("max_redeliveries", 2)),
        capacity=cap,
        dead_letter_queue=dlq,
    )


@scenario("messaging.queue_poll_events", "messaging")
def queue_poll_events(seed, params):
    """Producers publish (generator API) then send 'poll' events; consumers ack after working."""
    p = P(params, seed)
    mq = _mq(p)
    cons = [Consumer(f"c{i}", mq, p.lat(2), "ack") for i in range(p.count(1, 2))]
    for c in cons:
        mq.subscribe(c)
    arr = p.arrivals(6)

    def producer(proc, event):
        i = event.context["metadata"]["worker"]
        payload = Event(time=proc.now, event_type="Order", target=cons[0], context={"metadata": {"n": i}})
        yield from mq.publish(payload)
        proc.done += 1
        return [Event(time=proc.now, event_type="poll", target=mq)]

    procs = [Proc(f"p{i}", producer) for i in range(len(arr))]
    sim = make_sim([mq, *cons, *procs], p.end())
    for i, t in enumerate(arr):
        sim.schedule(ev(t, "start", procs[i], worker=i))
    return Scenario(sim, {"mq": mq, **{c.name: c for c in cons}}, "messaging", True, len(arr))


@scenario("messaging.queue_poll_generator", "messaging")
def queue_poll_generator(seed, params):
    """A harness dispatcher drives `yield from mq.poll()` itself and forwards what it returns."""
    p = P(params, seed)
    mq = _mq(p)
    sink = Recorder("consumer")
    mq.subscribe(sink)
    arr = p.arrivals(5)

    def producer(proc, event):
        i = event.context["metadata"]["worker"]
        yield from mq.publish(Event(time=proc.now, event_type="Order", target=sink, context={"metadata": {"n": i}}))
        delivery = yield from mq.poll()
        proc.done += 1
        return [delivery] if delivery is not None else []

    procs = [Proc(f"p{i}", producer) for i in range(len(arr))]
    sim = make_sim([mq, sink, *procs], p.end())
    for i, t in enumerate(arr):
        sim.schedule(ev(t, "start", procs[i], worker=i))
    return Scenario(sim, {"mq": mq, "consumer": sink}, "messaging", True, len(arr))


@scenario("messaging.queue_redelivery_dlq", "messaging")
def queue_redelivery_dlq(seed, params):
    """Consumers reject / time out; redelivery after a positive delay; exhausted messages go to the DLQ."""
    p = P(params, seed)
    dlq = DeadLetterQueue("dlq", capacity=3, retention_period=p.lat(3) * 50)
    mq = _mq(p, dlq=dlq, cap=64)
    cons = [Consumer(f"c{i}", mq, p.lat(2), "mixed" if i % 2 == 0 else "redeliver") for i in range(max(2, p.cap(2)))]
    for c in cons:
        mq.subscribe(c)
    arr = p.arrivals(6)

    def producer(proc, event):
        i = event.context["metadata"]["worker"]
        yield from mq.publish(Event(time=proc.now, event_type="Order", target=cons[0], context={"metadata": {"n": i}}))
        proc.done += 1
        return [Event(time=proc.now, event_type="poll", target=mq)]

    def reaper(proc, event):
        # after the dust settles: reprocess what was dead-lettered, then clean the DLQ
        yield p.lat(1) * 40
        out = dlq.reprocess_all(mq)
        out.append(Event(time=proc.now, event_type="cleanup", target=dlq))
        out.append(Event(time=proc.now + p.lat(0), event_type="clear", target=dlq))
        proc.done += 1
        return out

    procs = [Proc(f"p{i}", producer) for i in range(len(arr))]
    rp = Proc("reaper", reaper)
    sim = make_sim([mq, dlq, rp, *cons, *procs], p.end())
    for i, t in enumerate(arr):
        sim.schedule(ev(t, "start", procs[i], worker=i))
    sim.schedule(ev(max(arr), "start", rp, worker=-1))
    return Scenario(sim, {"mq": mq, "dlq": dlq}, "messaging", True, len(arr) + 1)


@scenario("messaging.topic_fanout_events", "messaging")
def topic_fanout_events(seed, params):
    """'publish' events to a Topic with a positive per-subscriber delivery latency."""
    p = P(params, seed)
    topic = Topic("topic", delivery_latency=p.lat(0), max_subscribers=None)
    subs = [Recorder(f"s{i}") for i in range(p.count(0, 3))]
    for s in subs:
        topic.subscribe(s)
    arr = p.arrivals(5)
    sim = make_sim([topic, *subs], p.end())
    for i, t in enumerate(arr):
        payload = ev(t, "News", subs[0], n=i)
        sim.schedule(ev(t, "publish", topic, context={"payload": payload}))
    return Scenario(sim, {"topic": topic, **{s.name: s for s in subs}}, "messaging", True, len(arr))


@scenario("messaging.topic_generator_and_replay", "messaging")
def topic_generator_and_replay(seed, params):
    """`yield from topic.publish()` from harness publishers, publish_sync, late subscriber with replay."""
    p = P(params, seed)
    topic = Topic("topic", delivery_latency=p.lat(1))
    topic.set_retain_messages(True, max_history=4)
    subs = [Recorder(f"s{i}") for i in range(p.count(0, 2, lo=2))]
    late = Recorder("late")
    for s in subs:
        topic.subscribe(s)
    arr = p.arrivals(4)

    def publisher(proc, event):
        i = event.context["metadata"]["worker"]
        msg = Event(time=proc.now, event_type="News", target=subs[0], context={"metadata": {"n": i}})
        if i % 3 == 2:
            out = topic.publish_sync(msg)
        else:
            out = yield from topic.publish(msg)
        proc.done += 1
        return out

    def latecomer(proc, event):
        yield p.lat(0) * 2
        out = topic.subscribe(late, replay_history=True)
        topic.unsubscribe(subs[-1])
        proc.done += 1
        return out

    procs = [Proc(f"p{i}", publisher) for i in range(len(arr))]
    lc = Proc("latecomer", latecomer)
    sim = make_sim([topic, late, lc, *subs, *procs], p.end())
    for i, t in enumerate(arr):
        sim.schedule(ev(t, "start", procs[i], worker=i))
    sim.schedule(ev(min(arr), "start", lc, worker=-1))
    return Scenario(sim, {"topic": topic, "late": late}, "messaging", True, len(arr) + 1)


AWKWARD_LATENCIES = (0.0003, 0.3, 0.03, 0.015, 0.29, 2.01, 0.1, 0.001)
GRID_COUNTS = (1, 2, 3, 5, 6, 9, 10, 11, 12)


@scenario("messaging.topic_fanout_latency_count_grid", "messaging")
def topic_fanout_latency_count_grid(seed, params):
    """One Topic per (delivery latency, subscriber count) pair of a grid of awkward decimals x counts.

    A fan-out over n subscribers takes n waits of `latency`; anything that derives the finish time as
    `latency * n` instead is off by a nanosecond only for particular pairs (0.0003 s x 5, 0.3 s x 3 ...),
    so the whole grid is driven in every run (each topic gets one publish per arrival burst)."""
    p = P(params, seed)
    lats = list(AWKWARD_LATENCIES) + [p.lat(0), p.lat(1)]
    arr = p.arrivals(2)
    t0, t1 = min(arr), max(arr)
    topics, sinks, n_pub = [], [], 0
    for li, lat in enumerate(lats):
        for n in GRID_COUNTS:
            t = Topic(f"t{li}x{n}", delivery_latency=lat)
            subs = [Recorder(f"r{li}x{n}.{k}") for k in range(n)]
            for sub in subs:
                t.subscribe(sub)
            topics.append(t)
            sinks.extend(subs)
    sim = make_sim([*topics, *sinks], max(p.end(), 40.0))
    for t in topics:
        for when in sorted({t0, t1}):
            sim.schedule(ev(when, "publish", t, context={"payload": ev(when, "News", sinks[0])}))
            n_pub += 1
    return Scenario(sim, {"first": topics[0], "last": topics[-1]}, "messaging", True, n_pub)


@scenario("messaging.degenerate_empty_and_zero", "messaging")
def degenerate_empty_and_zero(seed, params):
    """Empty / zero cases: publish to a topic without subscribers, poll of an empty queue and of a queue
    without consumers, zero delivery latency, DLQ reprocess / clear / cleanup while empty, capacity 1,
    max_redeliveries 0, unsubscribe of everybody, publish_sync with nobody listening."""
    p = P(params, seed)
    lonely = Topic("lonely", delivery_latency=p.lat(0))
    instant = Topic("instant", delivery_latency=0.0)
    sub = Recorder("sub")
    instant.subscribe(sub)
    dlq = DeadLetterQueue("dlq", capacity=1, retention_period=p.lat(1))
    mq = MessageQueue("mq", delivery_latency=0.0, redelivery_delay=p.lat(1), max_redeliveries=0, capacity=1, dead_letter_queue=dlq)
    noconsumer = MessageQueue("noconsumer", delivery_latency=p.lat(2), redelivery_delay=p.lat(1))
    con = Consumer("con", mq, p.lat(2), "reject")
    mq.subscribe(con)
    arr = p.arrivals(4)

    def driver(proc, event):
        i = event.context["metadata"]["worker"]
        out = []
        out += (yield from lonely.publish(Event(time=proc.now, event_type="N", target=sub))) or []
        out += lonely.publish_sync(Event(time=proc.now, event_type="N", target=sub))
        out += (yield from instant.publish(Event(time=proc.now, event_type="N", target=sub))) or []
        got = yield from mq.poll()  # empty queue
        if got is not None:
            out.append(got)
        got = yield from noconsumer.poll()  # no consumers
        yield from noconsumer.publish(Event(time=proc.now, event_type="M", target=sub))
        got = yield from noconsumer.poll()  # pending message, still nobody to deliver to
        if not mq.is_full:
            yield from mq.publish(Event(time=proc.now, event_type="M", target=con, context={"metadata": {"n": i}}))
        out.append(Event(time=proc.now, event_type="poll", target=mq))
        out += dlq.reprocess_all(mq)
        out.append(Event(time=proc.now, event_type="cleanup", target=dlq))
        out.append(Event(time=proc.now, event_type="clear", target=dlq))
        if i == len(arr) - 1:
            instant.unsubscribe(sub)
            out += (yield from instant.publish(Event(time=proc.now, event_type="N", target=sub))) or []
        proc.done += 1
        return out

    procs = [Proc(f"d{i}", driver) for i in range(len(arr))]
    sim = make_sim([lonely, instant, sub, dlq, mq, noconsumer, con, *procs], p.end())
    for i, t in enumerate(arr):
        sim.schedule(ev(t, "start", procs[i], worker=i))
        sim.schedule(ev(t, "publish", lonely, context={"payload": ev(t, "News", sub)}))
        sim.schedule(ev(t, "publish", lonely, context={}))  # no payload at all
    return Scenario(sim, {"mq": mq, "dlq": dlq, "lonely": lonely, "instant": instant}, "messaging", True, 3 * len(arr))

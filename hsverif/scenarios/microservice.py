"""microservice family: APIGateway, IdempotencyStore, OutboxRelay, Saga, Sidecar.

All five are event driven and learn about a finished downstream request through the
completion hook they attach to the forwarded event, so the backends here are small
generator entities (`VarBackend`: a positive, per-request varying service time) in the
style of the repository's unit tests, plus library `Server`s in some routes.
"""

from __future__ import annotations

import random

from happysimulator.components.microservice import (
    APIGateway,
    IdempotencyStore,
    OutboxRelay,
    RouteConfig,
    Saga,
    SagaStep,
    Sidecar,
)
from happysimulator.components.rate_limiter.policy import (
    FixedWindowPolicy,
    LeakyBucketPolicy,
    SlidingWindowPolicy,
    TokenBucketPolicy,
)
from happysimulator.components.server import Server

from hsverif.scenarios import Scenario, scenario
from hsverif.scenarios._kit import (
    FRONT_STAGES,
    ConstantLatency,
    Entity,
    Event,
    P,
    Proc,
    Recorder,
    Replier,
    ev,
    front_stage,
    make_sim,
)


def _every(p: P, i: int, n: int = 2500) -> float:
    """Period of a never-ending daemon: the hostile value, floored so a run stays ~< n ticks."""
    return max(p.lat(i), p.end() / n)


class VarBackend(Entity):
    """Generator backend: the k-th request takes services[k % len] seconds (all positive)."""

    def __init__(self, name: str, services: list[float], downstream=None):
        super().__init__(name)
        self.services = [float(s) for s in services]
        self.downstream = downstream
        self.received = 0
        self.completed = 0
        self.active = 0

    def handle_event(self, event):
        k = self.received
        self.received += 1
        self.active += 1
        yield self.services[k % len(self.services)]
        self.active -= 1
        self.completed += 1
        if self.downstream is not None:
            return [Event(time=self.now, event_type=f"{event.event_type}.done", target=self.downstream)]
        return None

    @property
    def stats(self):
        return {"received": self.received, "completed": self.completed}


def _hooked(e: Event, rec: Recorder) -> Event:
    """Caller-side completion hook (the library must carry it to the forwarded request)."""
    e.add_completion_hook(lambda t: Event(time=t, event_type="caller.completed", target=rec))
    return e


def _tail(arr: list[int], gap_s: float, k: int) -> list[int]:
    """k extra arrivals, gap_s apart, after the last arrival (to hit recovery / expiry paths)."""
    g = max(1, int(gap_s * 1e9))
    return [max(arr) + (j + 1) * g + j for j in range(k)]


# ----------------------------------------------------------------------
# APIGateway


@scenario("microservice.gateway_mixed_routes", "microservice")
def gateway_mixed_routes(seed, params):
    """Auth latency + auth failures, one rate limiter policy per route, timeouts below and
    above the backend latency, a route without backends and an unknown route."""
    p = P(params, seed)
    svc = p.lat(1)
    rec = Recorder("rec")
    fast = VarBackend("be.fast", [svc, svc * 0.5])
    slow = VarBackend("be.slow", [svc * 4, svc], downstream=rec)
    more = [VarBackend(f"be.more{j}", [svc * (1 + j % 3), svc * 0.25]) for j in range(p.count(0, 2, hi=6) - 2)]
    srv = Server("be.srv", concurrency=p.cap(2), service_time=ConstantLatency(p.lat(2)), queue_capacity=4, downstream=rec)
    routes = {
        "a": RouteConfig(
            "a",
            backends=[fast, slow, *more][: p.count(0, 2, hi=6)],
            rate_limit_policy=TokenBucketPolicy(capacity=p.cap(2) + 2, refill_rate=min(1e6, 1.0 / p.lat(3))),
            timeout=svc * 2,
        ),
        "b": RouteConfig(
            "b",
            backends=[srv],
            rate_limit_policy=SlidingWindowPolicy(window_size_seconds=p.lat(4), max_requests=3),
            auth_required=False,
            timeout=p.lat(2) * 0.5,
        ),
        "c": RouteConfig("c", backends=[]),
        "d": RouteConfig("d", backends=[slow], rate_limit_policy=FixedWindowPolicy(2, window_size=p.lat(3)), timeout=None),
    }
    gw = APIGateway("gw", routes, auth_latency=p.lat(0), auth_failure_rate=0.35)
    arr = p.arrivals(10)
    sim = make_sim([gw, fast, slow, srv, rec, *more], p.end())
    order = ["a", "b", "a", "d", "c", "nope", "a", "b", "d", None]
    for i, t in enumerate(arr):
        e = ev(t, "Request", gw, i=i, route=order[i % len(order)])
        sim.schedule(_hooked(e, rec) if i % 3 == 0 else e)
    return Scenario(sim, {"gw": gw, "fast": fast, "slow": slow, "srv": srv, "rec": rec}, "microservice", True, len(arr))


@scenario("microservice.gateway_all_timeouts", "microservice")
def gateway_all_timeouts(seed, params):
    """Every response arrives after the route timeout already fired; custom route extractor;
    LeakyBucket limiter; no auth failures (auth latency only)."""
    p = P(params, seed)
    svc = p.lat(0)
    be = [VarBackend(f"be{j}", [svc * (2 + j % 3), svc * 3]) for j in range(p.count(0, 2, hi=6))]
    routes = {
        "x": RouteConfig("x", backends=be, rate_limit_policy=LeakyBucketPolicy(leak_rate=min(1e6, 1.0 / p.lat(2))), timeout=svc * 0.5),
        "y": RouteConfig("y", backends=be[:1], timeout=svc * 1.5, auth_required=False),
    }
    gw = APIGateway("gw", routes, auth_latency=p.lat(1), auth_failure_rate=0.0, route_extractor=lambda e: e.context.get("path"))
    arr = p.arrivals(8) + []
    arr = arr + _tail(arr, p.lat(2) * 1.5, 3)
    sim = make_sim([gw, *be], p.end())
    for i, t in enumerate(arr):
        sim.schedule(ev(t, "Request", gw, context={"path": "xy"[i % 2]}, i=i))
    return Scenario(sim, {"gw": gw, **{b.name: b for b in be}}, "microservice", True, len(arr))


# ----------------------------------------------------------------------
# IdempotencyStore


@scenario("microservice.idempotency_inflight_duplicates", "microservice")
def idempotency_inflight_duplicates(seed, params):
    """Duplicate keys arrive while the first request with that key is still in flight, again
    while it is cached, and again after ttl expiry; small ttl / cleanup interval / max_entries."""
    p = P(params, seed)
    svc = p.lat(0)
    rec = Recorder("rec")
    be = VarBackend("be", [svc, svc * 3], downstream=rec)
    ttl = p.lat(1) * 2
    store = IdempotencyStore(
        "idem",
        target=be,
        key_extractor=lambda e: e.context.get("metadata", {}).get("key"),
        ttl=ttl,
        max_entries=p.cap(2),
        cleanup_interval=_every(p, 2),
    )
    arr = p.arrivals(9)
    arr = arr + _tail(arr, svc * 3 + ttl * 0.5, 2) + _tail(arr, svc * 3 + ttl + _every(p, 2), 3)
    sim = make_sim([store, be, rec], p.end())
    for i, t in enumerate(sorted(arr)):
        key = None if i % 5 == 4 else f"k{i % p.count(0, 3)}"
        e = ev(t, "Request", store, i=i, key=key)
        sim.schedule(_hooked(e, rec) if i % 2 == 0 else e)
    return Scenario(sim, {"idem": store, "be": be, "rec": rec}, "microservice", True, len(arr))


@scenario("microservice.idempotency_server_target", "microservice")
def idempotency_server_target(seed, params):
    """Library Server as the target (queue in front), max_entries=1 so every store evicts."""
    p = P(params, seed)
    rec = Recorder("rec")
    srv = Server("srv", concurrency=p.cap(1), service_time=ConstantLatency(p.lat(0)), queue_capacity=3, downstream=rec)
    store = IdempotencyStore(
        "idem",
        target=srv,
        key_extractor=lambda e: e.context.get("metadata", {}).get("key"),
        ttl=p.lat(1),
        max_entries=1,
        cleanup_interval=_every(p, 2),
    )
    arr = p.arrivals(8)
    arr = sorted(arr + _tail(arr, p.lat(1) * 1.25, 4))
    sim = make_sim([store, srv, rec], p.end())
    for i, t in enumerate(arr):
        sim.schedule(ev(t, "Request", store, i=i, key=f"k{i % p.count(0, 4)}"))
    return Scenario(sim, {"idem": store, "srv": srv, "rec": rec}, "microservice", True, len(arr))


# ----------------------------------------------------------------------
# OutboxRelay


def _outbox(seed, params, downstream_kind: str):
    p = P(params, seed)
    rec = Recorder("rec")
    if downstream_kind == "server":
        down = Server("down", concurrency=p.cap(2), service_time=ConstantLatency(p.lat(2)), queue_capacity=5, downstream=rec)
    else:
        down = rec
    relay = OutboxRelay("outbox", downstream=down, poll_interval=_every(p, 0), batch_size=p.count(0, max(2, p.cap(2))), relay_latency=p.lat(1))

    def writer(proc, event):
        i = event.context["metadata"]["i"]
        relay.write({"i": i})
        if i % 4 == 3:
            yield p.hold() * 0.1  # a second write a little later, inside somebody's poll cycle
            relay.write({"i": i, "again": True})
        proc.done += 1
        # the documented trigger: any non-poll event makes the relay schedule its poll
        return [Event(time=proc.now, event_type="Written", target=relay)]

    def primer(proc, event):
        proc.done += 1
        return [relay.prime_poll()]

    arr = p.arrivals(8)
    w = Proc("writer", writer)
    pr = Proc("primer", primer)
    ents = [relay, rec, w, pr] + ([down] if down is not rec else [])
    sim = make_sim(ents, p.end())
    for i, t in enumerate(arr):
        sim.schedule(ev(t, "write", w, i=i))
    sim.schedule(ev(max(arr) + 17, "prime", pr))
    return Scenario(sim, {"outbox": relay, "rec": rec, "down": down}, "microservice", True, len(arr) + 1)


@scenario("microservice.outbox_relay_to_sink", "microservice")
def outbox_relay_to_sink(seed, params):
    """Writers append entries in bursts; the poll daemon relays batches with a positive
    per-entry relay latency straight to a recorder."""
    return _outbox(seed, params, "rec")


@scenario("microservice.outbox_relay_to_server", "microservice")
def outbox_relay_to_server(seed, params):
    """Same, relaying into a bounded library Server."""
    return _outbox(seed, params, "server")


# ----------------------------------------------------------------------
# Saga


@scenario("microservice.saga_timeout_compensation", "microservice")
def saga_timeout_compensation(seed, params):
    """counts[0] steps (default 3); every odd step alternates fast / slower-than-timeout, so
    sagas time out there and compensate the earlier steps while the late action response is
    still on its way; the last step has no timeout."""
    p = P(params, seed)
    f = p.lat(0)
    rec = Recorder("rec")
    n_steps = p.count(0, 3, hi=7)
    acts, comps, steps = [], [], []
    for j in range(n_steps):
        services = [f, f * 5] if j % 2 == 1 else [f * (0.5 + 0.5 * (j % 3)), f]
        acts.append(VarBackend(f"act{j}", services))
        comps.append(VarBackend(f"comp{j}", [p.lat(1 + j % 2) * (0.5 + j % 2)]))
        timeout = None if j == n_steps - 1 and n_steps > 1 else f * (2 if j % 2 else 3)
        steps.append(SagaStep(f"step{j}", acts[j], f"Do{j}", comps[j], f"Undo{j}", timeout=timeout))
    outcomes: list = []
    saga = Saga("saga", steps=steps, on_complete=lambda sid, state, results: outcomes.append((sid, state.name)))
    arr = p.arrivals(6)
    sim = make_sim([saga, *acts, *comps, rec], p.end())
    for i, t in enumerate(arr):
        sim.schedule(_hooked(ev(t, "StartSaga", saga, context={"payload": {"order": i}}, i=i), rec))
    return Scenario(
        sim, {"saga": saga, "rec": rec, "act0": acts[0], "comp0": comps[0]}, "microservice", True, len(arr), extras={"outcomes": outcomes}
    )


@scenario("microservice.saga_first_and_last_step_timeouts", "microservice")
def saga_first_and_last_step_timeouts(seed, params):
    """Step 0 sometimes times out (nothing to compensate), the last step always does
    (full compensation chain through slow compensators); Server as one action target."""
    p = P(params, seed)
    f = p.lat(0)
    rec = Recorder("rec")
    a0 = VarBackend("act0", [f, f, f * 4])
    a1 = Server("act1", concurrency=p.cap(1), service_time=ConstantLatency(p.lat(1)), queue_capacity=8)
    a2 = VarBackend("act2", [f * 6])
    c0 = VarBackend("comp0", [p.lat(2) * 2])
    c1 = VarBackend("comp1", [p.lat(2)])
    saga = Saga(
        "saga",
        steps=[
            SagaStep("s0", a0, "Do0", c0, "Undo0", timeout=f * 2),
            SagaStep("s1", a1, "Do1", c1, "Undo1", timeout=p.lat(1) * 3),
            SagaStep("s2", a2, "Do2", c1, "Undo2", timeout=f * 1.5),
        ],
    )
    arr = p.arrivals(6)
    sim = make_sim([saga, a0, a1, a2, c0, c1, rec], p.end())
    for i, t in enumerate(arr):
        sim.schedule(ev(t, "StartSaga", saga, i=i))
    return Scenario(sim, {"saga": saga, "act0": a0, "act1": a1, "comp0": c0, "comp1": c1}, "microservice", True, len(arr))


# ----------------------------------------------------------------------
# Sidecar


@scenario("microservice.sidecar_slow_target_retries", "microservice")
def sidecar_slow_target_retries(seed, params):
    """Target slower than request_timeout for most requests: timeouts, exponential retries
    overlapping the late responses, circuit opens, small circuit_timeout half-opens it."""
    p = P(params, seed)
    to = p.lat(0)
    rec = Recorder("rec")
    be = VarBackend("be", [to * 3, to * 0.5, to * 4, to * 2], downstream=rec)
    sc = Sidecar(
        "sidecar",
        target=be,
        rate_limit_policy=TokenBucketPolicy(capacity=50, refill_rate=min(1e6, 1.0 / p.lat(3))),
        circuit_failure_threshold=2,
        circuit_success_threshold=1,
        circuit_timeout=max(p.lat(2), to * 2.5),
        request_timeout=to,
        max_retries=p.count(0, 3, hi=4) - 1,
        retry_base_delay=p.lat(1),
    )
    arr = p.arrivals(8)
    arr = sorted(arr + _tail(arr, to * 4 + p.lat(1) * 3 + p.lat(2), 4))
    sim = make_sim([sc, be, rec], p.end())
    for i, t in enumerate(arr):
        e = ev(t, "Request", sc, i=i)
        sim.schedule(_hooked(e, rec) if i % 2 else e)
    return Scenario(sim, {"sidecar": sc, "be": be, "rec": rec}, "microservice", True, len(arr))


@scenario("microservice.sidecar_rate_limited", "microservice")
def sidecar_rate_limited(seed, params):
    """Tight token bucket in front of a fast Server target, no retries; requests beyond the
    bucket are dropped, the rest complete long before request_timeout fires."""
    p = P(params, seed)
    rec = Recorder("rec")
    srv = Server("srv", concurrency=p.cap(2), service_time=ConstantLatency(p.lat(0)), queue_capacity=4, downstream=rec)
    sc = Sidecar(
        "sidecar",
        target=srv,
        rate_limit_policy=TokenBucketPolicy(capacity=max(2, p.cap(2)), refill_rate=min(1e6, 0.5 / p.lat(1))),
        circuit_failure_threshold=1,
        circuit_success_threshold=2,
        circuit_timeout=p.lat(2) * 2,
        request_timeout=p.lat(0) * 3,
        max_retries=0,
        retry_base_delay=p.lat(3),
    )
    rng = random.Random(seed)
    arr = p.arrivals(10)
    sim = make_sim([sc, srv, rec], p.end())
    for i, t in enumerate(arr):
        sim.schedule(ev(t, "Request", sc, i=i, weight=1, tag=rng.randrange(3)))
    return Scenario(sim, {"sidecar": sc, "srv": srv, "rec": rec}, "microservice", True, len(arr))


# ----------------------------------------------------------------------
# composition: components BEHIND a delaying / queueing stage, in front of different targets
#
#   x.v % 5         front stage (server_queue / conveyor / rate_limited / inductor / link)
#   (x.v // 5) % 3  target: zero-latency Replier / Replier 3x slower than the timer / Server
#   (x.v // 15) % 2 the component's timer (timeout / ttl) = 0.5 x or 3 x the front stage latency


def _variant(p: P, seed: int):
    v = int(p.x("v", seed * 7 + 3))
    return FRONT_STAGES[v % 5], (v // 5) % 3, (0.5 if (v // 15) % 2 == 0 else 3.0), v


def _make_target(kind: int, p: P, timer: float, rec, name: str = "target"):
    if kind == 0:
        return Replier(name, 0.0, downstream=rec)
    if kind == 1:
        return Replier(name, timer * 3, downstream=rec)
    return Server(name, concurrency=p.cap(2), service_time=ConstantLatency(p.lat(1)), queue_capacity=8, downstream=rec)


def _composed(seed, params, make, default_n: int = 8):
    """make(p, target_factory, timer, rec) -> {name: entity}; the first entity is the entry."""
    p = P(params, seed)
    fk, tk, scale, v = _variant(p, seed)
    timer = p.lat(0) * scale
    rec = Recorder("rec")
    targets: list = []

    def new_target(name: str = "target"):
        t = _make_target(tk, p, timer, rec, name if not targets else f"{name}{len(targets)}")
        targets.append(t)
        return t

    comps = make(p, new_target, timer, rec)
    first = next(iter(comps.values()))
    entry, fents = front_stage(fk, p, first, 0)
    arr = p.arrivals(default_n)
    sim = make_sim([*comps.values(), *targets, rec, *fents], p.end())
    nkeys = p.count(2, 3)
    for i, t in enumerate(arr):
        sim.schedule(ev(t, "Request", entry, context={"payload": {"i": i}}, i=i, key=f"k{i % nkeys}", route="ab"[i % 2] if i % 7 != 6 else "zz"))
    sc = Scenario(sim, {**comps, "rec": rec, **{t.name: t for t in targets}}, "microservice", True, len(arr))
    sc.notes = f"front={fk} target={('zero', 'slow', 'server')[tk]} timer={scale}x"
    return sc


@scenario("microservice.composed_sidecar", "microservice")
def composed_sidecar(seed, params):
    """Sidecar (request_timeout = the timer, retries from counts) behind a front stage."""

    def make(p, new_target, timer, rec):
        sc = Sidecar(
            "sidecar",
            target=new_target(),
            rate_limit_policy=TokenBucketPolicy(capacity=50, refill_rate=min(1e6, 1.0 / p.lat(3))),
            circuit_failure_threshold=p.count(1, 2, hi=4),
            circuit_success_threshold=1,
            circuit_timeout=timer * 2,
            request_timeout=timer,
            max_retries=p.count(0, 3, hi=4) - 1,
            retry_base_delay=p.lat(2),
        )
        return {"sidecar": sc}

    return _composed(seed, params, make)


@scenario("microservice.composed_gateway", "microservice")
def composed_gateway(seed, params):
    """APIGateway behind a front stage: counts[0] backends per route, route timeout = the
    timer (route a) / none (route b), auth latency, a token bucket on route b."""

    def make(p, new_target, timer, rec):
        backends = [new_target("be") for _ in range(p.count(0, 2, hi=5))]
        routes = {
            "a": RouteConfig("a", backends=backends, timeout=timer),
            "b": RouteConfig(
                "b",
                backends=backends[:1],
                rate_limit_policy=TokenBucketPolicy(capacity=p.cap(2) + 1, refill_rate=min(1e6, 1.0 / p.lat(3))),
                auth_required=False,
                timeout=None,
            ),
        }
        return {"gw": APIGateway("gw", routes, auth_latency=p.lat(2), auth_failure_rate=0.2)}

    return _composed(seed, params, make)


@scenario("microservice.composed_idempotency", "microservice")
def composed_idempotency(seed, params):
    """IdempotencyStore behind a front stage: duplicates arrive spread out by the stage;
    ttl = the timer, max_entries from counts."""

    def make(p, new_target, timer, rec):
        store = IdempotencyStore(
            "idem",
            target=new_target(),
            key_extractor=lambda e: e.context.get("metadata", {}).get("key"),
            ttl=timer,
            max_entries=p.count(1, 2),
            cleanup_interval=_every(p, 2),
        )
        return {"idem": store}

    return _composed(seed, params, make)


@scenario("microservice.composed_saga", "microservice")
def composed_saga(seed, params):
    """Saga (counts[0] steps, step timeout = the timer) behind a front stage; action targets
    by x.v, compensation targets zero-latency."""

    def make(p, new_target, timer, rec):
        comp = Replier("comp", 0.0)
        steps = [SagaStep(f"s{j}", new_target("act"), f"Do{j}", comp, f"Undo{j}", timeout=timer) for j in range(p.count(0, 3, hi=6))]
        return {"saga": Saga("saga", steps=steps), "comp": comp}

    return _composed(seed, params, make, default_n=6)


@scenario("microservice.composed_outbox_relay", "microservice")
def composed_outbox_relay(seed, params):
    """OutboxRelay whose triggers arrive through a front stage and whose downstream is a
    wrapper stack (Sidecar -> target); the writes themselves happen at the arrival instants."""
    p = P(params, seed)
    fk, tk, scale, v = _variant(p, seed)
    timer = p.lat(0) * scale
    rec = Recorder("rec")
    target = _make_target(tk, p, timer, rec)
    sc = Sidecar("sidecar", target=target, circuit_timeout=timer * 2, request_timeout=timer, max_retries=1, retry_base_delay=p.lat(2))
    relay = OutboxRelay("outbox", downstream=sc, poll_interval=_every(p, 1), batch_size=p.count(0, 3), relay_latency=p.lat(3))
    entry, fents = front_stage(fk, p, relay, 0)

    def writer(proc, event):
        relay.write({"i": event.context["metadata"]["i"]})
        proc.done += 1
        return [Event(time=proc.now, event_type="Written", target=entry)]

    w = Proc("writer", writer)
    arr = p.arrivals(8)
    sim = make_sim([relay, sc, target, rec, w, *fents], p.end())
    for i, t in enumerate(arr):
        sim.schedule(ev(t, "write", w, i=i))
    return Scenario(sim, {"outbox": relay, "sidecar": sc, "target": target, "rec": rec}, "microservice", True, len(arr))


# ----------------------------------------------------------------------
# degenerate configurations the constructors accept


@scenario("microservice.degenerate_single_step_saga", "microservice")
def degenerate_single_step_saga(seed, params):
    """Sagas with exactly one step: completing at once (zero-latency action), timing out with a
    step timeout of 0 (accepted) and of 1 ns, compensating nothing; zero steps is rejected by
    the constructor (recorded in extras)."""
    p = P(params, seed)
    rec = Recorder("rec")
    zero = Replier("zero", 0.0, downstream=rec)
    slow = Replier("slow", p.lat(0), downstream=rec)
    sagas = [
        Saga("saga.instant", steps=[SagaStep("only", zero, "Do", zero, "Undo", timeout=p.lat(1))]),
        Saga("saga.zero_timeout", steps=[SagaStep("only", slow, "Do", zero, "Undo", timeout=0.0)]),
        Saga("saga.eps_timeout", steps=[SagaStep("only", slow, "Do", slow, "Undo", timeout=1e-9)]),
        Saga("saga.no_timeout", steps=[SagaStep("only", slow, "Do", zero, "Undo", timeout=None)]),
        Saga("saga.zero_then_slow", steps=[SagaStep("a", zero, "A", slow, "UndoA", timeout=0.0), SagaStep("b", slow, "B", zero, "UndoB", timeout=p.lat(0) * 0.5)]),
    ]
    try:
        Saga("saga.empty", steps=[])
        empty = "accepted"
    except ValueError as exc:
        empty = f"rejected: {exc}"
    arr = p.arrivals(4)
    sim = make_sim([*sagas, zero, slow, rec], p.end())
    for i, t in enumerate(arr):
        for sg in sagas:
            sim.schedule(_hooked(ev(t, "StartSaga", sg, i=i), rec))
    return Scenario(sim, {sg.name: sg for sg in sagas} | {"rec": rec}, "microservice", True, len(arr) * len(sagas), extras={"empty_saga": empty})


@scenario("microservice.degenerate_empty_outbox_and_single_entry_store", "microservice")
def degenerate_empty_outbox_and_single_entry_store(seed, params):
    """OutboxRelay polled while empty (prime_poll and trigger events without any write), with
    relay_latency 0 and batch_size 1; IdempotencyStore with max_entries=1 and a 1 ns ttl in
    front of a zero-latency target; APIGateway with auth_latency 0, a route timeout of 0 and
    auth_failure_rate 1.0; Sidecar with max_retries 0 and retry_base_delay 0."""
    p = P(params, seed)
    rec = Recorder("rec")
    zero = Replier("zero", 0.0, downstream=rec)
    slow = Replier("slow", p.lat(0), downstream=rec)
    empty_relay = OutboxRelay("outbox.empty", downstream=rec, poll_interval=_every(p, 1), batch_size=1, relay_latency=0.0)
    late_relay = OutboxRelay("outbox.late", downstream=zero, poll_interval=_every(p, 2), batch_size=1, relay_latency=0.0)
    store = IdempotencyStore("idem.one", target=zero, key_extractor=lambda e: e.context.get("metadata", {}).get("key"), ttl=1e-9, max_entries=1, cleanup_interval=_every(p, 3))
    store2 = IdempotencyStore("idem.slow", target=slow, key_extractor=lambda e: e.context.get("metadata", {}).get("key"), ttl=p.lat(1), max_entries=1, cleanup_interval=_every(p, 3))
    gw = APIGateway(
        "gw.zero",
        {"a": RouteConfig("a", backends=[slow], timeout=0.0, auth_required=False), "b": RouteConfig("b", backends=[zero], timeout=p.lat(1))},
        auth_latency=0.0,
        auth_failure_rate=0.0,
    )
    gw_deny = APIGateway("gw.deny", {"a": RouteConfig("a", backends=[zero])}, auth_latency=p.lat(2), auth_failure_rate=1.0)
    sc = Sidecar("sidecar.noretry", target=slow, circuit_failure_threshold=1, circuit_success_threshold=1, circuit_timeout=p.lat(1), request_timeout=p.lat(0) * 0.5, max_retries=0, retry_base_delay=0.0)
    sc0 = Sidecar("sidecar.zero_backoff", target=slow, circuit_failure_threshold=9, circuit_timeout=p.lat(1), request_timeout=p.lat(0) * 0.5, max_retries=p.count(0, 2, hi=3), retry_base_delay=0.0)

    def primer(proc, event):
        proc.done += 1
        if proc.done == 1:
            return [empty_relay.prime_poll(), late_relay.prime_poll()]
        late_relay.write({"late": proc.done})  # first write long after the (stopped) empty polls
        return [Event(time=proc.now, event_type="Written", target=late_relay), Event(time=proc.now, event_type="Nudge", target=empty_relay)]

    pr = Proc("primer", primer)
    targets = [store, store2, gw, gw_deny, sc, sc0]
    arr = p.arrivals(4)
    sim = make_sim([*targets, empty_relay, late_relay, zero, slow, rec, pr], p.end())
    sim.schedule(ev(min(arr), "prime", pr))
    sim.schedule(ev(max(arr) + int(_every(p, 2) * 3e9), "late", pr))
    for i, t in enumerate(arr):
        for tg in targets:
            sim.schedule(ev(t, "Request", tg, i=i, key="same" if i % 2 else f"k{i}", route="ab"[i % 2]))
    return Scenario(
        sim,
        {t.name: t for t in targets} | {"outbox.empty": empty_relay, "outbox.late": late_relay, "rec": rec},
        "microservice",
        True,
        len(arr) * len(targets) + 2,
    )

"""network family: Network, NetworkLink, Partition and the condition factories.

Clients (harness `Proc`s) start at the arrival instants (bursts on one
nanosecond) and push messages through a `Network`; servers echo every request
back through the network, so both directions of every link carry traffic.
Links have latency AND jitter AND bandwidth AND loss all non-zero; partitions
are created and healed while packets are in flight.
"""

from __future__ import annotations

import random

from happysimulator.components.network import (
    Network,
    NetworkLink,
    cross_region_network,
    datacenter_network,
    internet_network,
    local_network,
    lossy_network,
    mobile_3g_network,
    mobile_4g_network,
    satellite_network,
    slow_network,
)

from hsverif.scenarios import Scenario, scenario
from hsverif.scenarios._kit import ConstantLatency, ExponentialLatency, P, Proc, Recorder, ev, make_sim


def _link(p, i, name, loss=0.05, bw=1_000_003.0, egress=None):
    """A link with every knob non-zero (latency, jitter, bandwidth, loss)."""
    return NetworkLink(
        name=name,
        latency=ConstantLatency(p.lat(i)),
        jitter=ExponentialLatency(p.lat(i + 1)),
        bandwidth_bps=bw,
        packet_loss_rate=loss,
        egress=egress,
    )


def _echo_server(name, net, think_s):
    """Harness server: thinks for a positive time, then answers through the network."""

    def body(proc, event):
        md = event.context["metadata"]
        yield think_s
        proc.done += 1
        src = md.get("reply_to")
        if src is None:
            return None
        return [net.send(proc, src, "Reply", payload={"rid": md.get("rid"), "payload_size": 64 + 7 * (proc.done % 5)})]

    return Proc(name, body)


def _client(name, net, rec):
    """Harness client: one request per start event; replies are counted by `rec`."""

    def body(proc, event):
        md = event.context["metadata"]
        if event.event_type == "Reply":
            proc.done += 1
            rec.received += 1
            return None
        dst = md["dst"]
        return [
            net.send(
                proc,
                dst,
                "Request",
                payload={"rid": md["worker"], "reply_to": proc, "payload_size": md.get("size", 1500)},
            )
        ]

    return Proc(name, body)


@scenario("network.full_links_echo", "network")
def full_links_echo(seed, params):
    """3 clients x 2 servers, one explicit lossy/jittery/bandwidth-limited link per direction."""
    p = P(params, seed)
    rng = random.Random(seed)
    net = Network(name="net")
    rec = Recorder("replies")
    n_srv = p.count(1, 2, lo=1, hi=4)
    servers = [_echo_server(f"srv{i}", net, p.lat(4 + i)) for i in range(n_srv)]
    clients = [_client(f"cli{i}", net, rec) for i in range(p.count(0, 3, lo=1, hi=5))]
    k = 0
    for c in clients:
        for s in servers:
            # add_link both ways with *different* parameters; add_bidirectional_link for one pair
            if c is clients[0] and s is servers[0]:
                net.add_bidirectional_link(c, s, _link(p, k, f"l_{c.name}_{s.name}", loss=p.x("loss", 0.1)))
            else:
                net.add_link(c, s, _link(p, k, f"l_{c.name}_{s.name}", loss=p.x("loss", 0.1)))
                net.add_link(s, c, _link(p, k + 2, f"l_{s.name}_{c.name}", loss=p.x("loss", 0.1), bw=64_000.0))
            k += 1
    arr = p.arrivals(12)
    stranger = Recorder("stranger")  # known to nobody: no route, no default link

    def monitor(proc, event):
        # samples the public read-only views while packets are on the wire
        yield p.lat(0) * 0.5
        proc.log.append([(s.source, s.destination, s.packets_sent, s.packets_dropped) for s in net.traffic_matrix()][:4])
        proc.log.append([round(l.current_utilization, 9) for l in net._routes.values()][:4])
        proc.log.append([l.link_stats.bytes_transmitted for l in net._routes.values()][:4])
        proc.done += 1
        return [net.send(proc, stranger, "Lost", payload={"payload_size": 10})]

    mon = Proc("monitor", monitor)
    sim = make_sim([net, rec, mon, stranger, *servers, *clients], p.end())
    for i, t in enumerate(arr):
        c = clients[i % len(clients)]
        sim.schedule(ev(t, "start", c, worker=i, dst=servers[rng.randrange(n_srv)], size=rng.choice([1, 64, 1500, 65_536])))
    sim.schedule(ev(min(arr), "start", mon))
    comps = {"net": net, "replies": rec, "monitor": mon}
    comps.update({f"link{j}": l for j, l in enumerate(net._routes.values())})
    return Scenario(sim, comps, "network", True, len(arr) + 1)


_FACTORIES = [
    ("local", lambda p: local_network("local")),
    ("datacenter", lambda p: datacenter_network("datacenter")),
    ("cross_region", lambda p: cross_region_network("cross_region")),
    ("internet", lambda p: internet_network("internet")),
    ("satellite", lambda p: satellite_network("satellite")),
    ("lossy", lambda p: lossy_network(min(0.9, max(0.01, p.x("loss", 0.2))), "lossy", base_latency=p.lat(0))),
    ("slow", lambda p: slow_network(p.lat(1), "slow", bandwidth_bps=56_000.0)),
    ("mobile_3g", lambda p: mobile_3g_network("mobile_3g")),
    ("mobile_4g", lambda p: mobile_4g_network("mobile_4g")),
]


@scenario("network.condition_factories", "network")
def condition_factories(seed, params):
    """One client, nine servers; each server is reached over a different condition factory."""
    p = P(params, seed)
    rng = random.Random(seed)
    net = Network(name="net")
    rec = Recorder("replies")
    client = _client("cli", net, rec)
    servers = []
    for j, (nm, mk) in enumerate(_FACTORIES):
        s = _echo_server(f"srv_{nm}", net, p.lat(j))
        servers.append(s)
        net.add_bidirectional_link(client, s, mk(p))
    arr = p.arrivals(18)
    sim = make_sim([net, rec, client, *servers], p.end())
    for i, t in enumerate(arr):
        sim.schedule(ev(t, "start", client, worker=i, dst=servers[i % len(servers)], size=rng.choice([40, 1500, 9000])))
    comps = {"net": net, "replies": rec}
    comps.update({l.name: l for l in net._routes.values()})
    return Scenario(sim, comps, "network", True, len(arr))


@scenario("network.one_condition_burst", "network")
def one_condition_burst(seed, params):
    """The whole burst over ONE condition factory (chosen by x.v), both directions."""
    p = P(params, seed)
    _, mk = _FACTORIES[int(p.x("v", seed)) % len(_FACTORIES)]
    net = Network(name="net")
    rec = Recorder("replies")
    a = _client("cli", net, rec)
    b = _echo_server("srv", net, p.lat(2))
    net.add_bidirectional_link(a, b, mk(p))
    arr = p.arrivals(10)
    sim = make_sim([net, rec, a, b], p.end())
    for i, t in enumerate(arr):
        sim.schedule(ev(t, "start", a, worker=i, dst=b, size=1 + 997 * (i % 7)))
    return Scenario(sim, {"net": net, "replies": rec, **{l.name: l for l in net._routes.values()}}, "network", True, len(arr))


@scenario("network.partition_in_flight", "network")
def partition_in_flight(seed, params):
    """Partitions (symmetric, asymmetric, selective heal, heal-all) created and healed
    while requests and replies are in flight."""
    p = P(params, seed)
    rng = random.Random(seed)
    net = Network(name="net")
    rec = Recorder("replies")
    servers = [_echo_server(f"srv{i}", net, p.lat(3 + i)) for i in range(p.count(1, 2, lo=2, hi=4))]
    clients = [_client(f"cli{i}", net, rec) for i in range(p.count(0, 2, lo=2, hi=5))]
    k = 0
    for c in clients:
        for s in servers:
            net.add_bidirectional_link(c, s, _link(p, k, f"l_{c.name}_{s.name}", loss=0.02))
            k += 1
    arr = p.arrivals(12)
    t0 = min(arr)
    gap = p.lat(0) + p.lat(1)

    def chaos(proc, event):
        # all times relative to the first burst; every wait is a positive duration
        yield p.lat(0) * 0.5  # first packets are on the wire
        part1 = net.partition([clients[0]], [servers[0]])
        proc.log.append(("sym", proc.now.nanoseconds, part1.is_active))
        yield gap
        part2 = net.partition([servers[1]], [clients[1]], asymmetric=True)  # replies blocked, requests pass
        proc.log.append(("asym", proc.now.nanoseconds, part2.is_active))
        yield gap
        part1.heal()
        proc.log.append(("heal1", proc.now.nanoseconds, part1.is_active, part2.is_active))
        yield gap
        net.heal_partition()
        proc.log.append(("healall", proc.now.nanoseconds, net.is_partitioned("srv1", "cli1")))
        proc.done += 1
        # after the heal a second wave goes through
        out = []
        for i in range(4):
            c = clients[i % 2]
            out.append(ev(proc.now.nanoseconds, "start", c, worker=100 + i, dst=servers[(i // 2) % 2], size=512))
        return out

    ch = Proc("chaos", chaos)
    sim = make_sim([net, rec, ch, *servers, *clients], p.end())
    for i, t in enumerate(arr):
        sim.schedule(ev(t, "start", clients[i % 2], worker=i, dst=servers[rng.randrange(2)], size=rng.choice([64, 1500])))
    sim.schedule(ev(t0, "chaos", ch))
    # stragglers sent while partitioned
    for j in range(6):
        t = t0 + int((p.lat(0) * 0.5 + gap * (j * 0.5 + 0.25)) * 1e9)
        sim.schedule(ev(t, "start", clients[j % 2], worker=50 + j, dst=servers[j % 2], size=200))
    return Scenario(sim, {"net": net, "replies": rec, "chaos": ch}, "network", True, len(arr) + 11)


@scenario("network.default_link_gateway", "network")
def default_link_gateway(seed, params):
    """No explicit routes: everything goes over `default_link` whose egress is a gateway
    that relays to the real destination over a second network with explicit links."""
    p = P(params, seed)
    inner = Network(name="inner")
    sink = Recorder("sink")
    hosts = [Recorder(f"host{i}") for i in range(3)]

    def gw_body(proc, event):
        md = event.context["metadata"]
        yield p.lat(2)
        proc.done += 1
        host = hosts[md.get("rid", 0) % len(hosts)]
        return [inner.send(proc, host, "Relayed", payload={"rid": md.get("rid"), "payload_size": md.get("payload_size", 100)})]

    gw = Proc("gateway", gw_body)
    default = _link(p, 0, "default", loss=p.x("loss", 0.05), bw=256_000.0, egress=gw)
    outer = Network(name="outer", default_link=default)
    for i, h in enumerate(hosts[:2]):
        inner.add_link(gw, h, _link(p, 3 + i, f"in_{h.name}", loss=0.01))
    # host2 has no explicit route on `inner`: it falls back to inner.default_link
    inner.default_link = _link(p, 5, "inner_default", loss=0.01, egress=hosts[2])

    def cl_body(proc, event):
        md = event.context["metadata"]
        return [outer.send(proc, sink, "Request", payload={"rid": md["worker"], "payload_size": 100 + md["worker"]})]

    clients = [Proc(f"cli{i}", cl_body) for i in range(3)]
    arr = p.arrivals(12)
    void = Network(name="void", default_link=_link(p, 6, "void_default", loss=0.0))
    sim = make_sim([outer, inner, void, gw, sink, *hosts, *clients], p.end())
    for i, t in enumerate(arr):
        sim.schedule(ev(t, "start", clients[i % 3], worker=i))
    # an event without routing metadata is dropped, not crashed
    sim.schedule(ev(min(arr), "NoMeta", outer))
    # a network whose default link has no egress: the packet travels and is then lost
    sim.schedule(ev(min(arr), "Void", void, source="cli0", destination="nowhere", payload_size=33))
    return Scenario(
        sim,
        {"outer": outer, "inner": inner, "void": void, "default": default, "gateway": gw, **{h.name: h for h in hosts}},
        "network",
        True,
        len(arr) + 2,
    )


# ----------------------------------------------------------------------
# wide configurations: fan-out counts, parameters out of proportion, degenerate routing


@scenario("network.fanout_one_sender", "network")
def fanout_one_sender(seed, params):
    """One sender, n = count(0) receivers (1..12), one link each; every arrival is a fan-out of n
    packets on one nanosecond.  x.v even: every link has the SAME latency (n deliveries on one
    instant); odd: latencies cycle through the drawn list.  Latencies are used unscaled."""
    p = P(params, seed)
    n = p.count(0, 9, lo=1, hi=12)
    same = int(p.x("v", seed)) % 2 == 0
    net = Network(name="net")
    rec = Recorder("replies")
    receivers = [_echo_server(f"rcv{i}", net, p.lat(1)) for i in range(n)]

    def sender(proc, event):
        md = event.context["metadata"]
        if event.event_type == "Reply":
            rec.received += 1
            proc.done += 1
            return None
        return [
            net.send(proc, r, "Request", payload={"rid": md["worker"], "reply_to": proc, "payload_size": 100 * (1 + j % 3)})
            for j, r in enumerate(receivers)
        ]

    snd = Proc("sender", sender)
    for j, r in enumerate(receivers):
        lat = p.lat(0) if same else p.lat(j)
        link = NetworkLink(
            name=f"l_{r.name}",
            latency=ConstantLatency(lat),
            # no jitter on the same-latency variant: all n packets land on one nanosecond
            jitter=None if same else ExponentialLatency(p.lat(j + 1)),
            bandwidth_bps=None if same else 1_000_003.0,
            packet_loss_rate=0.0 if same else 0.02,
        )
        net.add_bidirectional_link(snd, r, link)
    arr = p.arrivals(6)
    sim = make_sim([net, rec, snd, *receivers], p.end())
    for i, t in enumerate(arr):
        sim.schedule(ev(t, "start", snd, worker=i))
    return Scenario(sim, {"net": net, "replies": rec, **{l.name: l for l in net._routes.values()}}, "network", True, len(arr))


@scenario("network.chain_of_hops", "network")
def chain_of_hops(seed, params):
    """A packet relayed over n = count(0) hops (1..12) of identical latency: the arrival time at
    the last hop is n additions of the same latency (0.0003 s x 9, 0.3 s x 3 ...)."""
    p = P(params, seed)
    n = p.count(0, 5, lo=1, hi=12)
    lat = p.lat(0)
    net = Network(name="net")
    sink = Recorder("sink")
    hops: list = []

    def relay(proc, event):
        md = event.context["metadata"]
        proc.done += 1
        j = md["hop"] + 1
        nxt = hops[j] if j < len(hops) else sink
        return [net.send(proc, nxt, "Hop", payload={"hop": j, "rid": md.get("rid"), "payload_size": 10})]

    hops.extend(Proc(f"hop{i}", relay) for i in range(n))
    chain = [*hops, sink]
    for a, b in zip(chain, chain[1:]):
        net.add_link(a, b, NetworkLink(name=f"l_{a.name}", latency=ConstantLatency(lat)))
    arr = p.arrivals(6)
    sim = make_sim([net, sink, *hops], max(p.end(), lat * (n + 1) * 1.5))
    for i, t in enumerate(arr):
        sim.schedule(ev(t, "Hop", hops[0], hop=0, rid=i))
    return Scenario(sim, {"net": net, "sink": sink}, "network", True, len(arr))


def _below(v: float, ceil: float) -> float:
    """Divide by ten until <= ceil (never below one nanosecond)."""
    while v > ceil:
        v /= 10.0
    return max(v, 1e-9)


@scenario("network.extreme_links", "network")
def extreme_links(seed, params):
    """Link parameters out of proportion, one link per case, same traffic over each:
    tiny bandwidth (serialisation >> latency), huge bandwidth, jitter >> latency, loss 0.999,
    loss 0, latency exactly 0 (no jitter, no bandwidth), zero latency with jitter only."""
    p = P(params, seed)
    end = p.end()
    net = Network(name="net")
    rec = Recorder("replies")
    cli = _client("cli", net, rec)
    small = _below(p.lat(0), end / 5000.0)
    big = min(max(p.lat(1), small * 300), end / 20.0)
    cases = [
        ("tiny_bw", dict(latency=ConstantLatency(small), bandwidth_bps=float(p.x("tiny_bw", 9_600.0)), jitter=ExponentialLatency(small))),
        ("huge_bw", dict(latency=ConstantLatency(p.lat(2)), bandwidth_bps=1e15, jitter=ExponentialLatency(small))),
        ("jitter_dominates", dict(latency=ConstantLatency(small), jitter=ExponentialLatency(big), bandwidth_bps=1e9)),
        ("loss_999", dict(latency=ConstantLatency(p.lat(3)), jitter=ExponentialLatency(p.lat(4)), packet_loss_rate=0.999)),
        ("loss_0", dict(latency=ConstantLatency(p.lat(4)), jitter=ExponentialLatency(p.lat(5)), packet_loss_rate=0.0)),
        ("zero_latency", dict(latency=ConstantLatency(0.0))),
        ("zero_latency_jitter", dict(latency=ConstantLatency(0.0), jitter=ExponentialLatency(p.lat(0)))),
        ("one_ns", dict(latency=ConstantLatency(1e-9), jitter=ConstantLatency(1e-9), bandwidth_bps=8e9)),
    ]
    servers = []
    for j, (nm, kw) in enumerate(cases):
        srv = _echo_server(f"srv_{nm}", net, p.lat(j))  # positive think time: no zero-delay ping-pong
        servers.append(srv)
        net.add_bidirectional_link(cli, srv, NetworkLink(name=nm, **kw))
    arr = p.arrivals(16)
    sim = make_sim([net, rec, cli, *servers], end)
    for i, t in enumerate(arr):
        sim.schedule(ev(t, "start", cli, worker=i, dst=servers[i % len(servers)], size=[0, 1, 1200, 12_000][i % 4]))
    return Scenario(sim, {"net": net, "replies": rec, **{l.name: l for l in net._routes.values()}}, "network", True, len(arr))


@scenario("network.degenerate_routing", "network")
def degenerate_routing(seed, params):
    """Self-send (source == destination) over a self-link, send to an unknown destination, a node
    partitioned from itself, heal of a partition that was never created, double heal, overlapping
    partitions healed in the other order - all while ordinary traffic flows."""
    p = P(params, seed)
    net = Network(name="net")
    rec = Recorder("replies")
    ghost = Recorder("ghost")  # never linked
    srv = _echo_server("srv", net, p.lat(2))
    cli = _client("cli", net, rec)

    def loner(proc, event):
        md = event.context["metadata"]
        if event.event_type == "Self":
            proc.done += 1
            if md.get("n", 0) < 3:  # a few laps around the self-link
                return [net.send(proc, proc, "Self", payload={"n": md.get("n", 0) + 1, "payload_size": 8})]
            return None
        return [
            net.send(proc, proc, "Self", payload={"n": 0, "payload_size": 8}),
            net.send(proc, ghost, "Lost", payload={"payload_size": 8}),
            net.send(ghost, proc, "FromNowhere", payload={"payload_size": 8}),
        ]

    solo = Proc("solo", loner)
    net.add_link(solo, solo, _link(p, 0, "self_link", loss=0.0))
    net.add_bidirectional_link(cli, srv, _link(p, 1, "l_cli_srv", loss=0.01))
    arr = p.arrivals(10)
    t0 = min(arr)
    gap = p.lat(0) + p.lat(1)

    def chaos(proc, event):
        net.heal_partition()  # nothing to heal
        yield gap * 0.25
        me = net.partition([solo], [solo])  # a node cut off from itself
        proc.log.append(("self_cut", net.is_partitioned("solo", "solo"), me.is_active))
        yield gap
        a = net.partition([cli], [srv])
        b = net.partition([cli], [srv, ghost])  # overlaps `a`
        yield gap
        a.heal()
        proc.log.append(("a_healed", net.is_partitioned("cli", "srv"), a.is_active, b.is_active))
        a.heal()  # double heal
        yield gap
        b.heal()
        me.heal()
        proc.log.append(("all_healed", net.is_partitioned("cli", "srv"), net.is_partitioned("solo", "solo")))
        net.partition([], [cli])  # empty group: no pairs
        net.heal_partition()
        proc.done += 1
        return [ev(proc.now.nanoseconds, "start", solo, worker=99), ev(proc.now.nanoseconds, "start", cli, worker=98, dst=srv, size=64)]

    ch = Proc("chaos", chaos)
    sim = make_sim([net, rec, ghost, srv, cli, solo, ch], p.end())
    for i, t in enumerate(arr):
        if i % 2:
            sim.schedule(ev(t, "start", solo, worker=i))
        else:
            sim.schedule(ev(t, "start", cli, worker=i, dst=srv, size=64 + i))
    sim.schedule(ev(t0, "start", ch))
    for j in range(6):  # traffic during every phase of the chaos script
        t = t0 + int(gap * (0.5 + 0.6 * j) * 1e9)
        sim.schedule(ev(t, "start", solo if j % 2 else cli, worker=50 + j, dst=srv, size=32))
    return Scenario(sim, {"net": net, "replies": rec, "chaos": ch, "solo": solo}, "network", True, len(arr) + 9)


# ----------------------------------------------------------------------
# jitter that can go negative (the link clamps the *total* delay at zero)


class SignedJitter(ExponentialLatency.__mro__[1]):  # LatencyDistribution: a public extension point
    """Zero-mean jitter: uniform in [-width, +width] seconds from its own seeded RNG (harness distribution).

    NetworkLink documents / implements `max(0.0, latency + jitter + transmission)`: a zero-mean jitter is the
    natural model and its negative samples may exceed the base latency."""

    def __init__(self, width: float, seed: int):
        super().__init__(0.0)
        self.width = float(width)
        self._rng = random.Random(seed)

    def get_latency(self, current_time):
        from happysimulator.core.temporal import Duration

        return Duration.from_seconds(self._rng.uniform(-self.width, self.width))


@scenario("network.signed_jitter_links", "network")
def signed_jitter_links(seed, params):
    """Links whose jitter can be negative and larger than the base latency (+ transmission time):
    seeded zero-mean uniform jitter 0.5x / 3x / 50x the latency, and the library's own shifted constant
    (`ConstantLatency(a) - b`, negative); with and without bandwidth; egress links and Network routes."""
    p = P(params, seed)
    net = Network(name="net")
    rec = Recorder("replies")
    n = p.count(0, 4, lo=2, hi=9)
    receivers = [_echo_server(f"rcv{i}", net, p.lat(1)) for i in range(n)]
    direct = Recorder("direct")

    def sender(proc, event):
        md = event.context["metadata"]
        if event.event_type == "Reply":
            rec.received += 1
            return None
        proc.done += 1
        return [
            net.send(proc, r, "Request", payload={"rid": md["worker"], "reply_to": proc, "payload_size": 100 * (1 + j % 3)})
            for j, r in enumerate(receivers)
        ]

    snd = Proc("sender", sender)
    widths = (0.5, 3.0, 50.0)
    for j, r in enumerate(receivers):
        lat = p.lat(j)
        if j % 4 == 3:
            jit = ConstantLatency(lat) - (lat * 3)  # the library's own arithmetic: a constant negative "jitter"
        else:
            jit = SignedJitter(lat * widths[j % 3], seed * 101 + j)
        link = NetworkLink(
            name=f"l_{r.name}", latency=ConstantLatency(lat), jitter=jit,
            bandwidth_bps=None if j % 2 else 8_000_003.0, packet_loss_rate=0.0,
        )  # fmt: skip
        net.add_bidirectional_link(snd, r, link)
    # a stand-alone link used directly (egress), negative jitter far beyond the latency
    lone = NetworkLink(name="lone", latency=ConstantLatency(p.lat(0)), jitter=SignedJitter(p.lat(0) * 20, seed + 7), egress=direct)
    arr = p.arrivals(6)
    sim = make_sim([net, rec, snd, lone, direct, *receivers], p.end())
    for i, t in enumerate(arr):
        sim.schedule(ev(t, "start", snd, worker=i))
        sim.schedule(ev(t, "Packet", lone, n=i))
    return Scenario(sim, {"net": net, "replies": rec, "lone": lone, "direct": direct}, "network", True, 2 * len(arr))

"""behavior family: Agent, Environment (+ Population, SocialGraph, decision / influence models,
stimulus factories).

Agents react to stimuli with a positive action_delay and beat a heartbeat daemon; the
Environment fans stimuli out to its agents at the current instant.  Stimuli are created with
the factories of stimulus.py at the arrival instants (bursts on one nanosecond).
"""

from __future__ import annotations

import random

from happysimulator.components.behavior import (
    Agent,
    BoundedConfidenceModel,
    BoundedRationalityModel,
    Choice,
    CompositeModel,
    DeGrootModel,
    DemographicSegment,
    Environment,
    NormalTraitDistribution,
    PersonalityTraits,
    Population,
    Rule,
    RuleBasedModel,
    SocialGraph,
    SocialInfluenceModel,
    UtilityModel,
    VoterModel,
)
from happysimulator.components.behavior.state import AgentState
from happysimulator.components.behavior.stimulus import (
    broadcast_stimulus,
    influence_propagation,
    policy_announcement,
    price_change,
    targeted_stimulus,
)

from hsverif.scenarios import Scenario, scenario
from hsverif.scenarios._kit import Event, Instant, P, Recorder, at, ev, make_sim


def _every(p: P, i: int, n: int = 1500) -> float:
    """Heartbeat period: the hostile value, floored so one agent beats ~< n times per run."""
    return max(p.lat(i), p.end() / n)


def _utility(choice: Choice, ctx) -> float:
    base = {"buy": 0.7, "wait": 0.4, "switch": 0.2, "accept": 0.6, "protest": 0.3, "ignore": 0.5, "share": 0.55}.get(choice.action, 0.1)
    return base + 0.2 * ctx.state.mood - 0.1 * ctx.traits.get("neuroticism")


def _models() -> dict:
    return {
        "utility_greedy": lambda: UtilityModel(_utility, temperature=0.0),
        "utility_softmax": lambda: UtilityModel(_utility, temperature=0.5),
        "rules": lambda: RuleBasedModel(
            [
                Rule(lambda c: c.state.mood > 0.6, "buy", priority=2),
                Rule(lambda c: c.stimulus.get("valence", 0) < 0, "protest", priority=1),
            ],
            default_action="wait",
        ),
        "bounded": lambda: BoundedRationalityModel(_utility, aspiration=0.5),
        "social": lambda: SocialInfluenceModel(_utility, conformity_weight=0.6),
        "composite": lambda: CompositeModel(
            [(UtilityModel(_utility), 1.0), (BoundedRationalityModel(_utility, 0.45), 0.7), (SocialInfluenceModel(_utility), 0.5)]
        ),
    }


def _wire_actions(agent: Agent, rec: Recorder, peers: list | None = None) -> None:
    """Action handlers run after action_delay; they emit at the agent's current time."""

    def emit(a: Agent, choice: Choice, event: Event):
        out = [Event(time=a.now, event_type=f"did.{choice.action}", target=rec)]
        if peers and choice.action in ("buy", "protest", "share"):
            peer = peers[(len(a.name) + a.stats.decisions_made) % len(peers)]
            if peer is not a:
                out.append(
                    Event(
                        time=a.now,
                        event_type="SocialMessage",
                        target=peer,
                        context={"metadata": {"topic": "brand", "opinion": 0.8, "credibility": 0.7, "knowledge": [choice.action]}},
                    )
                )
        return out

    for action in ("buy", "wait", "switch", "accept", "protest", "ignore", "share"):
        agent.on_action(action, emit if action != "ignore" else (lambda a, c, e: None))
    agent.on_action("wait", lambda a, c, e: Event(time=a.now, event_type="did.wait", target=rec))


def _first_heartbeats(sim, agents) -> None:
    for a in agents:
        hb = a.schedule_first_heartbeat(Instant.Epoch)
        if hb is not None:
            sim.schedule(hb)
        assert a.schedule_first_heartbeat(Instant.Epoch) is None  # second call is a no-op


# ----------------------------------------------------------------------
# Agent x decision model (no environment: stimuli sent straight to the agents)


def _agents_direct(seed, params, model_name: str):
    p = P(params, seed)
    rng = random.Random(seed)
    rec = Recorder("rec")
    model = _models()[model_name]
    agents = [
        Agent(
            f"agent{i}",
            traits=PersonalityTraits.big_five(agreeableness=rng.random(), neuroticism=rng.random()),
            decision_model=model(),
            state=AgentState(mood=rng.random(), needs={"food": 0.2}),
            seed=seed * 31 + i,
            heartbeat_interval=_every(p, 1 + i),
            action_delay=p.lat(i),
        )
        for i in range(p.count(0, 3, hi=10))
    ]
    for a in agents:
        _wire_actions(a, rec, agents)
    arr = p.arrivals(9)
    sim = make_sim([*agents, rec], p.end())
    _first_heartbeats(sim, agents)
    kinds = [
        ["buy", "wait", "switch"],
        [Choice("accept"), Choice("protest", {"x": 1}), Choice("ignore")],
        [{"action": "share", "context": {"k": 1}}, {"action": "wait"}],
        [],  # no choices: memory / mood only
    ]
    for i, t in enumerate(arr):
        a = agents[i % len(agents)]
        choices = kinds[i % len(kinds)]
        sim.schedule(
            ev(
                t,
                "Offer" if i % 2 else "Alert",
                a,
                i=i,
                choices=choices,
                valence=rng.choice([-0.5, 0.0, 0.4]),
                source="harness",
                social_context={"peer_actions": {"buy": i % 3, "wait": 1}},
            )
        )
    return Scenario(sim, {a.name: a for a in agents} | {"rec": rec}, "behavior", True, len(arr))


def _mk_agents(model_name: str):
    @scenario(f"behavior.agents_{model_name}", "behavior")
    def builder(seed, params):
        return _agents_direct(seed, params, model_name)

    builder.__doc__ = f"counts[0] agents (default 3, {model_name} decision model), positive action_delay and heartbeat, bursts of stimuli."
    return builder


for _m in _models():
    _mk_agents(_m)


# ----------------------------------------------------------------------
# Environment + SocialGraph + influence models + stimulus factories


def _environment(seed, params, influence_name: str, graph_kind: str):
    p = P(params, seed)
    rng = random.Random(seed)
    rec = Recorder("rec")
    influence = {"degroot": DeGrootModel(self_weight=0.4), "bounded_confidence": BoundedConfidenceModel(epsilon=0.5), "voter": VoterModel()}[
        influence_name
    ]
    models = list(_models().values())
    n = p.count(0, 5, lo=4, hi=12)  # the hand-made graph names a0..a3
    agents = [
        Agent(
            f"a{i}",
            traits=PersonalityTraits.big_five(agreeableness=0.2 + 0.15 * i),
            decision_model=models[i % len(models)](),
            state=AgentState(beliefs={"brand": rng.uniform(-1, 1)}),
            seed=seed + i,
            heartbeat_interval=_every(p, 3),
            action_delay=p.lat(i % 3),
        )
        for i in range(n)
    ]
    names = [a.name for a in agents]
    if graph_kind == "complete":
        graph = SocialGraph.complete(names, weight=0.6, trust=0.7)
    elif graph_kind == "random":
        graph = SocialGraph.random_erdos_renyi(names, p=0.5, rng=random.Random(seed))
    elif graph_kind == "small_world":
        graph = SocialGraph.small_world(names, k=2, p_rewire=0.3, rng=random.Random(seed))
    else:  # hand made, with an isolated node
        graph = SocialGraph()
        graph.add_bidirectional_edge("a0", "a1", 0.9, 0.9)
        graph.add_edge("a1", "a2", 0.3, 0.2)
        graph.add_edge("a3", "a2", 0.5, 0.5)
        graph.record_interaction("a0", "a1")
    env = Environment("env", agents=agents, social_graph=graph, shared_state={"season": "winter"}, influence_model=influence, seed=seed)
    for a in agents:
        _wire_actions(a, rec, agents)
    arr = p.arrivals(10)
    # Environment.set_clock injects the clock into its agents
    sim = make_sim([env, rec], p.end())
    _first_heartbeats(sim, agents)
    for i, t in enumerate(arr):
        k = i % 6
        if k == 0:
            e = broadcast_stimulus(at(t), env, "Promotion", choices=["buy", "wait", {"action": "share"}], valence=0.2, source="ads")
        elif k == 1:
            e = targeted_stimulus(at(t), env, ["a0", "a3", "nobody"], "Coupon", choices=[Choice("buy"), Choice("ignore")], valence=0.1)
        elif k == 2:
            e = price_change(at(t), env, "widget", old_price=10.0, new_price=rng.choice([8.0, 12.0]))
        elif k == 3:
            e = policy_announcement(t / 1e9, env, "tax", "a new tax", valence=-0.4)  # float seconds flavour
        elif k == 4:
            e = influence_propagation(at(t), env, "brand")
        else:
            e = ev(t, "StateChange", env, key="season", value=f"s{i}")
        sim.schedule(e)
    sim.schedule(ev(max(arr) + 1, "SomethingElse", env))
    return Scenario(sim, {"env": env, "rec": rec, **{a.name: a for a in agents}}, "behavior", True, len(arr) + 1)


@scenario("behavior.environment_degroot_complete", "behavior")
def environment_degroot_complete(seed, params):
    """Environment over a complete SocialGraph, DeGroot influence; every stimulus factory."""
    return _environment(seed, params, "degroot", "complete")


@scenario("behavior.environment_bounded_confidence_small_world", "behavior")
def environment_bounded_confidence_small_world(seed, params):
    """Small-world graph, BoundedConfidence influence."""
    return _environment(seed, params, "bounded_confidence", "small_world")


@scenario("behavior.environment_voter_random", "behavior")
def environment_voter_random(seed, params):
    """Erdos-Renyi graph, Voter influence."""
    return _environment(seed, params, "voter", "random")


@scenario("behavior.environment_degroot_sparse", "behavior")
def environment_degroot_sparse(seed, params):
    """Hand-made sparse directed graph with isolated agents."""
    return _environment(seed, params, "degroot", "manual")


# ----------------------------------------------------------------------
# Population factories


def _population(seed, params, kind: str):
    p = P(params, seed)
    rec = Recorder("rec")
    size = p.count(0, 8, hi=12)  # 1 and 2 exercise the degenerate graph builders
    if kind == "uniform":
        pop = Population.uniform(size, decision_model=UtilityModel(_utility, temperature=0.3), graph_type="small_world", seed=seed)
    else:
        segs = [
            DemographicSegment(
                "young",
                0.5,
                trait_distribution=NormalTraitDistribution({"agreeableness": 0.7, "neuroticism": 0.3}),
                decision_model_factory=lambda: SocialInfluenceModel(_utility, 0.7),
                initial_state_factory=lambda: AgentState(mood=0.8),
                seed=seed + 1,
            ),
            DemographicSegment("old", 0.3, decision_model_factory=lambda: BoundedRationalityModel(_utility, 0.6)),
            DemographicSegment("rest", 0.2),
        ]
        pop = Population.from_segments(size, segs, graph_type="complete" if kind == "segments_complete" else "random", seed=seed)
    # action_delay / heartbeat_interval are public attributes of Agent (the factories use the defaults)
    for i, a in enumerate(pop.agents):
        a.action_delay = p.lat(i % 4)
        a.heartbeat_interval = _every(p, 4 + i % 2, n=600)
        _wire_actions(a, rec, pop.agents)
    env = Environment("env", agents=pop.agents, social_graph=pop.social_graph, influence_model=VoterModel(), seed=seed)
    arr = p.arrivals(8)
    sim = make_sim([env, rec], p.end())
    _first_heartbeats(sim, pop.agents)
    for i, t in enumerate(arr):
        if i % 3 == 0:
            e = price_change(at(t), env, "gadget", 5.0, 4.0)
        elif i % 3 == 1:
            e = influence_propagation(at(t), env, "gadget")
        else:
            e = targeted_stimulus(at(t), env, [a.name for a in pop.agents[::2]], "Survey", choices=["accept", "ignore", "protest"])
        sim.schedule(e)
    return Scenario(sim, {"env": env, "rec": rec, "population": {"size": pop.size}}, "behavior", True, len(arr), extras={"population": pop})


@scenario("behavior.population_uniform", "behavior")
def population_uniform(seed, params):
    """Population.uniform (small-world graph) inside an Environment."""
    return _population(seed, params, "uniform")


@scenario("behavior.population_segments", "behavior")
def population_segments(seed, params):
    """Population.from_segments (random graph), per-segment models and initial states."""
    return _population(seed, params, "segments_random")


@scenario("behavior.population_segments_complete", "behavior")
def population_segments_complete(seed, params):
    """Population.from_segments over a complete graph."""
    return _population(seed, params, "segments_complete")


# ----------------------------------------------------------------------
# degenerate configurations


@scenario("behavior.degenerate_agents_and_empty_environment", "behavior")
def degenerate_agents_and_empty_environment(seed, params):
    """An Environment without agents (every stimulus factory fans out to nobody), one with a
    single agent and an empty graph; agents without a decision model, without handlers, with
    no / unknown choices, zero action_delay, heartbeat disabled; targeted stimuli at nobody."""
    p = P(params, seed)
    rec = Recorder("rec")
    empty = Environment("env.empty", seed=seed)
    solo_agent = Agent("solo", decision_model=UtilityModel(_utility), seed=seed, heartbeat_interval=_every(p, 0), action_delay=p.lat(1))
    _wire_actions(solo_agent, rec)
    solo = Environment("env.solo", agents=[solo_agent], influence_model=VoterModel(), seed=seed)
    no_model = Agent("no_model", decision_model=None, seed=seed, heartbeat_interval=0.0, action_delay=p.lat(0))
    no_handler = Agent("no_handler", decision_model=RuleBasedModel([], default_action=None), seed=seed, heartbeat_interval=_every(p, 2), action_delay=0.0)
    instant = Agent("instant", decision_model=UtilityModel(_utility), seed=seed, heartbeat_interval=0.0, action_delay=0.0)
    _wire_actions(instant, rec)
    loose = [no_model, no_handler, instant]
    arr = p.arrivals(6)
    sim = make_sim([empty, solo, rec, *loose], p.end())
    _first_heartbeats(sim, [solo_agent, *loose])
    for i, t in enumerate(arr):
        for env in (empty, solo):
            k = i % 5
            if k == 0:
                e = broadcast_stimulus(at(t), env, "Promo", choices=None)
            elif k == 1:
                e = targeted_stimulus(at(t), env, [], "Coupon", choices=["buy"])
            elif k == 2:
                e = price_change(at(t), env, "w", 1.0, 1.0)
            elif k == 3:
                e = influence_propagation(at(t), env, "")
            else:
                e = policy_announcement(at(t), env, "p", "", valence=0.0)
            sim.schedule(e)
        for a in loose:
            choices = [[], ["unknown_action"], ["buy", "wait"]][i % 3]
            sim.schedule(ev(t, "Stimulus", a, i=i, choices=choices, valence=0.0))
        sim.schedule(ev(t, "SocialMessage", no_model, topic="", opinion=0.0, credibility=0.0, knowledge=[]))
    return Scenario(sim, {"env.empty": empty, "env.solo": solo, "rec": rec, "solo": solo_agent, **{a.name: a for a in loose}}, "behavior", True, len(arr) * 6)

"""consensus family: RaftNode, PaxosNode, MultiPaxosNode, FlexiblePaxosNode, LeaderElection
(Bully / Ring / Randomized), MembershipProtocol (+PhiAccrualDetector), DistributedLock.

Nodes talk through a `Network` whose links have non-zero latency and jitter
(per builder also loss and a partition that heals).  Periodic protocol timers
(heartbeat, probe, election timeout) take their awkward value from `p.lat(i)`
brought into a window derived from `end`, so a run stays within a few thousand
timer ticks.  Client operations start at the arrival instants (bursts on one ns).

Three axes are varied systematically:
  counts       cluster sizes from `p.count(i, default, lo, hi)` (one- and two-member clusters
               where the constructor accepts them, up to 9 members)
  proportions  sibling parameters far out of proportion (heartbeat >> / << election timeout,
               retry back-off >> / << link latency, suspicion timeout << probe interval,
               lease << hold ...), one builder per direction
  degenerate   operations before a leader exists, empty commands, zero commands, identical
               proposals from every node on one nanosecond
"""

from __future__ import annotations

from happysimulator.components.consensus import (
    BullyStrategy,
    DistributedLock,
    FlexiblePaxosNode,
    KVStateMachine,
    LeaderElection,
    MembershipProtocol,
    MultiPaxosNode,
    PaxosNode,
    PhiAccrualDetector,
    RaftNode,
    RandomizedStrategy,
    RingStrategy,
)
from happysimulator.components.network import Network, NetworkLink
from happysimulator.core.sim_future import SimFuture

from hsverif.scenarios import Scenario, scenario
from hsverif.scenarios._kit import ConstantLatency, Event, ExponentialLatency, P, Proc, Recorder, ev, make_sim


def _period(v: float, floor: float) -> float:
    """Bring a hostile latency into [floor, 2*floor): powers of ten up, then halvings.

    Periodic timers keep an awkward (non-representable) value but a run has a bounded
    number of ticks whatever the drawn latency and `end` are.
    """
    while v < floor:
        v *= 10.0
    while v / 2.0 >= floor:
        v /= 2.0
    return v


def _below(v: float, ceil: float) -> float:
    """Divide by ten until <= ceil (never below one nanosecond)."""
    while v > ceil:
        v /= 10.0
    return max(v, 1e-9)


def _mesh(net, nodes, p, k0=0, loss=0.0, bw=20_000_003.0, cap_s=None, lat_fn=None):
    """Full mesh of links with latency + jitter (+ bandwidth, loss).  `cap_s` keeps the one-way
    latency below a protocol timer when the protocol needs it (scaled *down* by powers of ten);
    `lat_fn(k)` replaces the drawn latency altogether (proportion builders)."""
    k = k0
    for i, a in enumerate(nodes):
        for b in nodes[i + 1 :]:
            if lat_fn is not None:
                lat, jit = lat_fn(k), lat_fn(k + 1)
            else:
                lat, jit = p.lat(k), p.lat(k + 1)
            if cap_s is not None:
                lat, jit = _below(lat, cap_s), _below(jit, cap_s)
            net.add_bidirectional_link(
                a,
                b,
                NetworkLink(
                    name=f"l_{a.name}_{b.name}",
                    latency=ConstantLatency(lat),
                    jitter=ExponentialLatency(jit),
                    bandwidth_bps=bw,
                    packet_loss_rate=loss,
                ),
            )
            k += 1


def _kv_cmd(i: int) -> dict:
    key = f"k{i % 3}"
    r = i % 6
    if r == 3:
        return {"op": "get", "key": key}
    if r == 4:
        return {"op": "cas", "key": key, "expected": i - 3, "value": i}
    if r == 5:
        return {"op": "delete", "key": key}
    return {"op": "set", "key": key, "value": i}


def _empty_cmd(i: int):
    """Degenerate commands: None, empty dict, empty string, empty tuple."""
    return [None, {}, "", ()][i % 4]


class AnyStateMachine:
    """State machine (public `StateMachine` protocol) that accepts any command, including empty ones."""

    def __init__(self):
        self.applied: list = []

    def apply(self, command):
        self.applied.append(command)
        return len(self.applied)

    def snapshot(self):
        return list(self.applied)

    def restore(self, snapshot):
        self.applied = list(snapshot)


def _leader_of(nodes):
    for n in nodes:
        if n.is_leader:
            return n
    return None


# ----------------------------------------------------------------------
# Raft


def _raft_timers(p, end, prop):
    """(heartbeat, election_timeout_min, election_timeout_max, max cluster size)."""
    if prop == "hb_gt_et":  # heartbeat rarer than the election timeout: followers keep timing out
        et_min = _period(p.lat(1), end / 100.0)
        et_max = et_min + _period(p.lat(2), et_min * 0.25)
        return _period(p.lat(0), et_max * 4.0), et_min, et_max, 5
    if prop == "hb_lt_et":  # ~60 heartbeats per election timeout
        et_min = _period(p.lat(1), end / 8.0)
        et_max = et_min + _period(p.lat(2), et_min * 0.25)
        return _period(p.lat(0), end / 500.0), et_min, et_max, 5
    if prop == "et_equal":  # no randomisation at all: every follower times out on the same instant
        et = _period(p.lat(1), end / 80.0)
        return _period(p.lat(0), et / 3.0), et, et, 5
    hb = _period(p.lat(0), end / 250.0)
    et_min = _period(p.lat(1), hb * 2.5)
    return hb, et_min, et_min + _period(p.lat(2), hb * 0.5), 9


def _raft(n_default, default_loss, with_partition, cap_latency=True, prop=None, ops="normal"):
    """Cluster size = count(0) (1..9, a partition needs 3).  ops: 'normal' (KV commands to the leader),
    'degenerate' (commands before any node was started / with no leader, empty commands), 'idle' (no
    command at all: the arrivals start the nodes)."""

    def build(seed, params):
        p = P(params, seed)
        end = p.end()
        net = Network(name="net")
        hb, et_min, et_max, hi = _raft_timers(p, end, prop)
        n = p.count(0, n_default, lo=3 if with_partition else 1, hi=hi)
        nodes = [
            RaftNode(
                f"raft{i}",
                network=net,
                state_machine=KVStateMachine() if ops == "normal" else AnyStateMachine(),
                election_timeout_min=et_min,
                election_timeout_max=et_max,
                heartbeat_interval=hb,
            )
            for i in range(n)
        ]
        for nd in nodes:
            nd.set_peers(nodes)
        _mesh(net, nodes, p, k0=3, loss=float(p.x("loss", default_loss)), cap_s=min(hb, et_min) * 0.5 if cap_latency else None)
        arr = p.arrivals(12)
        poll = min(hb, et_min)
        max_polls = int(end / poll) + 2

        def client(proc, event):
            i = event.context["metadata"]["worker"]
            if ops == "degenerate":
                # no waiting for a leader: whoever is asked takes the command (queued on a follower)
                tgt = nodes[i % n]
                fut = tgt.submit(_empty_cmd(i) if i % 3 else _kv_cmd(i))
                proc.log.append((i, tgt.name, tgt.is_leader))
                if tgt.is_leader:
                    yield fut
                proc.done += 1
                return
            if i % 5 == 4:
                # command handed to a follower: it is queued on a future nobody resolves
                tgt = next((nd for nd in nodes if not nd.is_leader), nodes[0])
                tgt.submit(_kv_cmd(i))
                proc.done += 1
                return
            leader = None
            for _ in range(max_polls):  # harness poll with a positive step
                leader = _leader_of(nodes)
                if leader is not None:
                    break
                yield poll
            if leader is None:
                return
            fut = leader.submit(_kv_cmd(i))
            r = yield fut  # parked until the entry is committed and applied
            proc.log.append((i, r[0]))
            proc.done += 1

        clients = [Proc(f"cli{i}", client) for i in range(p.count(1, 3, lo=1, hi=5))]

        def start_node(proc, event):
            proc.done += 1
            return nodes[event.context["metadata"]["worker"] % n].start()

        starter = Proc("starter", start_node)
        ents = [net, *nodes, *clients, starter]
        comps = {nd.name: nd for nd in nodes}
        comps["net"] = net
        if with_partition:

            def chaos(proc, event):
                for _ in range(max_polls):
                    leader = _leader_of(nodes)
                    if leader is not None:
                        break
                    yield poll
                else:
                    return
                yield hb * 2.25
                part = net.partition([leader], [nd for nd in nodes if nd is not leader])
                proc.log.append(("cut", leader.name, proc.now.nanoseconds))
                # commands submitted to the isolated leader can never commit; new leader elected meanwhile
                leader.submit(_kv_cmd(2))
                yield et_max * 3.0
                part.heal()
                proc.log.append(("heal", proc.now.nanoseconds))
                proc.done += 1
                return [ev(proc.now.nanoseconds, "start", clients[j % len(clients)], worker=j) for j in range(3)]

            ch = Proc("chaos", chaos)
            ents.append(ch)
            comps["chaos"] = ch
        sim = make_sim(ents, end)
        t0 = min(arr)
        if ops == "idle":
            # zero commands: every arrival (re)starts a node - bursts of start() on one nanosecond
            for i, t in enumerate(arr):
                sim.schedule(ev(t, "start", starter, worker=i))
            for i in range(len(arr), n):
                sim.schedule(ev(t0, "start", starter, worker=i))
            return Scenario(sim, comps, "consensus", True, max(len(arr), n))
        if ops == "degenerate":
            # the commands of the first burst arrive before any node was started
            late = t0 + int(et_min * 0.5 * 1e9) + 1
            for i in range(n):
                sim.schedule(ev(late, "start", starter, worker=i))
        else:
            for nd in nodes[:-1]:
                sim.schedule(nd.start())
            sim.schedule(ev(t0, "start", starter, worker=n - 1))  # the last node joins at the first arrival instant
        for i, t in enumerate(arr):
            sim.schedule(ev(t, "start", clients[i % len(clients)], worker=i))
        if ops == "degenerate":
            # and a second wave once a leader may exist
            t2 = max(arr) + int(et_max * 4 * 1e9)
            for j in range(4):
                sim.schedule(ev(t2, "start", clients[j % len(clients)], worker=100 + j))
        if with_partition:
            sim.schedule(ev(t0, "start", ch))
        return Scenario(sim, comps, "consensus", True, len(arr) + n + (4 if with_partition or ops == "degenerate" else 0))

    return build


scenario("consensus.raft_three", "consensus")(_raft(3, 0.0, False))
scenario("consensus.raft_three_lossy", "consensus")(_raft(3, 0.05, False, cap_latency=False))
scenario("consensus.raft_five_partition", "consensus")(_raft(5, 0.01, True))
# wide
scenario("consensus.raft_nine", "consensus")(_raft(9, 0.0, False))
scenario("consensus.raft_heartbeat_slower_than_election", "consensus")(_raft(3, 0.0, False, prop="hb_gt_et"))
scenario("consensus.raft_heartbeat_much_faster_than_election", "consensus")(_raft(3, 0.02, False, prop="hb_lt_et"))
scenario("consensus.raft_election_timeout_min_equals_max", "consensus")(_raft(3, 0.0, False, prop="et_equal"))
scenario("consensus.raft_degenerate_commands", "consensus")(_raft(3, 0.0, False, ops="degenerate"))
scenario("consensus.raft_no_commands", "consensus")(_raft(2, 0.0, False, ops="idle"))


# ----------------------------------------------------------------------
# single-decree Paxos


def _paxos(n_default, n_prop_default, default_loss, with_partition, prop=None, identical=False):
    """Nodes = count(0) (1..9, a partition needs 2), proposers = min(nodes, count(1)).
    prop 'retry_fast': retry back-off << link latency; 'retry_slow': back-off >> link latency.
    identical: EVERY node proposes the same value on the first arrival nanosecond."""

    def build(seed, params):
        p = P(params, seed)
        end = p.end()
        net = Network(name="net")
        n = p.count(0, n_default, lo=2 if with_partition else 1, hi=5 if prop == "retry_fast" else 9)
        n_proposers = n if identical else max(1, min(n, p.count(1, n_prop_default)))
        lat_fn = None
        cap_s = None
        if prop == "retry_fast":
            # one round trip = end/10; a nacked proposer retries (almost) at once, so the number of
            # rounds is bounded by the round trips that fit before `end`
            lat_fn = lambda k: _period(p.lat(k), end / 20.0)
            retry = [_below(p.lat(i), end / 20.0 / 1000.0) for i in range(n)]
        elif prop == "retry_slow":
            lat_fn = lambda k: _below(p.lat(k), end / 4.0 / 2000.0)
            retry = [_period(p.lat(i), end / 4.0) for i in range(n)]
        elif p.x("raw_retry", False):
            retry = [p.lat(i) for i in range(n)]
        else:
            # one-way latency (and mean jitter) at most end/200, back-off above ~3 round trips
            cap_s = end / 200.0
            retry = [_period(p.lat(i), 12.0 * cap_s) for i in range(n)]
        nodes = [PaxosNode(f"px{i}", network=net, retry_delay=retry[i]) for i in range(n)]
        for nd in nodes:
            nd.set_peers(nodes)
        _mesh(net, nodes, p, k0=n, loss=float(p.x("loss", default_loss)), cap_s=cap_s, lat_fn=lat_fn)
        arr = p.arrivals(8)

        def proposer(proc, event):
            i = event.context["metadata"]["worker"]
            node = nodes[i % n_proposers]
            fut = node.propose("same" if (identical and i < 1000) else f"v{i}")
            evs = node.start_phase1()
            yield 0.0, evs
            v = yield fut
            proc.log.append((i, node.name, v))
            proc.done += 1

        procs = [Proc(f"prop{i}", proposer) for i in range(n_proposers)]
        ents = [net, *nodes, *procs]
        comps = {nd.name: nd for nd in nodes}
        if with_partition:
            one_way = p.lat(n) if cap_s is None else _below(p.lat(n), cap_s)

            def cut(proc, event):
                yield one_way * 0.5  # prepares are on the wire
                part = net.partition(nodes[: max(1, n // 2)], nodes[max(1, n // 2) :])
                yield one_way * 4 + p.hold()
                part.heal()
                proc.done += 1
                # a fresh proposal on each side right after the heal
                return [ev(proc.now.nanoseconds, "start", procs[j % n_proposers], worker=1000 + j) for j in range(2)]

            pp = Proc("partitioner", cut)
            ents.append(pp)
            comps["partitioner"] = pp
        sim = make_sim(ents, end)
        extra = 0
        if identical:
            for j in range(n):  # every node, one nanosecond, one value
                sim.schedule(ev(min(arr), "start", procs[j], worker=j))
            extra = n
            # the arrivals propose again (after a decision `propose` answers at once)
        for i, t in enumerate(arr):
            sim.schedule(ev(t, "start", procs[i % n_proposers], worker=n + i if identical else i))
        if with_partition:
            sim.schedule(ev(min(arr), "start", pp))
        return Scenario(sim, comps, "consensus", True, len(arr) + extra + (3 if with_partition else 0))

    return build


scenario("consensus.paxos_dueling_proposers", "consensus")(_paxos(3, 3, 0.0, False))
scenario("consensus.paxos_five_lossy", "consensus")(_paxos(5, 3, 0.1, False))
scenario("consensus.paxos_partition_heal", "consensus")(_paxos(5, 4, 0.02, True))
# wide
scenario("consensus.paxos_nine_nodes", "consensus")(_paxos(9, 5, 0.0, False))
scenario("consensus.paxos_all_propose_same_value", "consensus")(_paxos(5, 5, 0.0, False, identical=True))
scenario("consensus.paxos_retry_faster_than_links", "consensus")(_paxos(3, 3, 0.0, False, prop="retry_fast"))
scenario("consensus.paxos_retry_slower_than_links", "consensus")(_paxos(3, 3, 0.05, False, prop="retry_slow"))


# ----------------------------------------------------------------------
# Multi-Paxos / Flexible Paxos (log based)


def _flex_quorums(n: int, v: int) -> tuple[int, int]:
    """(Q1, Q2) with Q1 + Q2 > n, both within 1..n; three shapes selected by v."""
    shapes = [(max(1, n - 1), min(n, 2)), (min(n, 2), max(1, n - 1)), (n, 1)]
    q1, q2 = shapes[v % 3]
    if q1 + q2 <= n:
        q1 = n - q2 + 1
    return q1, q2


def _log_paxos(kind, n_default, default_loss, prop=None, ops="normal"):
    """Nodes = count(0) (1..9).  prop 'hb_fast' / 'hb_slow': heartbeat interval << / >> the leader
    lease timeout (and the link latency).  ops: 'normal', 'degenerate' (submit before any start(),
    empty commands), 'idle' (zero commands: candidates only)."""

    def build(seed, params):
        p = P(params, seed)
        end = p.end()
        net = Network(name="net")
        n = p.count(0, n_default, lo=1, hi=5 if prop == "hb_fast" else 9)
        if prop == "hb_fast":
            hb = _period(p.lat(0), end / 500.0)
            lease = _period(p.lat(1), hb * 60.0)
        elif prop == "hb_slow":
            hb = _period(p.lat(0), end / 3.0)
            lease = _below(p.lat(1), hb / 500.0)
        else:
            hb = _period(p.lat(0), end / 200.0)
            lease = _period(p.lat(1), hb * 3)
        mk_sm = (lambda: KVStateMachine()) if ops == "normal" else (lambda: AnyStateMachine())
        if kind == "multi":
            nodes = [
                MultiPaxosNode(f"mp{i}", network=net, state_machine=mk_sm(), leader_lease_timeout=lease, heartbeat_interval=hb)
                for i in range(n)
            ]
        else:
            q1, q2 = _flex_quorums(n, int(p.x("v", seed)))
            nodes = [
                FlexiblePaxosNode(f"fp{i}", network=net, state_machine=mk_sm(), phase1_quorum=q1, phase2_quorum=q2, heartbeat_interval=hb)
                for i in range(n)
            ]
        for nd in nodes:
            nd.set_peers(nodes)
        _mesh(net, nodes, p, k0=2, loss=float(p.x("loss", default_loss)), cap_s=end / 50.0 if prop else None)
        arr = p.arrivals(10)
        t0 = min(arr)

        def candidate(proc, event):
            node = nodes[event.context["metadata"]["worker"] % n]
            proc.done += 1
            return node.start()  # phase 1; replicates every uncommitted slot once it wins

        cand = Proc("candidate", candidate)

        def client(proc, event):
            i = event.context["metadata"]["worker"]
            node = _leader_of(nodes) if i % 3 else nodes[i % n]
            node = node or nodes[i % n]
            cmd = _kv_cmd(i) if ops == "normal" or i % 3 == 0 else _empty_cmd(i)
            fut = node.submit(cmd)  # queued when `node` is not (yet) the leader
            out = []
            leader = _leader_of(nodes)
            if kind == "multi" and leader is not None and i % 2:
                # event-driven path: forward a command to the leader (an empty one in degenerate mode)
                fwd = _kv_cmd(i + 50) if ops == "normal" else _empty_cmd(i + 1)
                out.append(Event(time=proc.now, event_type="MultiPaxosForward", target=leader, context={"metadata": {"command": fwd}}))
            if out:
                yield 0.0, out
            r = yield fut
            proc.log.append((i, node.name, r[0]))
            proc.done += 1

        clients = [Proc(f"cli{i}", client) for i in range(p.count(1, 3, lo=1, hi=5))]
        sim = make_sim([net, *nodes, *clients, cand], end)
        step = int(min(hb, end / 40.0) * 2.5 * 1e9)
        # degenerate: the first commands arrive before anybody ran phase 1
        t_first = t0 if ops != "degenerate" else max(arr) + step // 2
        # two candidates start phase 1 on the same nanosecond; a third (and the first again) later
        sim.schedule(ev(t_first, "start", cand, worker=0))
        sim.schedule(ev(t_first, "start", cand, worker=1))
        n_ops = 4
        if ops != "idle":
            for i, t in enumerate(arr):
                sim.schedule(ev(t, "start", clients[i % len(clients)], worker=i))
            n_ops += len(arr) + 3
        sim.schedule(ev(max(arr) + step, "start", cand, worker=2))
        sim.schedule(ev(max(arr) + 2 * step, "start", cand, worker=0))
        if ops != "idle":
            for j in range(3):  # commands handed to the established leader, then a new phase 1 replicates them
                sim.schedule(ev(max(arr) + 2 * step + step // 5, "start", clients[j % len(clients)], worker=200 + 3 * j + 1))
        sim.schedule(ev(max(arr) + 3 * step, "start", cand, worker=0))
        comps = {nd.name: nd for nd in nodes}
        comps["net"] = net
        return Scenario(sim, comps, "consensus", True, n_ops)

    return build


scenario("consensus.multi_paxos_three", "consensus")(_log_paxos("multi", 3, 0.0))
scenario("consensus.multi_paxos_five_lossy", "consensus")(_log_paxos("multi", 5, 0.05))
scenario("consensus.flexible_paxos_quorums", "consensus")(_log_paxos("flex", 5, 0.0))
scenario("consensus.flexible_paxos_lossy", "consensus")(_log_paxos("flex", 4, 0.05))
# wide
scenario("consensus.multi_paxos_nine", "consensus")(_log_paxos("multi", 9, 0.0))
scenario("consensus.multi_paxos_heartbeat_fast", "consensus")(_log_paxos("multi", 3, 0.0, prop="hb_fast"))
scenario("consensus.multi_paxos_heartbeat_slow", "consensus")(_log_paxos("multi", 3, 0.02, prop="hb_slow"))
scenario("consensus.multi_paxos_degenerate_commands", "consensus")(_log_paxos("multi", 3, 0.0, ops="degenerate"))
scenario("consensus.multi_paxos_no_commands", "consensus")(_log_paxos("multi", 2, 0.0, ops="idle"))
scenario("consensus.flexible_paxos_nine", "consensus")(_log_paxos("flex", 9, 0.0))
scenario("consensus.flexible_paxos_heartbeat_fast", "consensus")(_log_paxos("flex", 3, 0.0, prop="hb_fast"))
scenario("consensus.flexible_paxos_heartbeat_slow", "consensus")(_log_paxos("flex", 2, 0.0, prop="hb_slow"))
scenario("consensus.flexible_paxos_degenerate_commands", "consensus")(_log_paxos("flex", 3, 0.0, ops="degenerate"))
scenario("consensus.flexible_paxos_no_commands", "consensus")(_log_paxos("flex", 1, 0.0, ops="idle"))


# ----------------------------------------------------------------------
# LeaderElection strategies


def _election(strategy, n_default, default_loss, cap_latency=True, prop=None):
    """Members = count(0) (1..9).  prop 'hb_gt_et': leader heartbeat interval >> election timeout;
    'hb_lt_et': heartbeat << election timeout."""

    def build(seed, params):
        p = P(params, seed)
        end = p.end()
        net = Network(name="net")
        if prop == "hb_gt_et":
            et = _period(p.lat(1), end / 120.0)
            hb = _period(p.lat(0), et * 5.0)
            hi = 5
        elif prop == "hb_lt_et":
            et = _period(p.lat(1), end / 8.0)
            hb = _period(p.lat(0), end / 500.0)
            hi = 5
        else:
            hb = _period(p.lat(0), end / 200.0)
            et = _period(p.lat(1), hb * 2.5)
            hi = 9
        n = p.count(0, n_default, lo=1, hi=hi)
        mk = {
            "bully": lambda: BullyStrategy(),
            "ring": lambda: RingStrategy(),
            "random": lambda: RandomizedStrategy(ballot_range=1000),
        }[strategy]
        nodes = [LeaderElection(f"el{i}", network=net, strategy=mk(), election_timeout=et, heartbeat_interval=hb) for i in range(n)]
        for nd in nodes:
            for o in nodes:
                if o is not nd or strategy == "ring":
                    nd.add_member(o)
        _mesh(net, nodes, p, k0=2, loss=float(p.x("loss", default_loss)), cap_s=min(hb, et) * 0.5 if cap_latency else None)
        arr = p.arrivals(8)
        state = {"part": None}

        def op(proc, event):
            i = event.context["metadata"]["worker"]
            proc.done += 1
            if i < n:
                return nodes[i].start()  # members join at the arrival instants (burst)
            if n < 2:
                return nodes[0].start()  # nobody to be cut off from: a restart instead
            if i % 2 == 0 and state["part"] is None:
                leader = next((nd for nd in nodes if nd.is_leader), nodes[-1])
                state["part"] = net.partition([leader], [nd for nd in nodes if nd is not leader])
                proc.log.append(("cut", leader.name, proc.now.nanoseconds))
            elif state["part"] is not None:
                state["part"].heal()
                state["part"] = None
                proc.log.append(("heal", proc.now.nanoseconds))
            return None

        driver = Proc("driver", op)
        sim = make_sim([net, *nodes, driver], end)
        t0 = min(arr)
        k = 0
        for i, t in enumerate(arr):
            if i < n:
                sim.schedule(ev(t, "start", driver, worker=i))
            elif k < 6:
                # fault / repair operations are spread over the run (a few election timeouts apart)
                k += 1
                sim.schedule(ev(t + int(k * et * 2.75 * 1e9), "start", driver, worker=i))
        for i in range(len(arr), n):  # fewer arrivals than nodes: the rest joins with the first burst
            sim.schedule(ev(t0, "start", driver, worker=i))
        comps = {nd.name: nd for nd in nodes}
        comps["net"] = net
        return Scenario(sim, comps, "consensus", True, max(len(arr), n))

    return build


scenario("consensus.election_bully", "consensus")(_election("bully", 4, 0.0))
scenario("consensus.election_bully_lossy", "consensus")(_election("bully", 3, 0.1, cap_latency=False))
scenario("consensus.election_ring", "consensus")(_election("ring", 4, 0.0))
scenario("consensus.election_randomized", "consensus")(_election("random", 3, 0.02))
# wide
scenario("consensus.election_ring_nine", "consensus")(_election("ring", 9, 0.0))
scenario("consensus.election_bully_heartbeat_slower_than_timeout", "consensus")(_election("bully", 3, 0.0, prop="hb_gt_et"))
scenario("consensus.election_ring_heartbeat_slower_than_timeout", "consensus")(_election("ring", 3, 0.0, prop="hb_gt_et"))
scenario("consensus.election_bully_heartbeat_much_faster", "consensus")(_election("bully", 3, 0.02, prop="hb_lt_et"))
scenario("consensus.election_randomized_heartbeat_much_faster", "consensus")(_election("random", 2, 0.0, prop="hb_lt_et"))


# ----------------------------------------------------------------------
# SWIM membership + phi accrual detector


def _membership(n_default, prop=None):
    """Protocol nodes = count(0) (1..9) + one member that never answers + (n >= 2) one node cut off
    and re-joined.  prop 'susp_short': suspicion_timeout << probe_interval (shorter than the
    indirect-probe delay); 'susp_long': suspicion_timeout >> probe_interval; 'indirect_none' /
    'indirect_many': indirect_probe_count 0 / larger than the cluster."""

    def build(seed, params):
        p = P(params, seed)
        end = p.end()
        net = Network(name="net")
        probe = _period(p.lat(0), end / 120.0)
        n = p.count(0, n_default, lo=1, hi=9)
        if prop == "susp_short":
            susp = _below(p.lat(1), probe / 100.0)
        elif prop == "susp_long":
            susp = _period(p.lat(1), probe * 30.0)
        else:
            susp = _period(p.lat(1), probe * 1.5)
        indirect = {"indirect_none": 0, "indirect_many": n + 5}.get(prop, int(p.x("indirect", 2)))
        nodes = [
            MembershipProtocol(
                f"m{i}",
                network=net,
                probe_interval=probe,
                suspicion_timeout=susp,
                indirect_probe_count=indirect,
                phi_threshold=float(p.x("phi", 4.0)),
            )
            for i in range(n)
        ]
        silent = Recorder("silent")  # receives pings, never acks
        for nd in nodes:
            for o in nodes:
                nd.add_member(o)  # add_member ignores self
            nd.add_member(silent)
        _mesh(net, [*nodes, silent], p, k0=2, loss=float(p.x("loss", 0.02)), cap_s=probe * 0.2)
        arr = p.arrivals(6)
        detector = PhiAccrualDetector(threshold=float(p.x("phi", 4.0)), initial_interval=probe)

        def op(proc, event):
            i = event.context["metadata"]["worker"]
            proc.done += 1
            if i < n:
                return nodes[i].start()
            # later operations: sample a free-standing detector the way a monitor would
            now_s = proc.now.to_seconds()
            detector.heartbeat(now_s)
            proc.log.append((i, round(detector.phi(now_s + probe), 6), detector.is_available(now_s + 10 * probe)))
            return None

        driver = Proc("driver", op)

        def cut(proc, event):
            yield probe * 6.5
            if n < 2:
                return
            part = net.partition([nodes[-1]], nodes[:-1])
            proc.log.append(("cut", proc.now.nanoseconds))
            yield susp * 2 + probe * 8
            part.heal()
            proc.log.append(("heal", proc.now.nanoseconds, [nd.stats.dead_count for nd in nodes]))
            proc.done += 1

        pp = Proc("partitioner", cut)
        sim = make_sim([net, *nodes, silent, driver, pp], end)
        for i, t in enumerate(arr):
            sim.schedule(ev(t if i < n else t + int(i * probe * 1e9), "start", driver, worker=i))
        for i in range(len(arr), n):
            sim.schedule(ev(min(arr), "start", driver, worker=i))
        sim.schedule(ev(min(arr), "start", pp))
        comps = {nd.name: nd for nd in nodes}
        comps.update({"net": net, "silent": silent, "partitioner": pp})
        return Scenario(sim, comps, "consensus", True, max(len(arr), n) + 1)

    return build


scenario("consensus.membership_silent_member", "consensus")(_membership(4))
# wide
scenario("consensus.membership_nine", "consensus")(_membership(9))
scenario("consensus.membership_suspicion_shorter_than_probe", "consensus")(_membership(3, prop="susp_short"))
scenario("consensus.membership_suspicion_much_longer_than_probe", "consensus")(_membership(3, prop="susp_long"))
scenario("consensus.membership_no_indirect_probes", "consensus")(_membership(3, prop="indirect_none"))
scenario("consensus.membership_more_indirect_probes_than_members", "consensus")(_membership(2, prop="indirect_many"))


@scenario("consensus.membership_lossy_pair", "consensus")
def membership_lossy_pair(seed, params):
    """Two nodes over a very lossy link: acks go missing, indirect probes have no delegate."""
    p = P(params, seed)
    end = p.end()
    net = Network(name="net")
    probe = _period(p.lat(2), end / 150.0)
    nodes = [
        MembershipProtocol(f"m{i}", network=net, probe_interval=probe, suspicion_timeout=_period(p.lat(3), probe), indirect_probe_count=3, phi_threshold=1.0)
        for i in range(2)
    ]
    nodes[0].add_member(nodes[1])
    nodes[1].add_member(nodes[0])
    _mesh(net, nodes, p, k0=0, loss=float(p.x("loss", 0.4)), cap_s=probe * 0.2)
    arr = p.arrivals(2)
    driver = Proc("driver", lambda proc, event: nodes[event.context["metadata"]["worker"] % 2].start())
    sim = make_sim([net, *nodes, driver], end)
    for i, t in enumerate(arr[:2]):
        sim.schedule(ev(t, "start", driver, worker=i))
    if len(arr) < 2:
        sim.schedule(ev(arr[0], "start", driver, worker=1))
    return Scenario(sim, {nd.name: nd for nd in nodes}, "consensus", True, 2)


# ----------------------------------------------------------------------
# DistributedLock


def _take_expiry(lock):
    """The repository's idiom (tests, examples): the lease-expiry event of the latest grant is left
    in `lock._pending_expiry` for the caller to schedule."""
    e = getattr(lock, "_pending_expiry", None)
    if e is not None:
        lock._pending_expiry = None
        return [e]
    return []


def _lock_generator_api(prop=None):
    """prop None: lease = 1.5 hold.  'lease_short': lease << hold (every holder out-stays its lease
    many times over; the waiters are served by expiries only).  'lease_long': lease >> hold.
    max_waiters from x.max_waiters or (x.v % 3) in the proportion builders (0 = unbounded, 1, 2)."""

    def build(seed, params):
        p = P(params, seed)
        n_locks = p.cap(2) if prop is None else p.count(0, 1, lo=1, hi=3)
        hold = p.hold()
        if prop == "lease_short":
            lease = _below(p.lat(0), hold / 100.0)
            max_waiters = int(p.x("max_waiters", int(p.x("v", seed)) % 3))
        elif prop == "lease_long":
            lease = _period(p.lat(0), hold * 100.0)
            max_waiters = int(p.x("max_waiters", int(p.x("v", seed)) % 3))
        else:
            lease = float(p.x("lease", hold * 1.5))
            max_waiters = int(p.x("max_waiters", 0))
        lock = DistributedLock("locks", lease_duration=lease, max_waiters=max_waiters)
        arr = p.arrivals(8)

        def body(proc, event):
            i = event.context["metadata"]["worker"]
            name = f"L{i % n_locks}"
            me = f"{proc.name}#{i}"
            if i % 4 == 0:
                g = lock.try_acquire(name, me)  # non-blocking: wins only when the lock is free
                if g is None:
                    proc.done += 1
                    return
                lock.try_acquire(name, me)  # re-entrant: same grant
                fut = None
            else:
                fut = lock.acquire(name, me)
                g = None
            pend = _take_expiry(lock)
            if pend:
                yield 0.0, pend
            if fut is not None:
                g = yield fut  # parked while another client holds the lock
                if g is None:  # rejected: too many waiters
                    proc.done += 1
                    return
                pend = _take_expiry(lock)  # granted by a release / an expiry: schedule its lease expiry now
                if pend:
                    yield 0.0, pend
            # re-entrant acquire by the holder returns the same grant
            lock.acquire(name, me)
            yield hold * (2.0 if i % 2 else 0.5)  # odd workers out-stay a lease of 1.5 hold
            ok = lock.release(name, g.fencing_token)
            pend = _take_expiry(lock)  # the release granted the next waiter
            proc.log.append((i, name, g.fencing_token, ok))
            proc.done += 1
            return pend or None

        procs = [Proc(f"c{i}", body) for i in range(min(len(arr), 6))]
        # the lock table is empty until the first acquire: release / expiry of a lock nobody holds
        strays = [
            ev(min(arr), "LockReleaseRequest", lock, lock_name="L0", fencing_token=12345),
            ev(min(arr), "LockLeaseExpiry", lock, lock_name="never_taken", fencing_token=1),
            ev(min(arr), "LockLeaseExpiry", lock),
        ]
        sim = make_sim([lock, *procs], p.end())
        for e in strays:
            sim.schedule(e)
        for i, t in enumerate(arr):
            sim.schedule(ev(t, "start", procs[i % len(procs)], worker=i))
        # late comers: the locks have been idle (released / expired) for a while when they ask again
        quiet = max(arr) + int((hold * 2.0 * (len(arr) + 1) + lease * 2.0) * 1e9)
        idle = int(max(lease, hold) * 3.0 * 1e9) + 1
        for j in range(3):
            sim.schedule(ev(quiet + j * idle, "start", procs[j % len(procs)], worker=1 + 4 * j))
        return Scenario(sim, {"lock": lock}, "consensus", True, len(arr) + len(strays) + 3)

    return build


scenario("consensus.lock_contention_generator_api", "consensus")(_lock_generator_api())
# wide
scenario("consensus.lock_lease_much_shorter_than_hold", "consensus")(_lock_generator_api("lease_short"))
scenario("consensus.lock_lease_much_longer_than_hold", "consensus")(_lock_generator_api("lease_long"))


def _lock_event_api(max_waiters_default, lease_div=1.0):
    def build(seed, params):
        p = P(params, seed)
        lease = max(1e-9, p.hold() / lease_div)
        lock = DistributedLock("locks", lease_duration=lease, max_waiters=int(p.x("max_waiters", max_waiters_default)))
        arr = p.arrivals(8)

        def body(proc, event):
            i = event.context["metadata"]["worker"]
            me = f"{proc.name}#{i}"
            reply = SimFuture()
            req = Event(
                time=proc.now,
                event_type="LockAcquireRequest",
                target=lock,
                context={"metadata": {"lock_name": "L", "requester": me}, "reply_future": reply},
            )
            yield 0.0, [req]
            g = yield reply
            if g is None:
                proc.done += 1
                return
            pend = _take_expiry(lock)
            if pend:
                yield 0.0, pend
            if i % 3 == 0:
                # crashes while holding: never releases, the lease expiry frees the lock
                proc.done += 1
                return
            yield p.hold() * (0.5 if i % 3 == 1 else 1.75)
            proc.done += 1
            # a late release carries a stale token and is ignored by the lock
            return [Event(time=proc.now, event_type="LockReleaseRequest", target=lock, context={"metadata": {"lock_name": "L", "fencing_token": g.fencing_token}})]

        procs = [Proc(f"c{i}", body) for i in range(min(len(arr), 5))]
        sim = make_sim([lock, *procs], p.end())
        for i, t in enumerate(arr):
            sim.schedule(ev(t, "start", procs[i % len(procs)], worker=i))
        # requests without the mandatory fields are ignored
        sim.schedule(ev(min(arr), "LockAcquireRequest", lock))
        sim.schedule(ev(min(arr), "LockReleaseRequest", lock))
        # late comers: the lock has been idle (expired) for a while when they ask again
        quiet = max(arr) + int((p.hold() * 1.75 + lease) * (len(arr) + 1) * 1e9)
        idle = int(max(lease, p.hold()) * 3.0 * 1e9) + 1
        for j in range(3):
            sim.schedule(ev(quiet + j * idle, "start", procs[j % len(procs)], worker=1 + 3 * j))
        return Scenario(sim, {"lock": lock}, "consensus", True, len(arr) + 5)

    return build


scenario("consensus.lock_event_api_expiry", "consensus")(_lock_event_api(3))
# wide
scenario("consensus.lock_event_api_one_waiter", "consensus")(_lock_event_api(1))
scenario("consensus.lock_event_api_unbounded_waiters_short_lease", "consensus")(_lock_event_api(0, lease_div=250.0))

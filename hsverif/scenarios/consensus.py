"""consensus family: RaftNode, PaxosNode, MultiPaxosNode, FlexiblePaxosNode, LeaderElection
(Bully / Ring / Randomized), MembershipProtocol (+PhiAccrualDetector), DistributedLock.

Nodes talk through a `Network` whose links have non-zero latency and jitter
(per builder also loss and a partition that heals).  Periodic protocol timers
(heartbeat, probe, election timeout) take their awkward value from `p.lat(i)`
scaled up by powers of ten so that a run stays within a few thousand timer
ticks.  Client operations start at the arrival instants (bursts on one ns).
"""

from __future__ import annotations

from happysimulator.components.consensus import (
    BullyStrategy,
    DistributedLock,
    FlexiblePaxosNode,
    KVStateMachine,
    LeaderElection,
    MembershipProtocol,
    MultiPaxosNode,
    PaxosNode,
    PhiAccrualDetector,
    RaftNode,
    RandomizedStrategy,
    RingStrategy,
)
from happysimulator.components.network import Network, NetworkLink
from happysimulator.core.sim_future import SimFuture

from hsverif.scenarios import Scenario, scenario
from hsverif.scenarios._kit import ConstantLatency, Event, ExponentialLatency, P, Proc, Recorder, ev, make_sim


def _period(v: float, floor: float) -> float:
    """Bring a hostile latency into [floor, 2*floor): powers of ten up, then halvings.

    Periodic timers keep an awkward (non-representable) value but a run has a bounded
    number of ticks whatever the drawn latency and `end` are.
    """
    while v < floor:
        v *= 10.0
    while v / 2.0 >= floor:
        v /= 2.0
    return v


def _mesh(net, nodes, p, k0=0, loss=0.0, bw=20_000_003.0, cap_s=None):
    """Full mesh of links with latency + jitter (+ bandwidth, loss).  `cap_s` keeps the one-way
    latency below a protocol timer when the protocol needs it (scaled *down* by powers of ten)."""
    k = k0
    for i, a in enumerate(nodes):
        for b in nodes[i + 1 :]:
            lat, jit = p.lat(k), p.lat(k + 1)
            if cap_s is not None:
                while lat > cap_s:
                    lat /= 10.0
                while jit > cap_s:
                    jit /= 10.0
            net.add_bidirectional_link(
                a,
                b,
                NetworkLink(
                    name=f"l_{a.name}_{b.name}",
                    latency=ConstantLatency(lat),
                    jitter=ExponentialLatency(jit),
                    bandwidth_bps=bw,
                    packet_loss_rate=loss,
                ),
            )
            k += 1


def _kv_cmd(i: int) -> dict:
    key = f"k{i % 3}"
    r = i % 6
    if r == 3:
        return {"op": "get", "key": key}
    if r == 4:
        return {"op": "cas", "key": key, "expected": i - 3, "value": i}
    if r == 5:
        return {"op": "delete", "key": key}
    return {"op": "set", "key": key, "value": i}


def _leader_of(nodes):
    for n in nodes:
        if n.is_leader:
            return n
    return None


# ----------------------------------------------------------------------
# Raft


def _raft(n: int, default_loss: float, with_partition: bool, cap_latency: bool = True):
    def build(seed, params):
        p = P(params, seed)
        end = p.end()
        net = Network(name="net")
        hb = _period(p.lat(0), end / 250.0)
        et_min = _period(p.lat(1), hb * 2.5)
        et_max = et_min + _period(p.lat(2), hb * 0.5)
        nodes = [
            RaftNode(
                f"raft{i}",
                network=net,
                state_machine=KVStateMachine(),
                election_timeout_min=et_min,
                election_timeout_max=et_max,
                heartbeat_interval=hb,
            )
            for i in range(n)
        ]
        for nd in nodes:
            nd.set_peers(nodes)
        _mesh(net, nodes, p, k0=3, loss=float(p.x("loss", default_loss)), cap_s=hb * 0.5 if cap_latency else None)
        arr = p.arrivals(12)
        max_polls = int(end / hb) + 2

        def client(proc, event):
            i = event.context["metadata"]["worker"]
            if i % 5 == 4:
                # command handed to a follower: it is queued on a future nobody resolves
                tgt = next((nd for nd in nodes if not nd.is_leader), nodes[0])
                tgt.submit(_kv_cmd(i))
                proc.done += 1
                return
            leader = None
            for _ in range(max_polls):  # harness poll with a positive step
                leader = _leader_of(nodes)
                if leader is not None:
                    break
                yield hb
            if leader is None:
                return
            fut = leader.submit(_kv_cmd(i))
            r = yield fut  # parked until the entry is committed and applied
            proc.log.append((i, r[0]))
            proc.done += 1

        clients = [Proc(f"cli{i}", client) for i in range(3)]

        def late_start(proc, event):
            proc.done += 1
            return nodes[-1].start()

        starter = Proc("late_starter", late_start)
        ents = [net, *nodes, *clients, starter]
        comps = {nd.name: nd for nd in nodes}
        comps["net"] = net
        if with_partition:

            def chaos(proc, event):
                for _ in range(max_polls):
                    leader = _leader_of(nodes)
                    if leader is not None:
                        break
                    yield hb
                else:
                    return
                yield hb * 2.25
                part = net.partition([leader], [nd for nd in nodes if nd is not leader])
                proc.log.append(("cut", leader.name, proc.now.nanoseconds))
                # commands submitted to the isolated leader can never commit; new leader elected meanwhile
                leader.submit(_kv_cmd(2))
                yield et_max * 3.0
                part.heal()
                proc.log.append(("heal", proc.now.nanoseconds))
                proc.done += 1
                return [ev(proc.now.nanoseconds, "start", clients[j % 3], worker=j) for j in range(3)]

            ch = Proc("chaos", chaos)
            ents.append(ch)
            comps["chaos"] = ch
        sim = make_sim(ents, end)
        for nd in nodes[:-1]:
            sim.schedule(nd.start())
        sim.schedule(ev(min(arr), "start", starter))  # the last node joins at the first arrival instant
        for i, t in enumerate(arr):
            sim.schedule(ev(t, "start", clients[i % 3], worker=i))
        if with_partition:
            sim.schedule(ev(min(arr), "start", ch))
        return Scenario(sim, comps, "consensus", True, len(arr) + 1 + (4 if with_partition else 0))

    return build


scenario("consensus.raft_three", "consensus")(_raft(3, 0.0, False))
scenario("consensus.raft_three_lossy", "consensus")(_raft(3, 0.05, False, cap_latency=False))
scenario("consensus.raft_five_partition", "consensus")(_raft(5, 0.01, True))


# ----------------------------------------------------------------------
# single-decree Paxos


def _paxos(n: int, n_proposers: int, default_loss: float, with_partition: bool):
    def build(seed, params):
        p = P(params, seed)
        end = p.end()
        net = Network(name="net")
        # One-way latency (and mean jitter) is capped at end/200 and the retry back-off is kept above
        # ~3 round trips: with a back-off far below the network latency the duelling proposers of this
        # implementation never settle and their retries multiply (time keeps advancing; reported
        # separately as a non-C07 finding), which exhausts the delivery budget instead of testing C07.
        # x.raw_retry: drawn latencies unscaled (reproducer of the retry amplification).
        raw = bool(p.x("raw_retry", False))
        cap_s = None if raw else end / 200.0
        nodes = [PaxosNode(f"px{i}", network=net, retry_delay=p.lat(i) if raw else _period(p.lat(i), 12.0 * cap_s)) for i in range(n)]
        for nd in nodes:
            nd.set_peers(nodes)
        _mesh(net, nodes, p, k0=n, loss=float(p.x("loss", default_loss)), cap_s=cap_s)
        arr = p.arrivals(8)

        def proposer(proc, event):
            i = event.context["metadata"]["worker"]
            node = nodes[i % n_proposers]
            fut = node.propose(f"v{i}")
            evs = node.start_phase1()
            yield 0.0, evs
            v = yield fut
            proc.log.append((i, node.name, v))
            proc.done += 1

        procs = [Proc(f"prop{i}", proposer) for i in range(n_proposers)]
        ents = [net, *nodes, *procs]
        comps = {nd.name: nd for nd in nodes}
        if with_partition:

            def cut(proc, event):
                yield p.lat(n) * 0.5  # prepares are on the wire
                part = net.partition(nodes[: n // 2], nodes[n // 2 :])
                yield p.lat(n) * 4 + p.hold()
                part.heal()
                proc.done += 1
                # a fresh proposal on each side right after the heal
                return [ev(proc.now.nanoseconds, "start", procs[j % n_proposers], worker=100 + j) for j in range(2)]

            pp = Proc("partitioner", cut)
            ents.append(pp)
            comps["partitioner"] = pp
        sim = make_sim(ents, end)
        for i, t in enumerate(arr):
            sim.schedule(ev(t, "start", procs[i % n_proposers], worker=i))
        if with_partition:
            sim.schedule(ev(min(arr), "start", pp))
        return Scenario(sim, comps, "consensus", True, len(arr) + (3 if with_partition else 0))

    return build


scenario("consensus.paxos_dueling_proposers", "consensus")(_paxos(3, 3, 0.0, False))
scenario("consensus.paxos_five_lossy", "consensus")(_paxos(5, 3, 0.1, False))
scenario("consensus.paxos_partition_heal", "consensus")(_paxos(5, 4, 0.02, True))


# ----------------------------------------------------------------------
# Multi-Paxos / Flexible Paxos (log based)


def _log_paxos(kind: str, n: int, default_loss: float):
    def build(seed, params):
        p = P(params, seed)
        end = p.end()
        net = Network(name="net")
        hb = _period(p.lat(0), end / 200.0)
        if kind == "multi":
            nodes = [
                MultiPaxosNode(
                    f"mp{i}",
                    network=net,
                    state_machine=KVStateMachine(),
                    leader_lease_timeout=_period(p.lat(1), hb * 3),
                    heartbeat_interval=hb,
                )
                for i in range(n)
            ]
        else:
            q1, q2 = [(n - 1, 2), (2, n - 1), (n, 1)][int(p.x("v", seed)) % 3]
            nodes = [
                FlexiblePaxosNode(
                    f"fp{i}",
                    network=net,
                    state_machine=KVStateMachine(),
                    phase1_quorum=q1,
                    phase2_quorum=q2,
                    heartbeat_interval=hb,
                )
                for i in range(n)
            ]
        for nd in nodes:
            nd.set_peers(nodes)
        _mesh(net, nodes, p, k0=2, loss=float(p.x("loss", default_loss)))
        arr = p.arrivals(10)
        t0 = min(arr)

        def candidate(proc, event):
            node = nodes[event.context["metadata"]["worker"] % n]
            proc.done += 1
            return node.start()  # phase 1; replicates every uncommitted slot once it wins

        cand = Proc("candidate", candidate)

        def client(proc, event):
            i = event.context["metadata"]["worker"]
            node = _leader_of(nodes) if i % 3 else nodes[i % n]
            node = node or nodes[i % n]
            fut = node.submit(_kv_cmd(i))  # queued when `node` is not (yet) the leader
            out = []
            leader = _leader_of(nodes)
            if kind == "multi" and leader is not None and i % 2:
                # event-driven path: forward a command to the leader
                out.append(Event(time=proc.now, event_type="MultiPaxosForward", target=leader, context={"metadata": {"command": _kv_cmd(i + 50)}}))
            if out:
                yield 0.0, out
            r = yield fut
            proc.log.append((i, node.name, r[0]))
            proc.done += 1

        clients = [Proc(f"cli{i}", client) for i in range(3)]
        sim = make_sim([net, *nodes, *clients, cand], end)
        # two candidates start phase 1 on the same nanosecond; a third (and the first again) later
        sim.schedule(ev(t0, "start", cand, worker=0))
        sim.schedule(ev(t0, "start", cand, worker=1))
        for i, t in enumerate(arr):
            sim.schedule(ev(t, "start", clients[i % 3], worker=i))
        step = int(hb * 2.5 * 1e9)
        sim.schedule(ev(max(arr) + step, "start", cand, worker=2))
        sim.schedule(ev(max(arr) + 2 * step, "start", cand, worker=0))
        for j in range(3):  # commands handed to the established leader, then a new phase 1 replicates them
            sim.schedule(ev(max(arr) + 2 * step + int(hb * 0.5e9), "start", clients[j], worker=200 + 3 * j + 1))
        sim.schedule(ev(max(arr) + 3 * step, "start", cand, worker=0))
        comps = {nd.name: nd for nd in nodes}
        comps["net"] = net
        return Scenario(sim, comps, "consensus", True, len(arr) + 8)

    return build


scenario("consensus.multi_paxos_three", "consensus")(_log_paxos("multi", 3, 0.0))
scenario("consensus.multi_paxos_five_lossy", "consensus")(_log_paxos("multi", 5, 0.05))
scenario("consensus.flexible_paxos_quorums", "consensus")(_log_paxos("flex", 5, 0.0))
scenario("consensus.flexible_paxos_lossy", "consensus")(_log_paxos("flex", 4, 0.05))


# ----------------------------------------------------------------------
# LeaderElection strategies


def _election(strategy: str, n: int, default_loss: float, cap_latency: bool = True):
    def build(seed, params):
        p = P(params, seed)
        end = p.end()
        net = Network(name="net")
        hb = _period(p.lat(0), end / 200.0)
        et = _period(p.lat(1), hb * 2.5)
        mk = {
            "bully": lambda: BullyStrategy(),
            "ring": lambda: RingStrategy(),
            "random": lambda: RandomizedStrategy(ballot_range=1000),
        }[strategy]
        nodes = [LeaderElection(f"el{i}", network=net, strategy=mk(), election_timeout=et, heartbeat_interval=hb) for i in range(n)]
        for nd in nodes:
            for o in nodes:
                if o is not nd or strategy == "ring":
                    nd.add_member(o)
        _mesh(net, nodes, p, k0=2, loss=float(p.x("loss", default_loss)), cap_s=hb * 0.5 if cap_latency else None)
        arr = p.arrivals(8)
        state = {"part": None}

        def op(proc, event):
            i = event.context["metadata"]["worker"]
            proc.done += 1
            if i < n:
                return nodes[i].start()  # members join at the arrival instants (burst)
            if i % 2 == 0 and state["part"] is None:
                leader = next((nd for nd in nodes if nd.is_leader), nodes[-1])
                state["part"] = net.partition([leader], [nd for nd in nodes if nd is not leader])
                proc.log.append(("cut", leader.name, proc.now.nanoseconds))
            elif state["part"] is not None:
                state["part"].heal()
                state["part"] = None
                proc.log.append(("heal", proc.now.nanoseconds))
            return None

        driver = Proc("driver", op)
        sim = make_sim([net, *nodes, driver], end)
        t0 = min(arr)
        k = 0
        for i, t in enumerate(arr):
            if i < n:
                sim.schedule(ev(t, "start", driver, worker=i))
            else:
                # fault / repair operations are spread over the run (a few election timeouts apart)
                k += 1
                sim.schedule(ev(t + int(k * et * 2.75 * 1e9), "start", driver, worker=i))
        for i in range(len(arr), n):  # fewer arrivals than nodes: the rest joins with the first burst
            sim.schedule(ev(t0, "start", driver, worker=i))
        comps = {nd.name: nd for nd in nodes}
        comps["net"] = net
        return Scenario(sim, comps, "consensus", True, max(len(arr), n))

    return build


scenario("consensus.election_bully", "consensus")(_election("bully", 4, 0.0))
scenario("consensus.election_bully_lossy", "consensus")(_election("bully", 3, 0.1, cap_latency=False))
scenario("consensus.election_ring", "consensus")(_election("ring", 4, 0.0))
scenario("consensus.election_randomized", "consensus")(_election("random", 3, 0.02))


# ----------------------------------------------------------------------
# SWIM membership + phi accrual detector


@scenario("consensus.membership_silent_member", "consensus")
def membership_silent_member(seed, params):
    """4 protocol nodes + one member that never answers (a sink) + one node cut off and re-joined."""
    p = P(params, seed)
    end = p.end()
    net = Network(name="net")
    probe = _period(p.lat(0), end / 120.0)
    susp = _period(p.lat(1), probe * 1.5)
    nodes = [
        MembershipProtocol(
            f"m{i}",
            network=net,
            probe_interval=probe,
            suspicion_timeout=susp,
            indirect_probe_count=int(p.x("indirect", 2)),
            phi_threshold=float(p.x("phi", 4.0)),
        )
        for i in range(4)
    ]
    silent = Recorder("silent")  # receives pings, never acks
    for nd in nodes:
        for o in nodes:
            nd.add_member(o)  # add_member ignores self
        nd.add_member(silent)
    _mesh(net, [*nodes, silent], p, k0=2, loss=float(p.x("loss", 0.02)), cap_s=probe * 0.2)
    arr = p.arrivals(6)
    detector = PhiAccrualDetector(threshold=float(p.x("phi", 4.0)), initial_interval=probe)

    def op(proc, event):
        i = event.context["metadata"]["worker"]
        proc.done += 1
        if i < len(nodes):
            return nodes[i].start()
        # later operations: sample a free-standing detector the way a monitor would
        now_s = proc.now.to_seconds()
        detector.heartbeat(now_s)
        proc.log.append((i, round(detector.phi(now_s + probe), 6), detector.is_available(now_s + 10 * probe)))
        return None

    driver = Proc("driver", op)

    def cut(proc, event):
        yield probe * 6.5
        part = net.partition([nodes[3]], nodes[:3])
        proc.log.append(("cut", proc.now.nanoseconds))
        yield susp * 2 + probe * 8
        part.heal()
        proc.log.append(("heal", proc.now.nanoseconds, [nd.stats.dead_count for nd in nodes]))
        proc.done += 1

    pp = Proc("partitioner", cut)
    sim = make_sim([net, *nodes, silent, driver, pp], end)
    for i, t in enumerate(arr):
        sim.schedule(ev(t if i < len(nodes) else t + int(i * probe * 1e9), "start", driver, worker=i))
    for i in range(len(arr), len(nodes)):
        sim.schedule(ev(min(arr), "start", driver, worker=i))
    sim.schedule(ev(min(arr), "start", pp))
    comps = {nd.name: nd for nd in nodes}
    comps.update({"net": net, "silent": silent, "partitioner": pp})
    return Scenario(sim, comps, "consensus", True, max(len(arr), len(nodes)) + 1)


@scenario("consensus.membership_lossy_pair", "consensus")
def membership_lossy_pair(seed, params):
    """Two nodes over a very lossy link: acks go missing, indirect probes have no delegate."""
    p = P(params, seed)
    end = p.end()
    net = Network(name="net")
    probe = _period(p.lat(2), end / 150.0)
    nodes = [
        MembershipProtocol(f"m{i}", network=net, probe_interval=probe, suspicion_timeout=_period(p.lat(3), probe), indirect_probe_count=3, phi_threshold=1.0)
        for i in range(2)
    ]
    nodes[0].add_member(nodes[1])
    nodes[1].add_member(nodes[0])
    _mesh(net, nodes, p, k0=0, loss=float(p.x("loss", 0.4)), cap_s=probe * 0.2)
    arr = p.arrivals(2)
    driver = Proc("driver", lambda proc, event: nodes[event.context["metadata"]["worker"] % 2].start())
    sim = make_sim([net, *nodes, driver], end)
    for i, t in enumerate(arr[:2]):
        sim.schedule(ev(t, "start", driver, worker=i))
    if len(arr) < 2:
        sim.schedule(ev(arr[0], "start", driver, worker=1))
    return Scenario(sim, {nd.name: nd for nd in nodes}, "consensus", True, 2)


# ----------------------------------------------------------------------
# DistributedLock


def _take_expiry(lock):
    """The repository's idiom (tests, examples): the lease-expiry event of the latest grant is left
    in `lock._pending_expiry` for the caller to schedule."""
    e = getattr(lock, "_pending_expiry", None)
    if e is not None:
        lock._pending_expiry = None
        return [e]
    return []


@scenario("consensus.lock_contention_generator_api", "consensus")
def lock_contention(seed, params):
    """More clients than locks; holders keep the lock for `hold` while the others wait; every
    second holder out-stays its lease so the lock expires under it and the next waiter gets it."""
    p = P(params, seed)
    n_locks = p.cap(2)
    hold = p.hold()
    lease = float(p.x("lease", hold * 1.5))
    lock = DistributedLock("locks", lease_duration=lease, max_waiters=int(p.x("max_waiters", 0)))
    arr = p.arrivals(8)

    def body(proc, event):
        i = event.context["metadata"]["worker"]
        name = f"L{i % n_locks}"
        me = f"{proc.name}#{i}"
        if i % 4 == 0:
            g = lock.try_acquire(name, me)  # non-blocking: wins only when the lock is free
            if g is None:
                proc.done += 1
                return
            lock.try_acquire(name, me)  # re-entrant: same grant
            fut = None
        else:
            fut = lock.acquire(name, me)
            g = None
        pend = _take_expiry(lock)
        if pend:
            yield 0.0, pend
        if fut is not None:
            g = yield fut  # parked while another client holds the lock
            if g is None:  # rejected: too many waiters
                proc.done += 1
                return
            pend = _take_expiry(lock)  # granted by a release / an expiry: schedule its lease expiry now
            if pend:
                yield 0.0, pend
        # re-entrant acquire by the holder returns the same grant
        lock.acquire(name, me)
        yield hold * (2.0 if i % 2 else 0.5)  # odd workers out-stay the lease (lease = 1.5 hold)
        ok = lock.release(name, g.fencing_token)
        pend = _take_expiry(lock)  # the release granted the next waiter
        proc.log.append((i, name, g.fencing_token, ok))
        proc.done += 1
        return pend or None

    procs = [Proc(f"c{i}", body) for i in range(min(len(arr), 6))]
    sim = make_sim([lock, *procs], p.end())
    for i, t in enumerate(arr):
        sim.schedule(ev(t, "start", procs[i % len(procs)], worker=i))
    return Scenario(sim, {"lock": lock}, "consensus", True, len(arr))


@scenario("consensus.lock_event_api_expiry", "consensus")
def lock_event_api(seed, params):
    """Event-driven API (`LockAcquireRequest` / `LockReleaseRequest`) with a short lease:
    holders never release in time, waiters are served by lease expiry."""
    p = P(params, seed)
    lease = p.hold()
    lock = DistributedLock("locks", lease_duration=lease, max_waiters=int(p.x("max_waiters", 3)))
    arr = p.arrivals(8)

    def body(proc, event):
        i = event.context["metadata"]["worker"]
        me = f"{proc.name}#{i}"
        reply = SimFuture()
        req = Event(
            time=proc.now,
            event_type="LockAcquireRequest",
            target=lock,
            context={"metadata": {"lock_name": "L", "requester": me}, "reply_future": reply},
        )
        yield 0.0, [req]
        g = yield reply
        if g is None:
            proc.done += 1
            return
        pend = _take_expiry(lock)
        if pend:
            yield 0.0, pend
        if i % 3 == 0:
            # crashes while holding: never releases, the lease expiry frees the lock
            proc.done += 1
            return
        yield lease * (0.5 if i % 3 == 1 else 1.75)
        proc.done += 1
        # a late release carries a stale token and is ignored by the lock
        return [Event(time=proc.now, event_type="LockReleaseRequest", target=lock, context={"metadata": {"lock_name": "L", "fencing_token": g.fencing_token}})]

    procs = [Proc(f"c{i}", body) for i in range(min(len(arr), 5))]
    sim = make_sim([lock, *procs], p.end())
    for i, t in enumerate(arr):
        sim.schedule(ev(t, "start", procs[i % len(procs)], worker=i))
    return Scenario(sim, {"lock": lock}, "consensus", True, len(arr))

"""Catalogue of library-component scenarios (shared by C07 and C03).

    CATALOGUE: dict[name -> builder]
    builder(seed: int, params: dict) -> Scenario

A builder seeds every RNG the way a user would (`random.seed`, numpy seed,
`seed=` constructor arguments), constructs real library components wired to
small harness entities (defined in `hsverif.scenarios._kit`, i.e. *outside*
`happysimulator.`), schedules a finite workload and returns a `Scenario` whose
`.sim` has not been run.  Builders are deterministic given `(seed, params)`;
`params` is a JSON value (see `_kit.P` for the common vocabulary:
`arrivals_ns`, `lats`, `cap`, `hold`, `end`, `x`).

    from hsverif.scenarios import CATALOGUE, FAMILY_OF, build
    sc = build("sync.mutex_contention", seed=3, params={})
    sc.sim.run()          # always run under a probe with caps: some components spin
"""

from __future__ import annotations

import importlib
from dataclasses import dataclass, field
from typing import Any, Callable

from hsverif.core import ensure_repo_on_path

ensure_repo_on_path()


@dataclass
class Scenario:
    sim: Any  # happysimulator.Simulation, constructed, not yet run
    components: dict[str, Any]  # name -> component with public stats / counters
    family: str  # queues / servers / clients / resilience / messaging / ...
    finite: bool = True  # workload is finite, so a frozen clock is decidable
    workload: int = 0  # number of externally scheduled arrivals / operations
    name: str = ""
    notes: str = ""
    extras: dict[str, Any] = field(default_factory=dict)


CATALOGUE: dict[str, Callable[[int, dict], Scenario]] = {}
FAMILY_OF: dict[str, str] = {}


def scenario(name: str, family: str):
    """Register a builder under `name` (convention: '<family>.<what>')."""

    def deco(fn):
        if name in CATALOGUE:
            raise KeyError(f"duplicate scenario {name}")

        def builder(seed: int, params: dict | None = None) -> Scenario:
            from hsverif.scenarios._kit import seed_all

            seed_all(seed)
            sc = fn(int(seed), dict(params or {}))
            sc.family = family
            sc.name = name
            return sc

        builder.__name__ = fn.__name__
        builder.__doc__ = fn.__doc__
        CATALOGUE[name] = builder
        FAMILY_OF[name] = family
        return builder

    return deco


def build(name: str, seed: int = 0, params: dict | None = None) -> Scenario:
    return CATALOGUE[name](seed, params or {})


def snapshot(sc: Scenario) -> dict:
    """JSON-able snapshot of the public stats/counters of a scenario's components."""
    from hsverif.scenarios._kit import public_state

    return {k: public_state(v) for k, v in sc.components.items()}


_MODULES = [
    "sync",
    "messaging",
    "rate_limiter",
    "queues",
    "servers",
    "clients",
    "resilience",
    "load_balancer",
    "datastore",
    "storage",
    "infrastructure",
    "streaming",
    "replication",
    "consensus",
    "crdt",
    "network",
    "deployment",
    "industrial",
    "microservice",
    "scheduling",
    "sketching",
    "behavior",
    "advertising",
    "misc",
    "mixed_and_faults",
    "derived",  # last: builds on the builders above
]

LOAD_ERRORS: dict[str, str] = {}
for _m in _MODULES:
    try:
        importlib.import_module(f"hsverif.scenarios.{_m}")
    except ModuleNotFoundError as _e:  # family module not written (yet)
        if f"hsverif.scenarios.{_m}" not in str(_e):
            raise
        LOAD_ERRORS[_m] = str(_e)


def names(family: str | None = None) -> list[str]:
    return sorted(n for n, f in FAMILY_OF.items() if family is None or f == family)


def families() -> list[str]:
    return sorted(set(FAMILY_OF.values()))

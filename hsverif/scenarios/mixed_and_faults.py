"""Two cross-cutting scenario classes (round 7):

* mixed API: ONE component instance used through its direct / generator API and through its
  event-handling path, with long idle gaps (several leases / latencies) between the two;
* faults mid-operation: CrashNode (with restart) / PauseNode windows on the *driving* entities while
  their generator-API operations are in flight (WAL fsync, LSM put, pool connection held, lock held,
  queue publish, transaction open ...), then continued use after the restart.  A crashed entity's
  in-flight generators are abandoned by the engine; whatever bookkeeping they left must not produce
  past emissions or negative waits later.

Only public API is used (in particular the harness never touches DistributedLock._pending_expiry).
"""

from __future__ import annotations

from happysimulator.components.client import ConnectionPool
from happysimulator.components.consensus import DistributedLock
from happysimulator.components.datastore import Database, KVStore
from happysimulator.components.messaging import MessageQueue, Topic
from happysimulator.components.resource import Resource
from happysimulator.components.storage import LSMTree, SyncEveryWrite, SyncOnBatch, WriteAheadLog
from happysimulator.components.streaming import ConsumerGroup, EventLog
from happysimulator.components.sync import Mutex, Semaphore
from happysimulator.core.sim_future import SimFuture
from happysimulator.faults import CrashNode, FaultSchedule, PauseNode

from hsverif.scenarios import Scenario, scenario
from hsverif.scenarios._kit import ConstantLatency, Event, P, Proc, Recorder, Replier, ev, make_sim

NS = 1_000_000_000


# ----------------------------------------------------------------------
# mixed direct / event API with long gaps


@scenario("consensus.lock_mixed_direct_and_event_api_long_gaps", "consensus")
def lock_mixed_direct_and_event_api_long_gaps(seed, params):
    """DistributedLock: grants through the direct API (acquire / try_acquire from a worker's handler, the
    worker never looks at private state), then - several leases later - events to the lock entity:
    LockAcquireRequest for the held lock (queued, no new grant), for a free lock, LockReleaseRequest for a
    lock nobody holds, an unknown event; and the reverse order (event grants first, direct calls later)."""
    p = P(params, seed)
    lease = p.lat(0)
    lock = DistributedLock("lock", lease_duration=lease, max_waiters=p.count(0, 3, lo=0, hi=5))
    lock2 = DistributedLock("lock2", lease_duration=lease)
    grants: dict[str, object] = {}

    def direct(proc, event):
        md = event.context["metadata"]
        lk = lock if md.get("which", 0) == 0 else lock2
        name = md.get("lock", "orders")
        if md.get("op") == "try":
            g = lk.try_acquire(name, proc.name)
        elif md.get("op") == "release":
            g = grants.get(proc.name)
            if g is not None:
                lk.release(name, g.fencing_token)
            proc.done += 1
            return None
        else:
            fut = lk.acquire(name, proc.name)
            g = fut.value if fut.is_resolved else None
        if g is not None:
            grants[proc.name] = g
        proc.done += 1
        return None

    arr = p.arrivals(4)
    t0 = min(arr)
    gap = int(lease * NS)
    workers = [Proc(f"w{i}", direct) for i in range(len(arr))]
    sim = make_sim([lock, lock2, *workers], max(p.end(), t0 / NS + lease * 60 + 1))
    n = 0
    for i, t in enumerate(arr):
        # direct grants first (lock), events much later
        sim.schedule(ev(t, "go", workers[i], op="acquire" if i % 2 == 0 else "try", which=0, lock="orders" if i < 2 else f"l{i}"))
        n += 1
    for j, mult in enumerate((3, 5, 10, 25)):
        t = t0 + mult * gap + j
        sim.schedule(ev(t, "LockAcquireRequest", lock, lock_name="orders", requester=f"late{j}", reply_future=SimFuture()))
        sim.schedule(ev(t + 1, "LockReleaseRequest", lock, lock_name="nobody-holds-this", fencing_token=999))
        sim.schedule(ev(t + 2, "SomethingElse", lock))
        sim.schedule(ev(t + 3, "LockAcquireRequest", lock, lock_name=f"free{j}", requester=f"late{j}"))
        n += 4
    # reverse on lock2: event-driven grants first, direct calls several leases later
    for j in range(3):
        sim.schedule(ev(t0 + j, "LockAcquireRequest", lock2, lock_name="orders", requester=f"ev{j}", reply_future=SimFuture()))
        sim.schedule(ev(t0 + (4 + 7 * j) * gap + j, "go", workers[j % len(workers)], op="acquire", which=1, lock="orders"))
        sim.schedule(ev(t0 + (6 + 7 * j) * gap + j, "go", workers[j % len(workers)], op="try", which=1, lock=f"other{j}"))
        n += 3
    return Scenario(sim, {"lock": lock, "lock2": lock2}, "consensus", True, n)


@scenario("messaging.mixed_generator_and_event_api_long_gaps", "messaging")
def mixed_generator_and_event_api_long_gaps(seed, params):
    """MessageQueue and Topic used through `yield from publish()/poll()` AND through 'poll' / 'publish' /
    'message_redelivery' events on the same instance, with idle gaps of many delivery latencies in between."""
    p = P(params, seed)
    lat = p.lat(0)
    mq = MessageQueue("mq", delivery_latency=lat, redelivery_delay=p.lat(1) * 2, max_redeliveries=2)
    topic = Topic("topic", delivery_latency=p.lat(1))
    sink = Recorder("consumer")
    subs = [Recorder(f"s{i}") for i in range(p.count(0, 2))]
    mq.subscribe(sink)
    for s in subs:
        topic.subscribe(s)

    def gen_user(proc, event):
        i = event.context["metadata"]["worker"]
        yield from mq.publish(Event(time=proc.now, event_type="Order", target=sink, context={"metadata": {"n": i}}))
        out = []
        if i % 2 == 0:
            d = yield from mq.poll()
            if d is not None:
                out.append(d)
        out += (yield from topic.publish(Event(time=proc.now, event_type="News", target=subs[0]))) or []
        proc.done += 1
        return out

    arr = p.arrivals(4)
    t0 = min(arr)
    gap = int(max(lat, p.lat(1)) * NS)
    procs = [Proc(f"g{i}", gen_user) for i in range(len(arr))]
    sim = make_sim([mq, topic, sink, *subs, *procs], max(p.end(), t0 / NS + gap / NS * 80 + 1))
    n = 0
    for i, t in enumerate(arr):
        sim.schedule(ev(t, "start", procs[i], worker=i))
        n += 1
    for j, mult in enumerate((7, 13, 31, 60)):
        t = t0 + mult * gap + j
        sim.schedule(ev(t, "poll", mq))
        sim.schedule(ev(t + 1, "publish", topic, context={"payload": ev(t + 1, "News", subs[0])}))
        sim.schedule(ev(t + 2, "message_redelivery", mq, context={"message_id": "no-such-message"}))
        sim.schedule(ev(t + 3, "start", procs[j % len(procs)], worker=100 + j))  # generator API again, later still
        n += 4
    return Scenario(sim, {"mq": mq, "topic": topic, "consumer": sink}, "messaging", True, n)


@scenario("streaming.mixed_generator_and_event_api_long_gaps", "streaming")
def streaming_mixed_api_long_gaps(seed, params):
    """EventLog / ConsumerGroup through `yield from append()/read()/join()/poll()/commit()` AND through
    'Append' / 'Read' / 'Poll' / 'Commit' / 'Leave' events on the same instances, with long idle gaps."""
    p = P(params, seed)
    log = EventLog("log", num_partitions=p.count(0, 2, hi=6), append_latency=p.lat(0), read_latency=p.lat(1),
                   retention_check_interval=max(p.lat(2) * 50, p.end() / 300))  # fmt: skip
    group = ConsumerGroup("group", event_log=log, rebalance_delay=p.lat(2), poll_latency=p.lat(3))
    member = Recorder("member")

    def gen_user(proc, event):
        i = event.context["metadata"]["worker"]
        yield from log.append(f"k{i % 3}", {"v": i})
        recs = yield from log.read(i % log.num_partitions, 0, 5)
        if i == 0:
            yield from group.join("c0", member)
        got = yield from group.poll("c0", max_records=3)
        yield from group.commit("c0", {})
        proc.log.append((len(recs or []), len(got or [])))
        proc.done += 1

    arr = p.arrivals(4)
    t0 = min(arr)
    gap = int(max(p.lat(0), p.lat(1), p.lat(2)) * NS)
    procs = [Proc(f"g{i}", gen_user) for i in range(len(arr))]
    sim = make_sim([log, group, member, *procs], max(p.end(), t0 / NS + gap / NS * 80 + 1))
    n = 0
    for i, t in enumerate(arr):
        sim.schedule(ev(t, "start", procs[i], worker=i))
        n += 1
    for j, mult in enumerate((9, 17, 40)):
        t = t0 + mult * gap + j
        sim.schedule(ev(t, "Append", log, context={"key": f"e{j}", "value": j, "reply_future": SimFuture()}))
        sim.schedule(ev(t + 1, "Read", log, context={"partition": 0, "offset": 0, "max_records": 2}))
        sim.schedule(ev(t + 2, "Poll", group, context={"consumer_name": "c0", "max_records": 2, "reply_future": SimFuture()}))
        sim.schedule(ev(t + 3, "Commit", group, context={"consumer_name": "c0", "offsets": {}}))
        sim.schedule(ev(t + 4, "start", procs[j % len(procs)], worker=50 + j))
        n += 5
    sim.schedule(ev(t0 + 70 * gap, "Leave", group, context={"consumer_name": "c0"}))
    return Scenario(sim, {"log": log, "group": group}, "streaming", True, n + 1)


# ----------------------------------------------------------------------
# crash (with restart) / pause of the driving entity in the middle of generator-API operations


def _faulted(name, family, make):
    """make(p) -> (entities, op(proc, event) generator, op_duration_s, phases: offsets in (0,1) of the op)."""

    @scenario(name, family)
    def builder(seed, params):
        p = P(params, seed)
        ents, op, dur, phases, comps = make(p)
        rounds = 4

        def body(proc, event):
            for _ in range(rounds):
                yield from op(proc, event)
            proc.done += 1

        arr = p.arrivals(3)
        t0 = min(arr)
        k = max(3, min(6, len(arr)))
        procs = [Proc(f"u{i}", body) for i in range(k)]
        fs = FaultSchedule()
        t0s = t0 / NS
        # the first process starts alone at t0: its r-th operation spans [t0 + r*dur, t0 + (r+1)*dur)
        for r, ph in enumerate(phases[:3]):
            at = t0s + (r + ph) * dur
            if r % 2 == 0:
                fs.add(CrashNode("u0", at=at, restart_at=at + dur * (0.75 + r)))
            else:
                fs.add(PauseNode("u0", start=at, end=at + dur * 2.5))
        fs.add(CrashNode("u1", at=t0s + dur * phases[-1], restart_at=t0s + dur * 6))
        fs.add(PauseNode("u2", start=t0s + dur * (1 + phases[0]), end=t0s + dur * 3.2))
        end = max(p.end(), t0s + dur * 60 + 1)
        sim = make_sim([*ents, *procs], end, fault_schedule=fs)
        n = 0
        for i, q in enumerate(procs):
            sim.schedule(ev(t0 if i == 0 else arr[i % len(arr)], "start", q, worker=i))
            # continued use after the restarts / resumes
            for m in (8, 15, 30):
                sim.schedule(ev(t0 + int(dur * m * NS) + i, "start", q, worker=i + 10 * m))
                n += 1
            n += 1
        return Scenario(sim, {**comps, "faults": fs}, family, True, n)

    return builder


def _wal(policy):
    def make(p):
        w, s = p.lat(0), p.lat(1)
        wal = WriteAheadLog("wal", sync_policy=policy(), write_latency=w, sync_latency=s)

        def op(proc, event):
            yield from wal.append(f"k{proc.name}", proc.done)

        # an append is [write w][fsync s]: phases inside the fsync window and inside the write
        f_mid = (w + s / 2) / (w + s)
        return [wal], op, w + s, [f_mid, (w / 2) / (w + s), (w + s * 0.9) / (w + s), f_mid], {"wal": wal}

    return make


_faulted("faults.crash_pause_mid_wal_append_sync_every_write", "faults", _wal(lambda: SyncEveryWrite()))
_faulted("faults.crash_pause_mid_wal_append_sync_on_batch", "faults", _wal(lambda: SyncOnBatch(batch_size=2)))


def _lsm(p):
    w, s = p.lat(0), p.lat(1)
    wal = WriteAheadLog("wal", sync_policy=SyncEveryWrite(), write_latency=w, sync_latency=s)
    lsm = LSMTree("lsm", memtable_size=2, wal=wal, sstable_read_latency=p.lat(2), sstable_write_latency=p.lat(3))

    def op(proc, event):
        yield from lsm.put(f"k{proc.name}{proc.started % 3}", proc.done)
        yield from lsm.get(f"k{proc.name}0")

    dur = w + s + p.lat(2)
    return [lsm, wal], op, dur, [0.6, 0.2, 0.9, 0.5], {"lsm": lsm, "wal": wal}


_faulted("faults.crash_pause_mid_lsm_put", "faults", _lsm)


def _pool(p):
    hold = p.hold()
    slow = Replier("slow", p.lat(0))
    pool = ConnectionPool("pool", target=slow, max_connections=p.cap(2), connection_timeout=hold * 30 + 1,
                          idle_timeout=p.lat(1) * 20, connection_latency=ConstantLatency(p.lat(2)))  # fmt: skip

    def op(proc, event):
        try:
            c = yield from pool.acquire()
        except TimeoutError:
            return
        yield hold
        out = pool.release(c)
        if out:
            yield 0.0, out

    return [pool, slow], op, hold + p.lat(2), [0.5, 0.1, 0.95, 0.3], {"pool": pool}


_faulted("faults.crash_pause_holding_pool_connection", "faults", _pool)


def _locks(p):
    hold = p.hold()
    m, sem, res = Mutex("m"), Semaphore("sem", initial_count=2), Resource("res", capacity=2)
    lock = DistributedLock("dlock", lease_duration=hold * 1.5)

    def op(proc, event):
        yield from m.acquire(proc.name)
        yield hold / 3
        m.release()
        yield from sem.acquire(1)
        yield hold / 3
        sem.release(1)
        g = yield res.acquire(1)
        yield hold / 3
        g.release()
        grant = lock.try_acquire("L", proc.name)
        if grant is not None:
            yield hold / 3
            lock.release("L", grant.fencing_token)

    return [m, sem, res, lock], op, hold * 4 / 3, [0.1, 0.4, 0.6, 0.9], {"m": m, "sem": sem, "res": res, "dlock": lock}


_faulted("faults.crash_pause_holding_locks", "faults", _locks)


def _db(p):
    db = Database("db", max_connections=p.cap(2), query_latency=p.lat(0), connection_latency=p.lat(1),
                  commit_latency=p.lat(2), rollback_latency=p.lat(3))  # fmt: skip
    db.create_table("t")
    kv = KVStore("kv", read_latency=p.lat(1), write_latency=p.lat(2))

    def op(proc, event):
        tx = yield from db.begin_transaction()
        yield from tx.execute("INSERT INTO t VALUES (1)")
        yield from tx.commit()
        yield from kv.put(proc.name, proc.done)
        yield from kv.get(proc.name)

    dur = p.lat(0) + p.lat(1) + p.lat(2) * 2 + p.lat(1)
    return [db, kv], op, dur, [0.3, 0.6, 0.85, 0.5], {"db": db, "kv": kv}


_faulted("faults.crash_pause_mid_transaction", "faults", _db)


def _msg(p):
    mq = MessageQueue("mq", delivery_latency=p.lat(0), redelivery_delay=p.lat(1) * 3)
    log = EventLog("log", num_partitions=2, append_latency=p.lat(2), read_latency=p.lat(3),
                   retention_check_interval=max(p.lat(2) * 50, p.end() / 300))  # fmt: skip
    sink = Recorder("consumer")
    mq.subscribe(sink)

    def op(proc, event):
        yield from mq.publish(Event(time=proc.now, event_type="M", target=sink))
        d = yield from mq.poll()
        if d is not None:
            yield 0.0, [d]
        yield from log.append(proc.name, proc.done)
        yield from log.read(0, 0, 3)

    dur = 0.0001 + p.lat(0) + p.lat(2) + p.lat(3)
    return [mq, log, sink], op, dur, [0.2, 0.5, 0.8, 0.4], {"mq": mq, "log": log}


_faulted("faults.crash_pause_mid_publish_and_append", "faults", _msg)

"""scheduling family: JobScheduler (dependencies, priorities, enable/disable), WorkStealingPool (+ _Worker).

JobScheduler jobs target a real `Server` (answers its completion hook at
enqueue time) and harness `Replier`s (complete after a positive service time),
so `_job_complete` arrives both at the trigger instant and later.  The pool gets
an uneven burst (long tasks land on one worker) so idle workers steal.
"""

from __future__ import annotations

import random

from happysimulator.components.common import Sink
from happysimulator.components.scheduling import JobDefinition, JobScheduler, WorkStealingPool
from happysimulator.components.server import Server

from hsverif.scenarios import Scenario, scenario
from hsverif.scenarios._kit import ConstantLatency, P, Proc, Recorder, Replier, ev, make_sim

FAMILY = "scheduling"


def period(p: P, i: int, max_ticks: int = 300) -> float:
    """A periodic interval taken from p.lat(i), scaled by 10 until about max_ticks fit into p.end()."""
    iv = p.lat(i)
    while p.end() / iv > max_ticks:
        iv *= 10.0
    while p.end() / iv < max_ticks / 10.0:
        iv /= 10.0
    return iv


def below(v: float, limit: float) -> float:
    while v >= limit:
        v /= 3.0
    return v


# ----------------------------------------------------------------------
# JobScheduler


def _job_world(p: P):
    tick = period(p, 0, 300)
    sink = Sink("sink")
    rec = Recorder("rec")
    server = Server("jobsrv", concurrency=p.cap(1), service_time=ConstantLatency(below(p.lat(1), tick * 3)), downstream=sink)
    slow = Replier("slow", below(p.lat(2), tick) + tick * 2.5, downstream=rec)  # spans several ticks: skipped_running
    quick = Replier("quick", below(p.lat(3), tick), downstream=rec)
    return tick, sink, rec, server, slow, quick


@scenario("scheduling.job_dependencies", FAMILY)
def job_dependencies(seed, params):
    """A chain extract -> transform -> load plus an independent high priority job on a contended Server."""
    p = P(params, seed)
    tick, sink, rec, server, slow, quick = _job_world(p)
    js = JobScheduler("jobs", tick_interval=tick)
    js.add_job(JobDefinition("extract", slow, "Extract", interval=tick * 2, priority=1))  # due again while still running
    js.add_job(JobDefinition("transform", quick, "Transform", interval=tick * 4, priority=5, depends_on=["extract"]))
    js.add_job(JobDefinition("load", server, "Load", interval=tick * 4, priority=3, depends_on=["transform"], context={"metadata": {"batch": 1}}))
    js.add_job(JobDefinition("report", server, "Report", interval=tick, priority=9))
    js.add_job(JobDefinition("orphan", quick, "Orphan", interval=tick, depends_on=["missing"]))
    arr = p.arrivals(8)
    t0 = min(arr)
    stop_ns = t0 + int(tick * 40 * 1e9)

    def control(proc, event):
        if event.event_type == "begin":
            return [js.start()]
        js.stop()
        proc.done += 1
        return None

    ctl = Proc("control", control)
    sim = make_sim([js, sink, rec, server, slow, quick, ctl], p.end())
    # competing user requests on the job target (bursts): the job events queue behind them
    for i, t in enumerate(arr):
        sim.schedule(ev(t, "Request", server, seq=i))
    sim.schedule(ev(t0, "begin", ctl))
    sim.schedule(ev(stop_ns, "end", ctl))
    comps = {"jobs": js, "jobsrv": server, "slow": slow, "quick": quick, "sink": sink, "rec": rec}
    return Scenario(sim, comps, FAMILY, True, len(arr) + 2)


@scenario("scheduling.job_enable_disable", FAMILY)
def job_enable_disable(seed, params):
    """Jobs are disabled / enabled / removed / added at the arrival instants while the scheduler ticks."""
    p = P(params, seed)
    rng = random.Random(seed)
    tick, sink, rec, server, slow, quick = _job_world(p)
    js = JobScheduler("jobs", tick_interval=tick)
    js.add_job(JobDefinition("a", quick, "A", interval=tick, priority=2))
    js.add_job(JobDefinition("b", slow, "B", interval=tick * 2, priority=1, depends_on=["a"]))
    js.add_job(JobDefinition("c", server, "C", interval=tick * 3, enabled=False))
    arr = p.arrivals(9)
    t0 = min(arr)
    tick_ns = max(1, int(tick * 1e9))
    added = [0]

    def op(proc, event):
        k = event.context["metadata"]["seq"]
        choice = rng.randrange(5)
        if choice == 0:
            js.disable_job("a")
        elif choice == 1:
            js.enable_job("a")
            js.enable_job("c")
        elif choice == 2:
            js.remove_job("b")
        elif choice == 3 and "b" not in js.job_names:
            js.add_job(JobDefinition("b", slow, "B", interval=tick * 2, depends_on=["a"]))
        else:
            added[0] += 1
            js.add_job(JobDefinition(f"extra{added[0]}", server, "Extra", interval=tick * (1 + k % 3), priority=k))
        proc.log.append((k, choice, tuple(js.running_jobs)))
        proc.done += 1
        return None

    def control(proc, event):
        js.stop()
        proc.done += 1

    ops = Proc("ops", op)
    ctl = Proc("control", control)
    sim = make_sim([js, sink, rec, server, slow, quick, ops, ctl], p.end())
    sim.schedule(js.start())  # before the run: stamped Epoch
    # operations: the burst at the arrival instants and then one every 1.5 ticks
    times = list(arr) + [t0 + (3 * tick_ns * k) // 2 for k in range(1, 12)]
    for i, t in enumerate(times):
        sim.schedule(ev(t, "op", ops, seq=i))
    sim.schedule(ev(max(times) + 6 * tick_ns, "end", ctl))
    comps = {"jobs": js, "jobsrv": server, "slow": slow, "quick": quick, "sink": sink, "rec": rec}
    return Scenario(sim, comps, FAMILY, True, len(times) + 1)


@scenario("scheduling.job_raw_tick", FAMILY)
def job_raw_tick(seed, params):
    """tick_interval taken directly from p.lat(0), unscaled; the scheduler is stopped after 120 tick intervals."""
    p = P(params, seed)
    tick = p.lat(0)
    arr = p.arrivals(5)
    t0 = min(arr)
    n_ticks = 120
    rec = Recorder("rec")
    worker = Replier("worker", tick * 1.5, downstream=rec)
    js = JobScheduler("jobs", tick_interval=tick)
    js.add_job(JobDefinition("w", worker, "Work", interval=tick, priority=0))
    js.add_job(JobDefinition("after", rec, "After", interval=tick * 2, depends_on=["w"]))

    def control(proc, event):
        if event.event_type == "begin":
            return [js.start()]
        js.stop()
        proc.done += 1
        return None

    ctl = Proc("control", control)
    sim = make_sim([js, rec, worker, ctl], p.end())
    for i, t in enumerate(arr):
        sim.schedule(ev(t, "Request", worker, seq=i))
    sim.schedule(ev(t0, "begin", ctl))
    sim.schedule(ev(t0 + max(1, int(tick * 1e9)) * n_ticks, "end", ctl))
    return Scenario(sim, {"jobs": js, "worker": worker, "rec": rec}, FAMILY, True, len(arr) + 2)


# ----------------------------------------------------------------------
# WorkStealingPool


def _pool_scenario(seed, params, workers, long_every, default_n):
    p = P(params, seed)
    sink = Sink("sink")
    pool = WorkStealingPool("pool", num_workers=workers(p), downstream=sink, default_processing_time=p.lat(0))
    arr = p.arrivals(default_n)
    nw = pool.num_workers
    sim = make_sim([pool, sink], p.end())
    for i, t in enumerate(arr):
        md = {"seq": i}
        # the pool deals a burst round robin: every nw-th task (those of worker 0) is long
        if long_every and i % nw == 0:
            md["processing_time"] = p.hold() * (2 + i % 3)
        elif i % 4 == 1:
            md["processing_time"] = p.lat(1 + i % 5)
        sim.schedule(ev(t, "Task", pool, **md))
    comps = {"pool": pool, "sink": sink, **{w.name: w for w in pool.workers}}
    return Scenario(sim, comps, FAMILY, True, len(arr))


@scenario("scheduling.work_stealing_uneven", FAMILY)
def work_stealing_uneven(seed, params):
    return _pool_scenario(seed, params, lambda p: p.count(0, 3, lo=2), True, 15)


@scenario("scheduling.work_stealing_single_worker", FAMILY)
def work_stealing_single_worker(seed, params):
    return _pool_scenario(seed, params, lambda p: 1, False, 8)


@scenario("scheduling.work_stealing_more_workers_than_tasks", FAMILY)
def work_stealing_more_workers_than_tasks(seed, params):
    return _pool_scenario(seed, params, lambda p: p.n(6) + 3, True, 6)


@scenario("scheduling.work_stealing_custom_key", FAMILY)
def work_stealing_custom_key(seed, params):
    """Custom processing_time_key, no downstream; a second wave arrives while the workers are busy."""
    p = P(params, seed)
    pool = WorkStealingPool("pool", num_workers=p.count(1, 2), processing_time_key="cost", default_processing_time=p.lat(2))
    arr = p.arrivals(10)
    hold_ns = max(1, int(p.hold() * 1e9))
    wave = [min(arr) + hold_ns * k + (k % 2) for k in range(1, 9)]
    sim = make_sim([pool], p.end())
    for i, t in enumerate(arr + wave):
        md = {"seq": i}
        if i % 3 == 0:
            md["cost"] = p.hold() * (1 + i % 4)
        sim.schedule(ev(t, "Task", pool, **md))
    comps = {"pool": pool, **{w.name: w for w in pool.workers}}
    return Scenario(sim, comps, FAMILY, True, len(arr) + len(wave))


# ----------------------------------------------------------------------
# degenerate operations / zero durations


@scenario("scheduling.work_stealing_zero_time", FAMILY)
def work_stealing_zero_time(seed, params):
    """Most tasks take ZERO simulated time (default_processing_time 0.0), a few are long; p.count workers."""
    p = P(params, seed)
    sink = Sink("sink")
    pool = WorkStealingPool("pool", num_workers=p.count(0, 3), downstream=sink, default_processing_time=0.0)
    arr = p.arrivals(14)
    sim = make_sim([pool, sink], p.end())
    for i, t in enumerate(arr):
        md = {"seq": i}
        if i % 5 == 2:
            md["processing_time"] = p.hold()
        elif i % 5 in (1, 4):
            md["processing_time"] = p.lat(i)
        sim.schedule(ev(t, "Task", pool, **md))
    comps = {"pool": pool, "sink": sink, **{w.name: w for w in pool.workers}}
    return Scenario(sim, comps, FAMILY, True, len(arr))


@scenario("scheduling.work_stealing_one_worker_zero_time", FAMILY)
def work_stealing_one_worker_zero_time(seed, params):
    """ONE worker, explicit processing_time 0 on every second task, no downstream."""
    p = P(params, seed)
    pool = WorkStealingPool("pool", num_workers=1, default_processing_time=p.lat(0))
    arr = p.arrivals(9)
    sim = make_sim([pool], p.end())
    for i, t in enumerate(arr):
        md = {"seq": i}
        if i % 2 == 0:
            md["processing_time"] = 0.0
        sim.schedule(ev(t, "Task", pool, **md))
    return Scenario(sim, {"pool": pool, **{w.name: w for w in pool.workers}}, FAMILY, True, len(arr))


def _degenerate_jobs(seed, params, with_deps):
    """interval 0 ("every tick"), interval << tick, interval >> tick; zero-time and slow targets."""
    p = P(params, seed)
    tick = period(p, 0, 600)  # the 30-tick script fits into half of the run
    tick_ns = max(1, int(tick * 1e9))
    instant = Recorder("instant")  # completes in zero simulated time
    zero = Replier("zero", 0.0, downstream=instant)  # generator that yields a zero delay
    slow = Replier("slow", tick * 3.3)  # overruns every interval below
    quick = Replier("quick", below(p.lat(1), tick))
    sink = Sink("sink")
    server = Server("jobsrv", concurrency=1, service_time=ConstantLatency(below(p.lat(2), tick)), downstream=sink)
    js = JobScheduler("jobs", tick_interval=tick)
    dep = (lambda *names: list(names)) if with_deps else (lambda *names: [])
    js.add_job(JobDefinition("every", instant, "Every", interval=0.0, priority=3))
    js.add_job(JobDefinition("every_gen", zero, "EveryGen", interval=0.0, priority=2, depends_on=dep("every")))
    js.add_job(JobDefinition("tiny", quick, "Tiny", interval=tick / 1000.0, depends_on=dep("every_gen")))
    js.add_job(JobDefinition("huge", instant, "Huge", interval=tick * 50.0, priority=9))
    js.add_job(JobDefinition("overrun", slow, "Overrun", interval=tick, depends_on=dep("every")))
    js.add_job(JobDefinition("queued", server, "Queued", interval=0.0, priority=1, depends_on=dep("overrun")))
    for k in range(p.count(0, 2, hi=9)):
        js.add_job(JobDefinition(f"x{k}", instant if k % 2 else zero, "X", interval=0.0 if k % 3 else tick * 0.5, priority=k))
    arr = p.arrivals(6)
    t0 = min(arr)

    def control(proc, event):
        kind = event.event_type
        if kind == "begin":
            return [js.start()]
        if kind == "disable":
            js.disable_job("overrun")  # while it runs
            js.disable_job("every")
        elif kind == "enable":
            js.enable_job("overrun")
            js.enable_job("every")
        elif kind == "remove":
            js.remove_job("overrun")  # its _job_complete arrives for an unknown job
        else:
            js.stop()
            proc.done += 1
        return None

    ctl = Proc("control", control)
    sim = make_sim([js, instant, zero, slow, quick, server, sink, ctl], p.end())
    for i, t in enumerate(arr):
        sim.schedule(ev(t, "Request", server, seq=i))
    sim.schedule(ev(t0, "begin", ctl))
    sim.schedule(ev(t0 + tick_ns * 4 + tick_ns // 2, "disable", ctl))
    sim.schedule(ev(t0 + tick_ns * 9, "enable", ctl))
    sim.schedule(ev(t0 + tick_ns * 14 + 1, "remove", ctl))
    sim.schedule(ev(t0 + tick_ns * 30, "end", ctl))
    comps = {"jobs": js, "instant": instant, "zero": zero, "slow": slow, "quick": quick, "jobsrv": server, "sink": sink}
    return Scenario(sim, comps, FAMILY, True, len(arr) + 5)


@scenario("scheduling.job_interval_zero", FAMILY)
def job_interval_zero(seed, params):
    return _degenerate_jobs(seed, params, with_deps=False)


@scenario("scheduling.job_interval_zero_deps", FAMILY)
def job_interval_zero_deps(seed, params):
    return _degenerate_jobs(seed, params, with_deps=True)


@scenario("scheduling.job_only_instant_targets", FAMILY)
def job_only_instant_targets(seed, params):
    """Every job has interval 0, no depends_on and a target that completes in zero time; tick straight from p.lat."""
    p = P(params, seed)
    tick = p.lat(0)
    tick_ns = max(1, int(tick * 1e9))
    instant = Recorder("instant")
    zero = Replier("zero", 0.0)
    js = JobScheduler("jobs", tick_interval=tick)
    for k in range(p.count(0, 3)):
        js.add_job(JobDefinition(f"j{k}", zero if k % 2 else instant, "J", interval=0.0, priority=k % 3))
    arr = p.arrivals(4)
    t0 = min(arr)

    def control(proc, event):
        if event.event_type == "begin":
            return [js.start()]
        js.stop()
        proc.done += 1
        return None

    ctl = Proc("control", control)
    sim = make_sim([js, instant, zero, ctl], p.end())
    for i, t in enumerate(arr):
        sim.schedule(ev(t, "Poke", instant, seq=i))
    sim.schedule(ev(t0, "begin", ctl))
    sim.schedule(ev(t0 + tick_ns * 60, "end", ctl))
    return Scenario(sim, {"jobs": js, "instant": instant, "zero": zero}, FAMILY, True, len(arr) + 2)

"""Developer CLI:  python -m hsverif.scenarios [pattern] [--seed N] [--hostile K] [--snap]

Runs matching catalogue builders under the C07 probes and prints one line each.
"""
import argparse
import fnmatch
import json
import random
import sys
import time
import traceback

from hsverif.scenarios import CATALOGUE, FAMILY_OF, LOAD_ERRORS


def C07Probe_run(sc):
    """Run a scenario under capped probes (never run catalogue scenarios bare: some spin)."""
    from hsverif.c07_probe import C07Probe

    with C07Probe(instant_cap=20000, total_cap=400000) as p:
        try:
            p.run(sc.sim)
        except Exception as exc:  # noqa: BLE001
            print("      library exception:", type(exc).__name__, exc)


def main():
    ap = argparse.ArgumentParser()
    ap.add_argument("pattern", nargs="?", default="*")
    ap.add_argument("--seed", type=int, default=0)
    ap.add_argument("--hostile", type=int, default=0, help="also run K hostile parameter draws")
    ap.add_argument("--snap", action="store_true")
    ap.add_argument("-v", action="store_true")
    a = ap.parse_args()
    from hsverif.props.c07 import run_scenario
    from hsverif.scenarios._kit import hostile_params
    names = [n for n in sorted(CATALOGUE) if fnmatch.fnmatch(n, a.pattern) or a.pattern in n]
    if LOAD_ERRORS:
        print("missing modules:", sorted(LOAD_ERRORS))
    bad = 0
    for n in names:
        plist = [{}]
        rng = random.Random(a.seed)
        plist += [hostile_params(rng, "quick") for _ in range(a.hostile)]
        for k, params in enumerate(plist):
            t0 = time.monotonic()
            try:
                res = run_scenario(n, a.seed + k, params)
            except Exception:
                bad += 1
                print(f"{n:45s} #{k} EXCEPTION\n{traceback.format_exc()[-1500:]}")
                continue
            dt = time.monotonic() - t0
            drv = sorted({c for k2, v in res.sets.items() if k2.startswith('driven/') for c in v})
            o = res.obs
            flag = "VIOL" if res.violations else ("INCONCL" if res.inconclusive else ("ok" if res.nontrivial else "trivial"))
            print(
                f"{n:45s} #{k} {flag:8s} deliv={o.get('deliveries_monitored',0):6d} fut={o.get('future_library_emissions',0):5d} "
                f"resum={o.get('library_generator_resumes_after_delay',0):4d} parks={o.get('parks_seen',0):4d} "
                f"tt={o.get('time_travel_records',0):3d} {dt*1000:6.0f}ms driven={','.join(drv)}"
            )
            for v in res.violations:
                print(f"      -> {v.oracle} | {v.component} | {v.shape} :: {v.detail[:260]}")
            if res.inconclusive:
                print("      inconclusive:", res.inconclusive)
            if a.snap and k == 0:
                from hsverif.scenarios import build, snapshot

                sc = build(n, a.seed, {})
                C07Probe_run(sc)
                print("      snapshot:", json.dumps(snapshot(sc), default=str)[:600])
    return 1 if bad else 0


if __name__ == "__main__":
    sys.exit(main())

"""Generic hostile layer over the numeric constructor parameters of library classes.

While a scenario builder runs, `__init__` of every class defined under
`happysimulator.{components,load,distributions,faults,instrumentation}` is wrapped
(harness-side, transparent, removed again before the simulation runs).  Every numeric
constructor argument - explicit or defaulted - is a *site* `(ordinal, class, parameter,
value, kind)`:

    time      latency / timeout / interval / delay / pause / ttl / cooldown / window ...
    periodic  a time whose name says it is a period (interval / tick / heartbeat ...)
    count     capacity / size / max_* / num_* / concurrency / threshold / batch ...
    prob      probability-like (loss / failure / no-show rate, probability)

`plan_mutations()` (pass 1: record only) picks k sites with the case's own RNG and a
replacement from the hostile vocabulary:

    time      0 (only if the constructor accepts it), 1 ns, 0.0003, 0.3, 0.29, 2.01,
              value x1000, /1000, x7, /7 (much larger / smaller than the sibling parameters)
    periodic  0.0003, 0.3, 0.29, 2.01, value x7, /7, x50   (never 0 or 1 ns: a zero period
              cannot advance time by definition, and 1 ns periods have dedicated builders)
    count     1, 2, 3, 5, 9, 10, 11, 12
    prob      0.0, 1.0
    guarded   (table GUARDED: parameters the library itself guards with `> 0` / `<= 0`) additionally -1 and -1 ns;
              no other parameter ever gets a negative value

`CtorMutator(plan)` (pass 2) applies them; a replacement the constructor rejects
(ValueError / TypeError / ...) is rolled back to the original value and reported as
rejected.  Everything is deterministic given (scenario, seed, params, mutate seed), so a
case stays a JSON value.
"""

from __future__ import annotations

import inspect
import random
import re
import sys

_PREFIXES = (
    "happysimulator.components",
    "happysimulator.load",
    "happysimulator.distributions",
    "happysimulator.faults",
    "happysimulator.instrumentation",
)
_SKIP_NAMES = {"self", "name", "seed", "precision", "port", "at", "start", "end", "restart_at"}
_PROB_RE = re.compile(r"(probab|loss_rate|failure_rate|pass_rate|no_show_rate|error_rate)", re.I)
_RATIO_RE = re.compile(
    r"(rate|fraction|factor|ratio|percent|weight|alpha|beta|utili[sz]ation|pressure|temperature|sensitivity|price|cost|"
    r"conformity|confidence|bps|bytes|margin|compression|phi|openness|score|target_|spend|budget|cpa|share)",
    re.I,
)
_PERIODIC_RE = re.compile(r"(interval|period|tick|every|heartbeat|cadence|frequency)", re.I)
_TIME_RE = re.compile(
    r"(latency|timeout|interval|delay|duration|time|ttl|cooldown|pause|period|lease|patience|window|_s$|_ms$|jitter|"
    r"quantum|rtt|lifetime|deadline|tick|backoff|lateness|heartbeat|mttr|mtbf)",
    re.I,
)
_COUNT_RE = re.compile(
    r"(capacity|size|count|max_|min_|num_|parties|concurrency|workers|threshold|batch|depth|replicas|partitions|retries|"
    r"attempts|hedges|limit|order|levels|permits|quantity|stock|point|connections|instances|pages|flows|entries|subscribers|"
    r"redeliveries|waiters|readers|requests)",
    re.I,
)
TIME_CHOICES = ("zero", "ns", 0.0003, 0.3, 0.29, 2.01, "x1000", "/1000", "x7", "/7")
PERIODIC_CHOICES = (0.0003, 0.3, 0.29, 2.01, "x7", "/7", "x50")
COUNT_CHOICES = (1, 2, 3, 5, 9, 10, 11, 12)
PROB_CHOICES = (0.0, 1.0)
_REJECT = (ValueError, TypeError, AssertionError, ZeroDivisionError, OverflowError, KeyError, IndexError)

_targets = None  # [(cls, original __init__, signature)]


def _collect_targets():
    global _targets
    from happysimulator.core.event import Event

    out = []
    seen = set()
    for modname, mod in list(sys.modules.items()):
        if mod is None or not modname.startswith(_PREFIXES):
            continue
        for obj in list(vars(mod).values()):
            if not inspect.isclass(obj) or obj.__module__ != modname or obj in seen:
                continue
            seen.add(obj)
            init = obj.__dict__.get("__init__")
            if not inspect.isfunction(init):
                continue
            if issubclass(obj, (Event, BaseException)) or getattr(obj, "_is_protocol", False):
                continue
            try:
                sig = inspect.signature(init)
            except (TypeError, ValueError):
                continue
            out.append((obj, init, sig))
    _targets = out
    return out


# Classification by USE where the parameter name misleads: these "timeouts" / "times" are the period of a
# self-rearming timer (the handler of the timer event schedules the next one `self.now + <param>` later), so
# they get the periodic vocabulary (never 0, never 1 ns: a zero period cannot advance time by definition).
# Audit of every `Event(time=self.now + self._<param>, target=self)` site of the library (2026-09, e56b2f3):
#   class              parameter               re-armed by                                  event
USE_OVERRIDES: dict[tuple[str, str], str] = {
    ("LeaderElection", "election_timeout"): "periodic",   # _handle_timeout_check (non-leader period)   ElectionTimeoutCheck
    ("RaftNode", "election_timeout_min"): "periodic",     # _schedule_election_timeout after each timeout RaftElectionTimeout
    ("RaftNode", "election_timeout_max"): "periodic",     #   (uniform(min, max) is the period of repeated elections)
    ("ConnectionPool", "idle_timeout"): "periodic",       # _handle_idle_timeout re-arms at min_connections _pool_idle_timeout
    ("BreakdownScheduler", "mean_time_to_failure"): "periodic",  # _Breakdown -> _RepairComplete -> _Breakdown cycle
    ("BreakdownScheduler", "mean_repair_time"): "periodic",      #   (the two delays are the period of the up/down cycle)
}
# Audited and left as one-shot "time" (armed once per request / grant / batch, bounded re-arming): Client / PooledClient /
# Sidecar / APIGateway / Saga / TimeoutWrapper / Fallback / Bulkhead timeouts, HealthChecker.timeout, Hedge.hedge_delay
# (<= max_hedges), retry delays (<= max_attempts), PaxosNode.retry_delay (a retry needs a network round trip),
# MembershipProtocol.suspicion_timeout, DistributedLock.lease_duration (one expiry per grant), BatchProcessor.timeout_s,
# MessageQueue.redelivery_delay (<= max_redeliveries), InventoryBuffer / PerishableInventory.lead_time, AutoScaler cooldowns,
# ConsumerGroup.rebalance_delay, GC pauses.  Everything named interval / period / tick / heartbeat is periodic by name.


# Parameters for which the library itself gives zero / negative values a meaning ("<= 0 disables", "-1 = no timeout")
# through an explicit guard (`if self.<param> > 0:` / `if self.<param> <= 0: return`): only these also get negative
# replacements (-1 and -1 ns).  Arbitrary negative latencies stay outside the vocabulary ("non-zero latencies").
# From `grep -E "self\.[_a-z]+ (>|<=) 0"` over components (7d1a913); a constructor that rejects the value rolls it back.
#   class            parameter                 guard                                             kind
GUARDED: dict[tuple[str, str], str] = {
    ("BatchProcessor", "timeout_s"): "guarded",               # handle_event: `... and self.timeout_s > 0`
    ("APIGateway", "auth_latency"): "guarded",                # _handle_request_with_auth: `if self._auth_latency > 0`
    ("OutboxRelay", "relay_latency"): "guarded",              # _handle_poll: `if self._relay_latency > 0` (ctor rejects < 0)
    ("Agent", "action_delay"): "guarded",                     # `if self.action_delay > 0`
    ("Agent", "heartbeat_interval"): "guarded-periodic",      # `if self.heartbeat_interval > 0` / `<= 0: return`
    ("LeaderNode", "anti_entropy_interval"): "guarded-periodic",  # get_anti_entropy_event: `<= 0 or not peers` -> None
    ("CRDTStore", "gossip_interval"): "guarded-periodic",     # get_gossip_event: `<= 0 or not peers` -> None
}
GUARDED_CHOICES = ("neg1", "negns", "zero", "ns", 0.0003, 0.3, "x7", "/7")
GUARDED_PERIODIC_CHOICES = ("neg1", "negns", "zero", 0.0003, 0.3, "x7", "/7")  # <= 0 disables the timer: allowed


def kind_of(param: str, value, cls: str | None = None) -> str | None:
    if isinstance(value, bool) or not isinstance(value, (int, float)):
        return None
    if param in _SKIP_NAMES:
        return None
    if value != value or value in (float("inf"), float("-inf")):
        return None
    if cls is not None and (cls, param) in GUARDED:
        return GUARDED[(cls, param)]
    if cls is not None and (cls, param) in USE_OVERRIDES:
        return USE_OVERRIDES[(cls, param)]
    if _PROB_RE.search(param):
        return "prob"
    is_time = bool(_TIME_RE.search(param))
    if _RATIO_RE.search(param) and not is_time:
        return None
    if is_time and not (isinstance(value, int) and _COUNT_RE.search(param) and not param.endswith(("_s", "_ms"))):
        return "periodic" if _PERIODIC_RE.search(param) else "time"
    if isinstance(value, int) and _COUNT_RE.search(param):
        return "count"
    return None


def replacement(kind: str, value, choice):
    """Concrete replacement for a site value; None when it would not change anything."""
    if kind == "count":
        new = int(choice)
    elif kind == "prob":
        new = float(choice)
    else:
        v = float(value)
        if choice == "neg1":
            new = -1.0
        elif choice == "negns":
            new = -1e-9
        elif choice == "zero":
            new = 0.0
        elif choice == "ns":
            new = 1e-9
        elif isinstance(choice, str):
            f = float(choice[1:])
            new = v * f if choice[0] == "x" else v / f
            if new != 0 and new < 1e-9:
                new = 1e-9
        else:
            new = float(choice)
        new = float(f"{new:.12g}")
    return None if new == value else new


class _Interposer:
    """Context manager wrapping the constructors; records sites, optionally applies a plan."""

    def __init__(self, plan: dict | None = None):
        # plan: {ordinal(str|int): {"cls":..., "param":..., "value": new}}
        self.plan = {int(k): v for k, v in (plan or {}).items()}
        self.sites: list[dict] = []
        self.applied: list[dict] = []
        self._n = 0
        self._installed: list = []
        self._depth_guard = set()

    def __enter__(self):
        targets = _targets if _targets is not None else _collect_targets()
        me = self

        def make(cls, orig, sig):
            def __init__(obj, *args, **kwargs):
                # a subclass calling super().__init__ re-enters with the same object: judge each
                # (class, parameter) once, at the class that was actually instantiated
                if type(obj) is not cls and id(obj) in me._depth_guard:
                    return orig(obj, *args, **kwargs)
                # only constructions written in builder / harness code are configuration; objects the
                # library builds for itself (queues inside a Server, state and stats records) are not
                caller = sys._getframe(1).f_globals.get("__name__", "")
                if caller.startswith("happysimulator."):
                    return orig(obj, *args, **kwargs)
                try:
                    bound = sig.bind(obj, *args, **kwargs)
                except TypeError:
                    return orig(obj, *args, **kwargs)
                bound.apply_defaults()
                changed = []
                for pname, val in list(bound.arguments.items()):
                    k = kind_of(pname, val, cls.__name__)
                    if k is None:
                        continue
                    ordinal = me._n
                    me._n += 1
                    me.sites.append({"ordinal": ordinal, "cls": cls.__name__, "param": pname, "value": val, "kind": k})
                    step = me.plan.get(ordinal)
                    if step is not None and step.get("cls") == cls.__name__ and step.get("param") == pname:
                        new = step["value"]
                        if (k == "periodic" and float(new) < 2e-9) or (k == "guarded-periodic" and 0 < float(new) < 2e-9):
                            # an explicit (older) plan asks for a zero / 1 ns period: outside the vocabulary
                            me.applied.append({"ordinal": ordinal, "cls": cls.__name__, "param": pname, "from": val, "to": new,
                                               "kind": k, "rejected": "zero / 1 ns period is outside the mutation vocabulary"})
                            continue
                        if isinstance(val, int) and not isinstance(val, bool) and k == "count":
                            new = int(new)
                        bound.arguments[pname] = new
                        changed.append({"ordinal": ordinal, "cls": cls.__name__, "param": pname, "from": val, "to": new, "kind": k})
                me._depth_guard.add(id(obj))
                try:
                    if not changed:
                        return orig(obj, *args, **kwargs)
                    try:
                        r = orig(*bound.args, **bound.kwargs)
                        me.applied.extend(changed)
                        return r
                    except _REJECT as exc:
                        for c in changed:
                            c["rejected"] = f"{type(exc).__name__}: {exc}"[:120]
                        me.applied.extend(changed)
                        return orig(obj, *args, **kwargs)
                finally:
                    me._depth_guard.discard(id(obj))

            __init__.__wrapped__ = orig
            return __init__

        for cls, orig, sig in targets:
            try:
                setattr(cls, "__init__", make(cls, orig, sig))
                self._installed.append((cls, orig))
            except (TypeError, AttributeError):
                pass
        return self

    def __exit__(self, *exc):
        for cls, orig in self._installed:
            try:
                setattr(cls, "__init__", orig)
            except (TypeError, AttributeError):
                pass
        self._installed.clear()
        return False


def record_sites(build) -> list[dict]:
    """Pass 1: run `build()` with recording constructors; the built scenario is discarded."""
    with _Interposer() as ip:
        build()
    return ip.sites


def plan_mutations(sites: list[dict], seed: int, k: int = 1) -> dict:
    """Choose up to k sites and replacements; returns a JSON-able plan {ordinal: {...}}."""
    rng = random.Random(f"ctor/{seed}")
    if not sites:
        return {}
    plan: dict = {}
    # prefer distinct (class, parameter) pairs: draw the pair first, then one of its instances
    pairs: dict[tuple, list[dict]] = {}
    for s in sites:
        pairs.setdefault((s["cls"], s["param"]), []).append(s)
    keys = sorted(pairs)
    for _ in range(max(1, k) * 4):
        if len(plan) >= k:
            break
        key = rng.choice(keys)
        inst = pairs[key]
        # mutate every instance of the pair half of the time (all replicas alike), else one of them
        chosen = inst if rng.random() < 0.5 else [rng.choice(inst)]
        kind = chosen[0]["kind"]
        choices = {
            "time": TIME_CHOICES, "periodic": PERIODIC_CHOICES, "count": COUNT_CHOICES, "prob": PROB_CHOICES,
            "guarded": GUARDED_CHOICES, "guarded-periodic": GUARDED_PERIODIC_CHOICES,
        }[kind]  # fmt: skip
        choice = rng.choice(choices)
        for s in chosen:
            new = replacement(kind, s["value"], choice)
            if new is not None:
                plan[str(s["ordinal"])] = {"cls": s["cls"], "param": s["param"], "value": new, "choice": str(choice)}
    return plan


def build_mutated(build, plan: dict):
    """Pass 2: run `build()` with the plan applied; returns (scenario, applied list)."""
    with _Interposer(plan) as ip:
        sc = build()
    return sc, ip.applied


# ----------------------------------------------------------------------
# derived scenarios: an existing builder with fixed constructor values


def derive(base: str, overrides: dict[tuple[str, str], float], doc: str = ""):
    """Builder that builds catalogue scenario `base` with every construction site of the given
    (class, parameter) pairs replaced by a fixed value (rolled back where the constructor rejects it).

        derive("industrial.batch_processor_timeout", {("BatchProcessor", "timeout_s"): -1.0})
    """

    def builder(seed, params):
        from hsverif.scenarios import CATALOGUE

        def build():
            return CATALOGUE[base](seed, params)

        sites = record_sites(build)
        plan = {
            str(s["ordinal"]): {"cls": s["cls"], "param": s["param"], "value": overrides[(s["cls"], s["param"])], "choice": "derived"}
            for s in sites
            if (s["cls"], s["param"]) in overrides and overrides[(s["cls"], s["param"])] != s["value"]
        }
        sc, applied = build_mutated(build, plan)
        sc.notes = (sc.notes + " " if sc.notes else "") + f"derived from {base}: {[(a['cls'], a['param'], a['to'], a.get('rejected')) for a in applied]}"
        sc.extras = dict(sc.extras or {}, derived_from=base, derived_applied=applied)
        return sc

    builder.__name__ = "derived_" + base.replace(".", "_")
    builder.__doc__ = doc or f"{base} with {overrides}"
    return builder

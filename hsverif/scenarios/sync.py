"""sync family: Mutex, Semaphore, RWLock, Barrier, Condition, Resource.

Workers start at the arrival instants (bursts on one nanosecond), hold the
primitive for a *positive* time while the others wait.
"""

from __future__ import annotations

from happysimulator.components.resource import Resource
from happysimulator.components.sync import Barrier, Condition, Mutex, RWLock, Semaphore

from hsverif.scenarios import Scenario, scenario
from hsverif.scenarios._kit import P, Proc, ev, make_sim


def _start(sim, procs, arrivals):
    for i, t in enumerate(arrivals):
        sim.schedule(ev(t, "start", procs[i % len(procs)], worker=i))


@scenario("sync.mutex_contention", "sync")
def mutex_contention(seed, params):
    p = P(params, seed)
    m = Mutex("mutex")
    hold = p.hold()

    def body(proc, event):
        yield from m.acquire(owner=proc.name)
        yield hold
        m.release()
        proc.done += 1

    arr = p.arrivals(4)
    procs = [Proc(f"w{i}", body) for i in range(len(arr))]
    sim = make_sim([m, *procs], p.end())
    _start(sim, procs, arr)
    return Scenario(sim, {"mutex": m, **{q.name: q for q in procs}}, "sync", True, len(arr))


@scenario("sync.semaphore_contention", "sync")
def semaphore_contention(seed, params):
    p = P(params, seed)
    cap = p.cap(2)
    s = Semaphore("sem", initial_count=cap)
    hold = p.hold()

    def body(proc, event):
        k = 1 + (event.context["metadata"]["worker"] % cap)
        yield from s.acquire(k)
        yield hold
        s.release(k)
        proc.done += 1

    arr = p.arrivals(5)
    procs = [Proc(f"w{i}", body) for i in range(len(arr))]
    sim = make_sim([s, *procs], p.end())
    _start(sim, procs, arr)
    return Scenario(sim, {"sem": s}, "sync", True, len(arr))


@scenario("sync.rwlock_mixed", "sync")
def rwlock_mixed(seed, params):
    p = P(params, seed)
    maxr = p.x("max_readers", None)
    lock = RWLock("rw", max_readers=maxr)
    hold = p.hold()

    def body(proc, event):
        i = event.context["metadata"]["worker"]
        if i % 3 == 1:
            yield from lock.acquire_write()
            yield hold
            lock.release_write()
        else:
            yield from lock.acquire_read()
            yield hold * 0.5
            lock.release_read()
        proc.done += 1

    arr = p.arrivals(6)
    procs = [Proc(f"w{i}", body) for i in range(len(arr))]
    sim = make_sim([lock, *procs], p.end())
    _start(sim, procs, arr)
    return Scenario(sim, {"rw": lock}, "sync", True, len(arr))


@scenario("sync.barrier_staggered", "sync")
def barrier_staggered(seed, params):
    """Parties reach the barrier at different (positive) times; the last one breaks it."""
    p = P(params, seed)
    arr = p.arrivals(3)
    parties = max(2, min(len(arr), p.cap(3)))
    n = (len(arr) // parties) * parties or parties
    arr = (arr + [arr[-1]] * parties)[:n]
    b = Barrier("barrier", parties=parties)
    lat = p.lat(0)

    def body(proc, event):
        i = event.context["metadata"]["worker"]
        yield lat * (1 + i % parties)  # staggered: early parties must wait a positive time
        yield from b.wait()
        proc.done += 1

    procs = [Proc(f"w{i}", body) for i in range(n)]
    sim = make_sim([b, *procs], p.end())
    _start(sim, procs, arr)
    return Scenario(sim, {"barrier": b}, "sync", True, n)


@scenario("sync.condition_producer_consumer", "sync")
def condition_producer_consumer(seed, params):
    """Consumers wait on a Condition; a producer notifies after a positive delay."""
    p = P(params, seed)
    m = Mutex("cv.lock")
    cv = Condition("cv", m)
    items: list[int] = []
    lat = p.lat(0)
    arr = p.arrivals(3)

    def consumer(proc, event):
        yield from m.acquire(owner=proc.name)
        ok = yield from cv.wait_for(lambda: len(items) > 0)
        if ok and items:
            items.pop()
        m.release()
        proc.done += 1

    def producer(proc, event):
        for _ in range(len(arr)):
            yield lat
            yield from m.acquire(owner=proc.name)
            items.append(1)
            cv.notify(1)
            m.release()
        proc.done += 1

    cons = [Proc(f"c{i}", consumer) for i in range(len(arr))]
    prod = Proc("producer", producer)
    sim = make_sim([cv, m, prod, *cons], p.end())
    _start(sim, cons, arr)
    sim.schedule(ev(min(arr), "start", prod, worker=-1))
    return Scenario(sim, {"cv": cv, "lock": m}, "sync", True, len(arr) + 1)


@scenario("sync.condition_notify_all", "sync")
def condition_notify_all(seed, params):
    p = P(params, seed)
    m = Mutex("cv.lock")
    cv = Condition("cv", m)
    lat = p.lat(1)
    arr = p.arrivals(3)
    flag = [False]

    def waiter(proc, event):
        yield from m.acquire(owner=proc.name)
        while not flag[0]:
            yield from cv.wait()
        m.release()
        proc.done += 1

    def notifier(proc, event):
        yield lat * 3
        yield from m.acquire(owner=proc.name)
        flag[0] = True
        cv.notify_all()
        yield lat  # keeps the mutex for a positive time while the woken waiters queue on it
        m.release()
        proc.done += 1

    ws = [Proc(f"c{i}", waiter) for i in range(len(arr))]
    nt = Proc("notifier", notifier)
    sim = make_sim([cv, m, nt, *ws], p.end())
    _start(sim, ws, arr)
    sim.schedule(ev(max(arr), "start", nt, worker=-1))
    return Scenario(sim, {"cv": cv, "lock": m}, "sync", True, len(arr) + 1)


@scenario("sync.resource_contention", "sync")
def resource_contention(seed, params):
    """Resource (SimFuture based) under the same contention: the well-behaved reference."""
    p = P(params, seed)
    cap = p.cap(2)
    r = Resource("res", capacity=cap)
    hold = p.hold()

    def body(proc, event):
        k = 1 + (event.context["metadata"]["worker"] % cap)
        grant = yield r.acquire(k)
        yield hold
        grant.release()
        proc.done += 1

    arr = p.arrivals(6)
    procs = [Proc(f"w{i}", body) for i in range(len(arr))]
    sim = make_sim([r, *procs], p.end())
    _start(sim, procs, arr)
    return Scenario(sim, {"res": r}, "sync", True, len(arr))


# ----------------------------------------------------------------------
# degenerate sizes and zero holds


@scenario("sync.degenerate_sizes_and_zero_hold", "sync")
def degenerate_sizes_and_zero_hold(seed, params):
    """Barrier(parties=1), Semaphore(1) taken for the whole count, RWLock(max_readers=1), Resource(capacity=1),
    holders that release in the same instant they acquired (zero hold) mixed with positive holds,
    a Condition notified with nobody waiting, try_acquire paths."""
    p = P(params, seed)
    b1 = Barrier("b1", parties=1)
    bn = Barrier("bn", parties=p.count(0, 2))
    sem = Semaphore("sem", initial_count=p.count(1, 1))
    rw = RWLock("rw", max_readers=1)
    m = Mutex("m")
    cv = Condition("cv", Mutex("cv.lock"))
    res = Resource("res", capacity=1)
    hold = p.hold()
    arr = p.arrivals(6)
    n_bn = (len(arr) // bn.parties) * bn.parties

    def body(proc, event):
        i = event.context["metadata"]["worker"]
        h = 0.0 if i % 2 == 0 else hold
        yield from b1.wait()
        if i < n_bn:
            yield from bn.wait()
        yield from sem.acquire(sem.capacity if i % 3 == 0 else 1)
        yield h
        sem.release(sem.capacity if i % 3 == 0 else 1)
        if i % 2:
            yield from rw.acquire_write()
            yield h
            rw.release_write()
        else:
            yield from rw.acquire_read()
            yield h
            rw.release_read()
        if m.try_acquire(proc.name):
            m.release()
        yield from m.acquire(proc.name)
        yield h
        m.release()
        cv.notify()
        cv.notify_all()
        g = yield res.acquire(1)
        yield h
        g.release()
        g.release()
        proc.done += 1

    procs = [Proc(f"w{i}", body) for i in range(len(arr))]
    sim = make_sim([b1, bn, sem, rw, m, cv, res, *procs], p.end())
    _start(sim, procs, arr)
    return Scenario(sim, {"b1": b1, "bn": bn, "sem": sem, "rw": rw, "m": m, "res": res}, "sync", True, len(arr))

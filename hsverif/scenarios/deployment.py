"""deployment family: AutoScaler (every ScalingPolicy), CanaryDeployer (every MetricEvaluator), RollingDeployer.

All on top of a LoadBalancer with `Server` backends that receive traffic (a
burst at the arrival instants plus a wave spread over the deployment) while the
deployment / scaling runs.  Servers created later by the `server_factory` get
their clock from the deployer (`set_clock(self._clock)` in the library).
"""

from __future__ import annotations

from dataclasses import dataclass

from happysimulator.components.common import Sink
from happysimulator.components.deployment import (
    AutoScaler,
    CanaryDeployer,
    CanaryStage,
    ErrorRateEvaluator,
    LatencyEvaluator,
    QueueDepthScaling,
    RollingDeployer,
    StepScaling,
    TargetUtilization,
)
from happysimulator.components.load_balancer import LeastConnections, LoadBalancer, RoundRobin, WeightedRoundRobin
from happysimulator.components.server import Server

from hsverif.scenarios import Scenario, scenario
from hsverif.scenarios._kit import ConstantLatency, Entity, P, Proc, ev, make_sim

FAMILY = "deployment"


def period(p: P, i: int, max_ticks: int = 600) -> float:
    """A periodic interval taken from p.lat(i), scaled by 10 until about max_ticks fit into p.end()."""
    iv = p.lat(i)
    while p.end() / iv > max_ticks:
        iv *= 10.0
    while p.end() / iv < max_ticks / 10.0:
        iv /= 10.0
    return iv


def below(v: float, limit: float) -> float:
    while v >= limit:
        v /= 3.0
    return v


def _wave(t0: int, span_ns: int, n: int) -> list[int]:
    gap = max(1, span_ns // n)
    return [t0 + k * gap + (k % 3) for k in range(1, n + 1)]


def _traffic(sim, lb, times):
    for i, t in enumerate(times):
        sim.schedule(ev(t, "Request", lb, client_id=f"c{i % 4}", seq=i))


class _Factory:
    """server_factory: real Servers (service time from p.lat) wired to the sink; remembers what it built."""

    def __init__(self, p: P, sink, service_s=None, concurrency=None, make=None):
        self.p, self.sink = p, sink
        self.service_s = service_s
        self.concurrency = concurrency
        self.make = make
        self.built: list = []

    def __call__(self, name: str):
        k = len(self.built)
        if self.make is not None:
            s = self.make(name, k)
        else:
            svc = self.service_s if self.service_s is not None else self.p.lat(3 + k)
            s = Server(name, concurrency=self.concurrency or self.p.cap(1), service_time=ConstantLatency(svc), downstream=self.sink)
        self.built.append(s)
        return s


@dataclass
class _BackendStats:
    requests_completed: int = 0
    requests_rejected: int = 0


class FlakyBackend(Entity):
    """Harness backend produced by a server_factory: takes `service_s`, rejects every `reject_every`-th request."""

    def __init__(self, name: str, service_s: float, reject_every: int = 0, downstream=None):
        super().__init__(name)
        self.service_s = service_s
        self.reject_every = reject_every
        self.downstream = downstream
        self.received = 0
        self.completed = 0
        self.rejected = 0
        self.active_requests = 0

    @property
    def stats(self):
        return _BackendStats(self.completed, self.rejected)

    def handle_event(self, event):
        self.received += 1
        n = self.received
        self.active_requests += 1
        yield self.service_s
        self.active_requests -= 1
        if self.reject_every and n % self.reject_every == 0:
            self.rejected += 1
            return None
        self.completed += 1
        if self.downstream is not None and event.event_type == "Request":
            return [self.forward(event, self.downstream)]
        return None


# ----------------------------------------------------------------------
# AutoScaler


def _autoscaler(seed, params, make_policy, strategy, cooldowns=None, limits=None, initial=None):
    p = P(params, seed)
    iv = period(p, 0)
    iv_ns = max(1, int(iv * 1e9))
    sink = Sink("sink")
    svc = iv * 0.9  # long service: servers are busy at the evaluation instants
    conc = min(p.cap(1), 2)  # 4 requests per interval of 0.9 interval each: always saturated
    n0 = initial(p) if initial else 1
    firsts = [Server(f"server_{i}", concurrency=conc, service_time=ConstantLatency(svc), downstream=sink) for i in range(n0)]
    first = firsts[0]
    lb = LoadBalancer("lb", backends=firsts, strategy=strategy)
    factory = _Factory(p, sink, service_s=svc, concurrency=conc)
    cd_out, cd_in = cooldowns(p, iv) if cooldowns else (iv * 1.5, iv * 2.5)
    lo, hi = limits(p) if limits else (1, p.count(2, 4, lo=2, hi=9))
    scaler = AutoScaler(
        "scaler",
        load_balancer=lb,
        server_factory=factory,
        policy=make_policy(),
        min_instances=lo,
        max_instances=hi,
        evaluation_interval=iv,
        scale_out_cooldown=cd_out,
        scale_in_cooldown=cd_in,
    )
    arr = p.arrivals(10)
    t0 = min(arr)
    # load for ~12 intervals (4 requests per interval on top of the burst), then silence: scale in
    wave = _wave(t0, 12 * iv_ns, 48)

    def control(proc, event):
        if event.event_type == "begin":
            return [scaler.start()]
        scaler.stop()
        proc.done += 1
        return None

    ctl = Proc("control", control)
    sim = make_sim([lb, *firsts, scaler, sink, ctl], p.end())
    _traffic(sim, lb, arr + wave)
    sim.schedule(ev(t0, "begin", ctl))
    sim.schedule(ev(t0 + 40 * iv_ns, "end", ctl))
    comps = {"lb": lb, "scaler": scaler, "server_0": first, "sink": sink}
    return Scenario(sim, comps, FAMILY, True, len(arr) + len(wave) + 2, extras={"factory": factory})


@scenario("deployment.autoscaler_target_utilization", FAMILY)
def autoscaler_target_utilization(seed, params):
    return _autoscaler(seed, params, lambda: TargetUtilization(target=0.5), RoundRobin())


@scenario("deployment.autoscaler_step_scaling", FAMILY)
def autoscaler_step_scaling(seed, params):
    return _autoscaler(seed, params, lambda: StepScaling([(0.9, 2), (0.5, 1), (0.0, -1)]), LeastConnections())


@scenario("deployment.autoscaler_queue_depth", FAMILY)
def autoscaler_queue_depth(seed, params):
    return _autoscaler(seed, params, lambda: QueueDepthScaling(scale_out_threshold=3, scale_in_threshold=0), RoundRobin())


@scenario("deployment.autoscaler_prerun_start", FAMILY)
def autoscaler_prerun_start(seed, params):
    """start() before the run (event stamped Epoch), default policy, never stopped: the daemon runs until end_time."""
    p = P(params, seed)
    iv = period(p, 1, 400)
    iv_ns = max(1, int(iv * 1e9))
    sink = Sink("sink")
    servers = [Server(f"server_{i}", concurrency=1, service_time=ConstantLatency(iv * 0.6), downstream=sink) for i in range(2)]
    lb = LoadBalancer("lb", backends=servers, strategy=RoundRobin())
    factory = _Factory(p, sink, service_s=iv * 0.6, concurrency=1)
    scaler = AutoScaler(
        "scaler", lb, factory, min_instances=1, max_instances=5, evaluation_interval=iv,
        scale_out_cooldown=below(p.lat(2), iv), scale_in_cooldown=iv * 3.3,
    )  # fmt: skip
    arr = p.arrivals(12)
    wave = _wave(min(arr), 10 * iv_ns, 40)
    sim = make_sim([lb, scaler, sink, *servers], p.end())
    _traffic(sim, lb, arr + wave)
    sim.schedule(scaler.start())
    comps = {"lb": lb, "scaler": scaler, "sink": sink, **{s.name: s for s in servers}}
    return Scenario(sim, comps, FAMILY, True, len(arr) + len(wave) + 1, extras={"factory": factory})


# ----------------------------------------------------------------------
# CanaryDeployer


def _canary(seed, params, evaluator, factory_of, strategy, prerun=False, stages=None, eval_iv=None):
    p = P(params, seed)
    iv = period(p, 0)
    iv_ns = max(1, int(iv * 1e9))
    sink = Sink("sink")
    base_svc = below(p.lat(1), iv)
    n_base = p.count(1, 2, hi=9)
    servers = [Server(f"server_{i}", concurrency=p.cap(2), service_time=ConstantLatency(base_svc), downstream=sink) for i in range(n_base)]
    lb = LoadBalancer("lb", backends=servers, strategy=strategy)
    factory = factory_of(p, sink, iv, base_svc)
    st = stages(iv) if stages else [CanaryStage(0.1, iv * 2), CanaryStage(0.5, iv * 2), CanaryStage(1.0, iv)]
    dep = CanaryDeployer(
        "canary", lb, factory, stages=st, metric_evaluator=evaluator, evaluation_interval=(eval_iv(iv) if eval_iv else iv)
    )
    arr = p.arrivals(10)
    t0 = min(arr)
    wave = _wave(t0, 10 * iv_ns, 50)

    def control(proc, event):
        proc.done += 1
        return [dep.deploy()]

    ctl = Proc("control", control)
    sim = make_sim([lb, dep, sink, ctl, *servers], p.end())
    _traffic(sim, lb, arr + wave)
    if prerun:
        sim.schedule(dep.deploy())
    else:
        sim.schedule(ev(t0, "begin", ctl))
    comps = {"lb": lb, "canary": dep, "sink": sink, **{s.name: s for s in servers}}
    return Scenario(sim, comps, FAMILY, True, len(arr) + len(wave) + 1, extras={"factory": factory})


@scenario("deployment.canary_promote_error_rate", FAMILY)
def canary_promote_error_rate(seed, params):
    """Healthy canary, ErrorRateEvaluator, weighted strategy (traffic weights change per stage): promoted."""
    return _canary(
        seed, params, ErrorRateEvaluator(max_error_rate=0.05),
        lambda p, sink, iv, svc: _Factory(p, sink, service_s=svc, concurrency=p.cap(2)),
        WeightedRoundRobin(),
    )  # fmt: skip


@scenario("deployment.canary_promote_latency", FAMILY)
def canary_promote_latency(seed, params):
    """Healthy canary, LatencyEvaluator, deploy() called before the run, default-like four stages."""
    return _canary(
        seed, params, LatencyEvaluator(max_latency=10.0, threshold_multiplier=1.5),
        lambda p, sink, iv, svc: _Factory(p, sink, service_s=svc * 0.9, concurrency=p.cap(2)),
        WeightedRoundRobin(), prerun=True,
        stages=lambda iv: [CanaryStage(0.01, iv), CanaryStage(0.05, iv), CanaryStage(0.25, iv * 2), CanaryStage(1.0, iv)],
    )  # fmt: skip


@scenario("deployment.canary_rollback_latency", FAMILY)
def canary_rollback_latency(seed, params):
    """The canary is a real Server that is four times slower than the baseline: LatencyEvaluator rolls back."""
    return _canary(
        seed, params, LatencyEvaluator(max_latency=10.0, threshold_multiplier=1.5),
        lambda p, sink, iv, svc: _Factory(p, sink, service_s=svc * 4.0, concurrency=1),
        WeightedRoundRobin(),
        stages=lambda iv: [CanaryStage(0.5, iv * 3), CanaryStage(1.0, iv)],
    )  # fmt: skip


@scenario("deployment.canary_rollback_error_rate", FAMILY)
def canary_rollback_error_rate(seed, params):
    """The canary rejects every second request: ErrorRateEvaluator rolls back (round robin: no weights to set)."""
    return _canary(
        seed, params, ErrorRateEvaluator(max_error_rate=0.05, threshold_multiplier=2.0),
        lambda p, sink, iv, svc: _Factory(p, sink, make=lambda name, k: FlakyBackend(name, svc, reject_every=2, downstream=sink)),
        RoundRobin(),
        stages=lambda iv: [CanaryStage(0.5, iv * 3), CanaryStage(1.0, iv)],
    )  # fmt: skip


# ----------------------------------------------------------------------
# RollingDeployer


def _rolling(seed, params, factory_of, batch, healthy_threshold, max_failures, n_servers=3, prerun=False, hc_iv=None, fixed_n=False):
    p = P(params, seed)
    iv = period(p, 0)
    iv_ns = max(1, int(iv * 1e9))
    sink = Sink("sink")
    svc = below(p.lat(1), iv)
    n_servers = n_servers if fixed_n else p.count(0, n_servers, hi=9)
    servers = [Server(f"server_{i}", concurrency=p.cap(1), service_time=ConstantLatency(svc), downstream=sink) for i in range(n_servers)]
    lb = LoadBalancer("lb", backends=servers, strategy=RoundRobin())
    factory = factory_of(p, sink, iv, svc)
    dep = RollingDeployer(
        "roll",
        lb,
        factory,
        batch_size=batch(p) if batch(p) > 0 else n_servers - batch(p),
        health_check_interval=(hc_iv(iv) if hc_iv else iv),
        healthy_threshold=healthy_threshold,
        max_failures=max_failures,
    )
    arr = p.arrivals(10)
    t0 = min(arr)
    wave = _wave(t0, 14 * iv_ns, 56)

    def control(proc, event):
        proc.done += 1
        return [dep.deploy()]

    ctl = Proc("control", control)
    sim = make_sim([lb, dep, sink, ctl, *servers], p.end())
    _traffic(sim, lb, arr + wave)
    if prerun:
        sim.schedule(dep.deploy())
    else:
        sim.schedule(ev(t0, "begin", ctl))
    comps = {"lb": lb, "roll": dep, "sink": sink, **{s.name: s for s in servers}}
    return Scenario(sim, comps, FAMILY, True, len(arr) + len(wave) + 1, extras={"factory": factory})


@scenario("deployment.rolling_success", FAMILY)
def rolling_success(seed, params):
    """Three Servers replaced one per batch by real Servers (a Server answers the probe at enqueue time)."""
    return _rolling(
        seed, params, lambda p, sink, iv, svc: _Factory(p, sink, service_s=svc), batch=lambda p: 1, healthy_threshold=1, max_failures=1
    )


@scenario("deployment.rolling_threshold_two", FAMILY)
def rolling_threshold_two(seed, params):
    """healthy_threshold=2: the timeout of the first (passed) probe fires before the second pass is counted."""
    return _rolling(
        seed, params, lambda p, sink, iv, svc: _Factory(p, sink, service_s=svc), batch=lambda p: 1, healthy_threshold=2, max_failures=1
    )


@scenario("deployment.rolling_batches", FAMILY)
def rolling_batches(seed, params):
    """batch_size from p.cap over five servers, new instances answer the probe after a positive time (< interval)."""
    return _rolling(
        seed, params,
        lambda p, sink, iv, svc: _Factory(p, sink, make=lambda name, k: FlakyBackend(name, below(p.lat(2 + k), iv), downstream=sink)),
        batch=lambda p: p.cap(2), healthy_threshold=2, max_failures=2, n_servers=5, prerun=True,
    )  # fmt: skip


@scenario("deployment.rolling_failing_health_checks", FAMILY)
def rolling_failing_health_checks(seed, params):
    """From the second new instance on the probes are answered later than the health timeout: rollback."""

    def factory_of(p, sink, iv, svc):
        def make(name, k):
            if k == 0:
                return Server(name, concurrency=p.cap(1), service_time=ConstantLatency(svc), downstream=sink)
            return FlakyBackend(name, iv * (1.5 + k), downstream=sink)

        return _Factory(p, sink, make=make)

    return _rolling(seed, params, factory_of, batch=lambda p: 1, healthy_threshold=2, max_failures=1)


@scenario("deployment.rolling_late_passes", FAMILY)
def rolling_late_passes(seed, params):
    """Every new instance answers just after the timeout: late `_rolling_health_pass` events race the timeouts."""

    def factory_of(p, sink, iv, svc):
        return _Factory(p, sink, make=lambda name, k: FlakyBackend(name, iv + below(p.lat(2), iv), downstream=sink))

    return _rolling(seed, params, factory_of, batch=lambda p: 2, healthy_threshold=1, max_failures=3, n_servers=4)


# ----------------------------------------------------------------------
# sibling parameters out of proportion


@scenario("deployment.autoscaler_cooldown_out_longer_than_in", FAMILY)
def autoscaler_cooldown_out_longer_than_in(seed, params):
    return _autoscaler(
        seed, params, lambda: StepScaling([(0.9, 1), (0.0, -1)]), RoundRobin(), cooldowns=lambda p, iv: (iv * 4.0, iv * 0.5)
    )


@scenario("deployment.autoscaler_cooldowns_tiny", FAMILY)
def autoscaler_cooldowns_tiny(seed, params):
    """Both cooldowns of 1..2 ns << evaluation_interval: every evaluation may scale."""
    return _autoscaler(seed, params, lambda: TargetUtilization(target=0.4), RoundRobin(), cooldowns=lambda p, iv: (1e-9, 2e-9))


@scenario("deployment.autoscaler_cooldowns_zero", FAMILY)
def autoscaler_cooldowns_zero(seed, params):
    """Both cooldowns 0.0 (accepted): never in cooldown, scaling at consecutive evaluations."""
    return _autoscaler(seed, params, lambda: StepScaling([(0.9, 2), (0.5, 1), (0.0, -1)]), RoundRobin(), cooldowns=lambda p, iv: (0.0, 0.0))


@scenario("deployment.autoscaler_cooldowns_huge", FAMILY)
def autoscaler_cooldowns_huge(seed, params):
    """Both cooldowns >> evaluation_interval (longer than the run): one scaling action, then always blocked."""
    return _autoscaler(
        seed, params, lambda: QueueDepthScaling(scale_out_threshold=2, scale_in_threshold=0), LeastConnections(),
        cooldowns=lambda p, iv: (p.end() * 3.0, p.end() * 2.0),
    )  # fmt: skip


@scenario("deployment.autoscaler_cooldown_equals_interval", FAMILY)
def autoscaler_cooldown_equals_interval(seed, params):
    """cooldown == evaluation_interval exactly: the boundary of `elapsed < cooldown` at every evaluation."""
    return _autoscaler(seed, params, lambda: StepScaling([(0.5, 1), (0.0, -1)]), RoundRobin(), cooldowns=lambda p, iv: (iv, iv))


@scenario("deployment.autoscaler_fixed_size", FAMILY)
def autoscaler_fixed_size(seed, params):
    """min_instances == max_instances == number of initial servers: the policy may never change anything."""
    n = lambda p: p.count(0, 2, hi=5)  # noqa: E731
    return _autoscaler(
        seed, params, lambda: TargetUtilization(target=0.3), RoundRobin(),
        cooldowns=lambda p, iv: (below(p.lat(1), iv), below(p.lat(2), iv)), limits=lambda p: (n(p), n(p)), initial=n,
    )  # fmt: skip


@scenario("deployment.autoscaler_below_minimum", FAMILY)
def autoscaler_below_minimum(seed, params):
    """Starts with ONE server below min_instances (3..): the scaler has to add up to the minimum, max == min + 1."""
    lo = lambda p: p.count(0, 3, lo=2, hi=6)  # noqa: E731
    return _autoscaler(
        seed, params, lambda: TargetUtilization(target=0.9), RoundRobin(),
        cooldowns=lambda p, iv: (iv * 0.1, iv * 0.1), limits=lambda p: (lo(p), lo(p) + 1),
    )  # fmt: skip


def _healthy_factory(p, sink, iv, svc):
    return _Factory(p, sink, service_s=svc, concurrency=p.cap(2))


@scenario("deployment.canary_eval_interval_much_longer", FAMILY)
def canary_eval_interval_much_longer(seed, params):
    """evaluation_interval = 40 x the stage duration: every evaluation ends a stage."""
    return _canary(
        seed, params, ErrorRateEvaluator(), _healthy_factory, WeightedRoundRobin(),
        stages=lambda iv: [CanaryStage(0.1, iv / 40.0), CanaryStage(0.5, iv / 40.0), CanaryStage(1.0, iv / 40.0)],
    )  # fmt: skip


@scenario("deployment.canary_eval_interval_much_shorter", FAMILY)
def canary_eval_interval_much_shorter(seed, params):
    """evaluation_interval = stage duration / 25: many evaluations inside one stage."""
    return _canary(
        seed, params, LatencyEvaluator(max_latency=10.0), _healthy_factory, WeightedRoundRobin(),
        stages=lambda iv: [CanaryStage(0.2, iv), CanaryStage(1.0, iv * 1.5)], eval_iv=lambda iv: iv / 25.0,
    )  # fmt: skip


@scenario("deployment.canary_one_stage", FAMILY)
def canary_one_stage(seed, params):
    """A single 100% stage whose duration is shorter than one evaluation interval."""
    return _canary(
        seed, params, ErrorRateEvaluator(), _healthy_factory, RoundRobin(), prerun=True,
        stages=lambda iv: [CanaryStage(1.0, iv * 0.5)],
    )  # fmt: skip


@scenario("deployment.canary_zero_length_stages", FAMILY)
def canary_zero_length_stages(seed, params):
    """p.count stages of evaluation_period 0.0 (accepted): each first evaluation completes its stage."""
    n = P(params, seed).count(0, 4, hi=10)
    return _canary(
        seed, params, LatencyEvaluator(max_latency=10.0), _healthy_factory, WeightedRoundRobin(),
        stages=lambda iv: [CanaryStage(min(1.0, (k + 1) / n), 0.0) for k in range(n)], eval_iv=lambda iv: iv / 5.0,
    )  # fmt: skip


@scenario("deployment.rolling_interval_much_longer_than_service", FAMILY)
def rolling_interval_much_longer_than_service(seed, params):
    """health_check_interval = 1000 x the time a new instance needs to answer the probe; threshold 1."""
    return _rolling(
        seed, params,
        lambda p, sink, iv, svc: _Factory(p, sink, make=lambda name, k: FlakyBackend(name, iv / 1000.0, downstream=sink)),
        batch=lambda p: 1, healthy_threshold=1, max_failures=1,
    )  # fmt: skip


@scenario("deployment.rolling_interval_much_shorter_than_service", FAMILY)
def rolling_interval_much_shorter_than_service(seed, params):
    """health_check_interval = 1/40 of the probe answer time: every probe times out, answers arrive late."""
    return _rolling(
        seed, params,
        lambda p, sink, iv, svc: _Factory(p, sink, make=lambda name, k: FlakyBackend(name, iv, downstream=sink)),
        batch=lambda p: 2, healthy_threshold=1, max_failures=4, hc_iv=lambda iv: iv / 40.0,
    )  # fmt: skip


@scenario("deployment.rolling_batch_covers_all_backends", FAMILY)
def rolling_batch_covers_all_backends(seed, params):
    """batch_size = number of backends + 2: everything is replaced in one batch (real Servers)."""
    return _rolling(
        seed, params, lambda p, sink, iv, svc: _Factory(p, sink, service_s=svc), batch=lambda p: -2, healthy_threshold=1, max_failures=1
    )


@scenario("deployment.rolling_single_backend", FAMILY)
def rolling_single_backend(seed, params):
    """ONE backend, threshold 1, the new instance answers exactly at the timeout instant."""
    return _rolling(
        seed, params,
        lambda p, sink, iv, svc: _Factory(p, sink, make=lambda name, k: FlakyBackend(name, iv, downstream=sink)),
        batch=lambda p: 1, healthy_threshold=1, max_failures=2, n_servers=1, fixed_n=True,
    )  # fmt: skip

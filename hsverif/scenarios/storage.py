"""storage family: LSMTree (+Memtable, SSTable, compaction strategies), WriteAheadLog (sync
policies), BTree, TransactionManager + StorageTransaction (isolation levels).

Everything here is a generator API driven from `Proc` workers; `LSMTree.handle_event`
('CompactionTrigger') is reached with plain events.  Memtables are tiny so that flushes and
compactions (which take positive time) overlap the reads, writes and scans of other workers.

Besides the contention builders there are
  * degenerate builders: operations on EMPTY structures, gets / deletes / scans that match
    nothing (range between two keys, outside the key space, start > end, start == end),
    flush / compaction / crash / recover / truncate with nothing in them, empty transactions;
  * proportion builders: memtable_size 1, SSTables whose key count sits on the 16-key page
    boundary, BTree key counts that are exact multiples of the leaf capacity (+-1).
Structural counts (memtable size, BTree order, number of keys) come from `p.count`.
"""

from __future__ import annotations

from happysimulator.components.storage import (
    BTree,
    FIFOCompaction,
    IsolationLevel,
    LeveledCompaction,
    LSMTree,
    Memtable,
    SizeTieredCompaction,
    SSTable,
    SyncEveryWrite,
    SyncOnBatch,
    SyncPeriodic,
    TransactionManager,
    WriteAheadLog,
)

from hsverif.scenarios import Scenario, scenario
from hsverif.scenarios._kit import P, Proc, ev, make_sim

KEYS = ["a0", "h1", "m2", "q3", "x4", "k5", "c6", "t7"]
MISSING = "zz-missing"
# (start, end) ranges that match nothing in KEYS (+ the n*/p*/y*/z* keys the workers add):
EMPTY_RANGES = [
    ("a1", "a9"),  # between two keys
    ("zzz0", "zzz9"),  # above the key space
    ("!", "0"),  # below the key space
    ("x", "b"),  # start > end
    ("m2", "m2"),  # start == end (half-open: empty even though m2 exists)
    ("", ""),  # empty strings
]
FULL_RANGE = ("", "~")


def _start(sim, procs, arrivals):
    for i, t in enumerate(arrivals):
        sim.schedule(ev(t, "start", procs[i % len(procs)], worker=i))


def _w(event) -> int:
    return event.context["metadata"]["worker"]


def _ns(seconds: float) -> int:
    return max(1, int(round(seconds * 1e9)))


def _keys(p: P, i: int = 2, default: int = 6, lo: int = 1) -> list[str]:
    return KEYS[: p.count(i, default, lo=lo, hi=len(KEYS))]


def _empty_scans(store, i):
    """Scan ranges matching nothing; returns the (always empty) results' sizes."""
    out = []
    for j in range(2):
        a, b = EMPTY_RANGES[(i + j * 3) % len(EMPTY_RANGES)]
        r = yield from store.scan(a, b)
        out.append(len(r))
    return out


# ----------------------------------------------------------------------
# LSMTree


def _lsm_body(lsm, keys, hold):
    def K(j):
        return keys[j % len(keys)]

    def body(proc, event):
        i = _w(event)
        k = K(i % 3)
        if i % 4 == 0:
            yield from lsm.put(k, i)
            yield from lsm.put(K(3 + i % 3), i)  # second distinct key: memtable full -> flush
            r = yield from lsm.get(k)
        elif i % 4 == 1:
            r0 = yield from lsm.get(k)  # while the writers are flushing / compacting
            yield hold
            r1 = yield from lsm.scan("a", "z")
            r2 = yield from _empty_scans(lsm, i)
            r = (r0, len(r1), r2)
        elif i % 4 == 2:
            yield from lsm.put(k, i)
            yield from lsm.delete(k)
            yield from lsm.delete(MISSING)  # tombstone for a key that never existed
            r = yield from lsm.get(k)
        else:
            yield from lsm.put(f"n{i}", i)
            yield from lsm.put(f"p{i}", i)
            yield hold
            r0 = yield from lsm.get(K(0))
            r1 = yield from lsm.get("zz-never")
            r = (r0, r1)
        # second, de-synchronised round: fresh keys -> more flushes, deeper levels
        yield hold * (1 + i % 3) / 3
        yield from lsm.put(f"y{i}", i)
        yield from lsm.put(f"z{i % 2}", i)
        r2 = yield from lsm.get(K((i + 1) % 3))
        r3 = yield from _empty_scans(lsm, i + 1)  # now against several levels of SSTables
        proc.log.append(str((r, r2, r3)))
        proc.done += 1

    return body


def _lsm_scenario(p, strategy, sync_policy, use_wal=True, n_default=8, operator=None, memtable_size=None, max_levels=3, n_trig=6):
    wal = None
    if use_wal:
        wal = WriteAheadLog("wal", sync_policy=sync_policy, write_latency=p.lat(0), sync_latency=p.lat(1))
    msize = memtable_size if memtable_size is not None else p.count(0, 2, lo=1, hi=5)
    lsm = LSMTree(
        "lsm",
        memtable_size=msize,
        compaction_strategy=strategy,
        wal=wal,
        sstable_read_latency=p.lat(2),
        sstable_write_latency=p.lat(3),
        max_levels=max_levels,
    )
    arr = p.arrivals(n_default)
    procs = [Proc(f"w{i}", _lsm_body(lsm, _keys(p), p.hold())) for i in range(len(arr))]
    ents = [lsm, *([wal] if wal is not None else []), *procs]
    op = Proc("operator", operator(lsm, wal)) if operator is not None else None
    if op is not None:
        ents.append(op)
    sim = make_sim(ents, p.end())
    _start(sim, procs, arr)
    # external compaction triggers: one BEFORE anything was written (empty tree), the others
    # sprinkled over the period in which flushes are running
    step = _ns(p.lat(3) + p.lat(0))
    sim.schedule(ev(0, "CompactionTrigger", lsm))
    for j in range(n_trig):
        sim.schedule(ev(min(arr) + (j + 1) * step, "CompactionTrigger", lsm))
    sim.schedule(ev(min(arr), "SomethingElse", lsm))  # an event type the tree ignores
    if op is not None:
        sim.schedule(ev(min(arr), "start", op, worker=-1))
    comps = {"lsm": lsm}
    if wal is not None:
        comps["wal"] = wal
    n = len(arr) + n_trig + 2 + (1 if op is not None else 0)
    return Scenario(sim, comps, "storage", True, n, notes=f"{type(lsm._compaction_strategy).__name__} memtable={msize}")


@scenario("storage.lsm_size_tiered_wal", "storage")
def lsm_size_tiered_wal(seed, params):
    """Size-tiered compaction (2 SSTables trigger it), WAL synced on every write."""
    p = P(params, seed)
    return _lsm_scenario(p, SizeTieredCompaction(min_sstables=2), SyncEveryWrite())


@scenario("storage.lsm_leveled_wal_batch", "storage")
def lsm_leveled_wal_batch(seed, params):
    """Leveled compaction with tiny level budgets, WAL synced per batch."""
    p = P(params, seed)
    return _lsm_scenario(p, LeveledCompaction(level_0_max=2, size_ratio=2, base_size_keys=1), SyncOnBatch(batch_size=p.cap(2)))


@scenario("storage.lsm_fifo_wal_periodic", "storage")
def lsm_fifo_wal_periodic(seed, params):
    """FIFO compaction (more than 2 SSTables in total), WAL synced periodically."""
    p = P(params, seed)
    return _lsm_scenario(p, FIFOCompaction(max_total_sstables=2), SyncPeriodic(interval_s=p.lat(4)))


@scenario("storage.lsm_no_wal_default_strategy", "storage")
def lsm_no_wal_default_strategy(seed, params):
    """No WAL, default (size-tiered, 4) strategy, larger burst so that L0 reaches 4 SSTables."""
    p = P(params, seed)
    return _lsm_scenario(p, None, None, use_wal=False, n_default=12)


@scenario("storage.lsm_memtable_one", "storage")
def lsm_memtable_one(seed, params):
    """memtable_size=1: EVERY put / delete flushes; two levels only, so compactions land on the
    last level where tombstones are dropped (a put + delete pair compacts to nothing)."""
    p = P(params, seed)
    strat = [SizeTieredCompaction(min_sstables=2), LeveledCompaction(level_0_max=1, size_ratio=1, base_size_keys=1), FIFOCompaction(max_total_sstables=1)][
        int(p.x("v", seed)) % 3
    ]
    return _lsm_scenario(p, strat, SyncOnBatch(batch_size=1), n_default=5, memtable_size=1, max_levels=2, n_trig=3)


@scenario("storage.lsm_single_level", "storage")
def lsm_single_level(seed, params):
    """max_levels=1: source level == target level, every compaction rewrites L0 in place."""
    p = P(params, seed)
    return _lsm_scenario(p, SizeTieredCompaction(min_sstables=2), SyncPeriodic(interval_s=p.lat(4) * 100), n_default=5, max_levels=1, n_trig=3)


@scenario("storage.lsm_crash_recover", "storage")
def lsm_crash_recover(seed, params):
    """An operator crashes the tree (memtable + unsynced WAL lost) while writers are active,
    then replays the WAL; the writers carry on."""
    p = P(params, seed)
    hold = p.hold()

    def operator(lsm, wal):
        def fn(proc, event):
            yield hold
            lost = lsm.crash()
            yield p.lat(5)
            rec = lsm.recover_from_crash()
            yield from lsm.put("after-crash", 1)
            r = yield from lsm.get("after-crash")
            proc.log.append((lost, rec, r))
            proc.done += 1

        return fn

    return _lsm_scenario(p, SizeTieredCompaction(min_sstables=3), SyncOnBatch(batch_size=3), operator=operator)


@scenario("storage.lsm_page_boundary", "storage")
def lsm_page_boundary(seed, params):
    """SSTables of 15 / 16 / 17 keys (x.v mod 3): the flush, compaction and scan costs are
    computed from key_count // 16, so these sit on both sides of the page boundary.  One loader
    fills two memtables while readers scan empty, partial and full ranges."""
    p = P(params, seed)
    size = 15 + int(p.x("v", seed)) % 3
    lsm = LSMTree("lsm", memtable_size=size, compaction_strategy=SizeTieredCompaction(min_sstables=2), sstable_read_latency=p.lat(2), sstable_write_latency=p.lat(3), max_levels=3)
    hold = p.hold()

    def loader(proc, event):
        for j in range(2 * size + 1):
            yield from lsm.put(f"k{j:03d}", j)
        proc.done += 1

    def reader(proc, event):
        i = _w(event)
        out = []
        for rnd in range(3):
            out.append(len((yield from lsm.scan("k000", f"k{(i * 7 + rnd * 11) % (2 * size):03d}"))))  # partial (maybe empty)
            out.append(len((yield from lsm.scan(*FULL_RANGE))))
            out += yield from _empty_scans(lsm, i + rnd)
            out.append((yield from lsm.get(f"k{(i + rnd) % size:03d}")))
            yield hold
        proc.log.append(str(out))
        proc.done += 1

    arr = p.arrivals(3)
    procs = [Proc(f"r{i}", reader) for i in range(len(arr))]
    ld = Proc("loader", loader)
    sim = make_sim([lsm, ld, *procs], p.end())
    sim.schedule(ev(min(arr), "start", ld, worker=-1))
    _start(sim, procs, arr)
    return Scenario(sim, {"lsm": lsm}, "storage", True, len(arr) + 1, notes=f"memtable={size}")


# ----------------------------------------------------------------------
# Memtable / SSTable / WriteAheadLog used directly


@scenario("storage.memtable_direct", "storage")
def memtable_direct(seed, params):
    """A stand-alone Memtable (threshold = count 0): reads and a flush while it is still EMPTY,
    timed put / get from many workers; the worker that fills it flushes it to an SSTable
    (whose lookup API is synchronous) while the others keep going."""
    p = P(params, seed)
    mt = Memtable("memtable", size_threshold=p.count(0, 3, lo=1, hi=8), write_latency=p.lat(0), read_latency=p.lat(1))
    tables: list[SSTable] = []
    hold = p.hold()
    keys = _keys(p, default=4)

    def body(proc, event):
        i = _w(event)
        k = keys[i % len(keys)]
        if i == 0:
            v = yield from mt.get(k)  # empty memtable
            sst0 = mt.flush()  # empty SSTable
            proc.log.append((v, sst0.key_count, sst0.get(k), len(sst0.scan()), sst0.page_reads_for_get(k), sst0.page_reads_for_scan("a", "z"), sst0.min_key))
        full = yield from mt.put(k, i)
        v = yield from mt.get(keys[(i + 1) % len(keys)])
        vm = yield from mt.get(MISSING)
        if full:
            yield hold
            sst = mt.flush()
            tables.append(sst)
            empties = [sst.page_reads_for_scan(a, b) for a, b in EMPTY_RANGES]
            proc.log.append((sst.key_count, sst.page_reads_for_get(k), sst.get(k) is not None, len(sst.scan("a", "z")), empties))
        v2 = yield from mt.get(k)
        proc.log.append((full, v, vm, v2))
        proc.done += 1

    arr = p.arrivals(8)
    procs = [Proc(f"w{i}", body) for i in range(len(arr))]
    sim = make_sim([mt, *procs], p.end())
    _start(sim, procs, arr)
    return Scenario(sim, {"memtable": mt}, "storage", True, len(arr))


@scenario("storage.wal_sync_policies", "storage")
def wal_sync_policies(seed, params):
    """Three WALs (every-write / periodic / batch) appended to concurrently; a janitor
    truncates / crashes / recovers them BEFORE anything was appended and again while appends
    are in flight."""
    p = P(params, seed)
    wals = [
        WriteAheadLog("wal_every", sync_policy=SyncEveryWrite(), write_latency=p.lat(0), sync_latency=p.lat(1)),
        WriteAheadLog("wal_periodic", sync_policy=SyncPeriodic(interval_s=p.lat(2) * 2), write_latency=p.lat(3), sync_latency=p.lat(4)),
        WriteAheadLog("wal_batch", sync_policy=SyncOnBatch(batch_size=p.count(0, 3, lo=1, hi=12)), write_latency=p.lat(5), sync_latency=p.lat(6)),
        WriteAheadLog("wal_default", write_latency=p.lat(7), sync_latency=p.lat(8)),  # default policy object
    ]
    hold = p.hold()

    def body(proc, event):
        i = _w(event)
        seqs = []
        for r in range(3):
            w = wals[(i + r) % len(wals)]
            s = yield from w.append(KEYS[i % 3], (i, r))
            seqs.append(s)
            if r == 0:
                yield hold
        wals[i % len(wals)].append_sync("sync-key", i)
        proc.log.append(seqs)
        proc.done += 1

    def janitor(proc, event):
        # nothing appended yet
        for w in wals:
            w.truncate(0)
            w.truncate(10)
        empty = [(w.crash(), len(w.recover()), w.size, w.synced_up_to) for w in wals]
        yield hold * 0.5
        for w in wals:
            w.truncate(w.synced_up_to // 2)
        yield hold
        lost = [w.crash() for w in wals]
        rec = [len(w.recover()) for w in wals]
        yield hold
        s = yield from wals[0].append("post-crash", 0)
        for w in wals:
            w.truncate(10**9)  # everything
        rec2 = [len(w.recover()) for w in wals]
        proc.log.append((empty, lost, rec, s, rec2))
        proc.done += 1

    arr = p.arrivals(8)
    procs = [Proc(f"w{i}", body) for i in range(len(arr))]
    jan = Proc("janitor", janitor)
    sim = make_sim([*wals, jan, *procs], p.end())
    sim.schedule(ev(0, "start", jan, worker=-1))
    _start(sim, procs, arr)
    return Scenario(sim, {w.name: w for w in wals}, "storage", True, len(arr) + 1)


# ----------------------------------------------------------------------
# BTree


@scenario("storage.btree_contention", "storage")
def btree_contention(seed, params):
    """Small-order BTree (order = count 0, 3 by default): inserts split nodes and grow the tree
    while gets, deletes and scans of other workers are half-way down the old tree."""
    p = P(params, seed)
    bt = BTree("btree", order=p.count(0, 3, lo=3, hi=12), page_read_latency=p.lat(0), page_write_latency=p.lat(1))
    keys = _keys(p)
    for j, k in enumerate(keys[:3]):
        bt.put_sync(k, 100 + j)
    hold = p.hold()

    def body(proc, event):
        i = _w(event)
        k = keys[i % len(keys)]
        if i % 4 == 0:
            yield from bt.put(f"{k}-{i}", i)
            yield from bt.put(k, i)
            r = yield from bt.get(k)
        elif i % 4 == 1:
            r0 = yield from bt.get(k)
            yield hold
            r1 = yield from bt.scan("a", "z")
            r2 = yield from _empty_scans(bt, i)
            r = (r0, len(r1), r2)
        elif i % 4 == 2:
            yield from bt.put(k, -i)
            r0 = yield from bt.delete(k)
            r1 = yield from bt.delete(MISSING)
            r2 = yield from bt.get(MISSING)
            r = (r0, r1, r2)
        else:
            for j in range(3):
                yield from bt.put(f"n{i}-{j}", j)
            r = yield from bt.get(f"n{i}-1")
        proc.log.append(str(r))
        proc.done += 1

    arr = p.arrivals(10)
    procs = [Proc(f"w{i}", body) for i in range(len(arr))]
    sim = make_sim([bt, *procs], p.end())
    _start(sim, procs, arr)
    return Scenario(sim, {"btree": bt}, "storage", True, len(arr), notes=f"order={bt._order}")


def _btree_fill(name, doc, delta):
    @scenario(name, "storage")
    def builder(seed, params):
        p = P(params, seed)
        order = p.count(1, 3, lo=3, hi=6)
        leaf = order - 1
        m = p.count(0, 3, lo=1, hi=6)
        n = max(0, m * leaf + delta)
        bt = BTree("btree", order=order, page_read_latency=p.lat(0), page_write_latency=p.lat(1))
        hold = p.hold()

        def loader(proc, event):
            for j in range(n):
                yield from bt.put(f"k{j:03d}", j)
            proc.log.append((bt.size, bt.depth))
            proc.done += 1

        def reader(proc, event):
            i = _w(event)
            out = []
            for rnd in range(3):  # round 0 mostly sees the EMPTY tree, later rounds the filled one
                out.append((yield from bt.get("k000")))
                out.append(len((yield from bt.scan(*FULL_RANGE))))  # 0, leaf-1, leaf, leaf+1 ... results
                out.append(len((yield from bt.scan("k000", f"k{leaf * (1 + (i + rnd) % 3):03d}"))))  # exactly 1..3 leaves worth
                out.append(len((yield from bt.scan("k000", "k000"))))
                out += yield from _empty_scans(bt, i + rnd)
                out.append((yield from bt.delete(MISSING)))
                yield hold
            if i % 2 == 0 and n:
                out.append((yield from bt.delete(f"k{(n - 1):03d}")))  # one less
                out.append(len((yield from bt.scan(*FULL_RANGE))))
            proc.log.append(str(out))
            proc.done += 1

        arr = p.arrivals(3)
        procs = [Proc(f"r{i}", reader) for i in range(len(arr))]
        ld = Proc("loader", loader)
        sim = make_sim([bt, ld, *procs], p.end())
        _start(sim, procs, arr)  # readers first: they meet the empty tree
        sim.schedule(ev(min(arr), "start", ld, worker=-1))
        return Scenario(sim, {"btree": bt}, "storage", True, len(arr) + 1, notes=f"order={order} keys={n}")

    builder.__doc__ = doc
    return builder


_btree_fill("storage.btree_exact_leaf_multiple", "Key count = m x (order-1): scans return exact multiples of the leaf capacity; readers start on the empty tree.", 0)
_btree_fill("storage.btree_leaf_multiple_plus_one", "Key count = m x (order-1) + 1.", 1)
_btree_fill("storage.btree_leaf_multiple_minus_one", "Key count = m x (order-1) - 1.", -1)


# ----------------------------------------------------------------------
# everything empty


@scenario("storage.empty_structures", "storage")
def empty_structures(seed, params):
    """Every engine starts EMPTY and is asked for things that are not there before the first
    write (worker i works on engine i mod 4): LSMTree (with and without WAL) get / scan /
    delete / crash / recover / compaction trigger, BTree get / scan / delete, Memtable get /
    flush, then one write and the same questions again."""
    p = P(params, seed)
    wal = WriteAheadLog("wal", sync_policy=SyncOnBatch(batch_size=2), write_latency=p.lat(0), sync_latency=p.lat(1))
    lsm_w = LSMTree("lsm_wal", memtable_size=p.count(0, 2, lo=1, hi=4), compaction_strategy=FIFOCompaction(max_total_sstables=1), wal=wal, sstable_read_latency=p.lat(2), sstable_write_latency=p.lat(3), max_levels=2)
    lsm_n = LSMTree("lsm_nowal", memtable_size=1, compaction_strategy=LeveledCompaction(level_0_max=1, size_ratio=1, base_size_keys=1), sstable_read_latency=p.lat(2), sstable_write_latency=p.lat(3), max_levels=2)
    bt = BTree("btree", order=3, page_read_latency=p.lat(4), page_write_latency=p.lat(5))
    mt = Memtable("memtable", size_threshold=1, write_latency=p.lat(6), read_latency=p.lat(7))
    hold = p.hold()

    def probe_lsm(lsm, i):
        out = [(yield from lsm.get(KEYS[0])), len((yield from lsm.scan(*FULL_RANGE)))]
        out += yield from _empty_scans(lsm, i)
        if i % 2:
            out.append(str(lsm.crash()))
            out.append(str(lsm.recover_from_crash()))
        yield from lsm.delete(KEYS[0])  # first ever write is a tombstone
        out.append((yield from lsm.get(KEYS[0])))
        out.append(len((yield from lsm.scan(*FULL_RANGE))))
        return out

    def probe_btree(i):
        out = [(yield from bt.get(KEYS[0])), len((yield from bt.scan(*FULL_RANGE))), (yield from bt.delete(KEYS[0]))]
        out += yield from _empty_scans(bt, i)
        return out

    def probe_memtable(i):
        out = [(yield from mt.get(KEYS[0])), mt.flush().key_count, mt.is_full]
        return out

    def body(proc, event):
        i = _w(event)
        which = i % 4
        if which == 0:
            out = yield from probe_lsm(lsm_w, i)
        elif which == 1:
            out = yield from probe_lsm(lsm_n, i)
        elif which == 2:
            out = yield from probe_btree(i)
        else:
            out = yield from probe_memtable(i)
        yield hold
        eng = [lsm_w, lsm_n, bt, mt][which]
        yield from eng.put(KEYS[1], i)
        out.append((yield from eng.get(KEYS[1])))
        if which == 0:
            out += yield from probe_lsm(lsm_w, i + 1)
        elif which == 1:
            out += yield from probe_lsm(lsm_n, i + 1)
        elif which == 2:
            out += yield from probe_btree(i + 1)
            out.append((yield from bt.delete(KEYS[1])))
            out.append(len((yield from bt.scan(*FULL_RANGE))))  # empty again
        proc.log.append(str(out))
        proc.done += 1

    arr = p.arrivals(8)
    procs = [Proc(f"w{i}", body) for i in range(len(arr))]
    sim = make_sim([wal, lsm_w, lsm_n, bt, mt, *procs], p.end())
    for t in (0, min(arr), min(arr) + _ns(p.lat(3))):
        sim.schedule(ev(t, "CompactionTrigger", lsm_w))
        sim.schedule(ev(t, "CompactionTrigger", lsm_n))
    _start(sim, procs, arr)
    return Scenario(sim, {"lsm_wal": lsm_w, "lsm_nowal": lsm_n, "btree": bt, "memtable": mt, "wal": wal}, "storage", True, len(arr) + 6)


# ----------------------------------------------------------------------
# TransactionManager


def _txn_scenario(p, level: IsolationLevel, store_kind: str, seeded: bool = True):
    ents = []
    if store_kind == "lsm":
        wal = WriteAheadLog("wal", sync_policy=SyncOnBatch(batch_size=2), write_latency=p.lat(0), sync_latency=p.lat(1))
        store = LSMTree(
            "store",
            memtable_size=p.count(0, 2, lo=1, hi=5),
            compaction_strategy=SizeTieredCompaction(min_sstables=2),
            wal=wal,
            sstable_read_latency=p.lat(2),
            sstable_write_latency=p.lat(3),
            max_levels=3,
        )
        ents += [store, wal]
    else:
        store = BTree("store", order=p.count(0, 3, lo=3, hi=12), page_read_latency=p.lat(2), page_write_latency=p.lat(3))
        ents += [store]
    tm = TransactionManager("tm", store, isolation=level, deadlock_detection=True)
    hold = p.hold()
    levels = list(IsolationLevel)
    keys = _keys(p, lo=2)

    def K(j):
        return keys[j % len(keys)]

    def body(proc, event):
        i = _w(event)
        if i % 6 == 5:  # degenerate transactions
            t1 = yield from tm.begin()
            ok1 = yield from t1.commit()  # empty transaction
            t2 = yield from tm.begin(isolation=levels[i % 3])
            t2.abort()  # empty transaction
            t2.abort()  # abort twice
            t3 = tm.begin_sync()
            vm = yield from t3.read(MISSING)  # missing key
            vm2 = yield from t3.read(MISSING)
            ok3 = yield from t3.commit()  # read-only
            proc.log.append((ok1, t2.is_active, vm, vm2, ok3, tm.active_transactions))
            proc.done += 1
            return
        if i % 4 == 3:
            tx = tm.begin_sync(isolation=levels[i % 3])  # per-transaction override
        else:
            tx = yield from tm.begin()
        v0 = yield from tx.read(K(0))  # everybody reads the hot key ...
        yield hold
        yield from tx.write(K(i % 2), i)  # ... and half of them write it
        v1 = yield from tx.read(K(i % 2))  # own write
        v2 = yield from tx.read(K(2 + i % 3))
        if i % 5 == 4:
            tx.abort()
            ok = None
        else:
            ok = yield from tx.commit()
        proc.log.append((tx.tx_id, v0, v1, v2, ok))
        proc.done += 1

    def seeder(proc, event):
        # committed before the burst: the data the others read through the storage engine
        tx = yield from tm.begin()
        for j, k in enumerate(keys):
            yield from tx.write(k, 100 + j)
        ok = yield from tx.commit()
        proc.log.append(ok)
        proc.done += 1

    arr = p.arrivals(8)
    procs = [Proc(f"t{i}", body) for i in range(len(arr))]
    sd = Proc("seeder", seeder)
    sim = make_sim([*ents, tm, sd, *procs], p.end())
    if seeded:
        sim.schedule(ev(0, "start", sd, worker=-1))
    _start(sim, procs, arr)
    return Scenario(sim, {"tm": tm, "store": store}, "storage", True, len(arr) + 1, notes=level.name)


@scenario("storage.txn_snapshot_isolation_lsm", "storage")
def txn_snapshot_isolation_lsm(seed, params):
    """Write-write conflicts under snapshot isolation over an LSMTree (+WAL)."""
    return _txn_scenario(P(params, seed), IsolationLevel.SNAPSHOT_ISOLATION, "lsm")


@scenario("storage.txn_serializable_btree", "storage")
def txn_serializable_btree(seed, params):
    """Read-write conflicts under serializable isolation over a BTree."""
    return _txn_scenario(P(params, seed), IsolationLevel.SERIALIZABLE, "btree")


@scenario("storage.txn_read_committed_lsm", "storage")
def txn_read_committed_lsm(seed, params):
    """No conflict detection (read committed): every commit goes to the LSMTree synchronously,
    flushing and compacting it inside commit()."""
    return _txn_scenario(P(params, seed), IsolationLevel.READ_COMMITTED, "lsm")


@scenario("storage.txn_empty_store", "storage")
def txn_empty_store(seed, params):
    """The same transactions over a store nobody seeded: every first read misses (BTree for
    even x.v, LSMTree for odd), isolation level = x.v mod 3."""
    p = P(params, seed)
    v = int(p.x("v", seed))
    return _txn_scenario(p, list(IsolationLevel)[v % 3], "btree" if v % 2 == 0 else "lsm", seeded=False)


# ----------------------------------------------------------------------
# default construction


@scenario("storage.default_construction", "storage")
def default_construction(seed, params):
    """Every engine built with its DEFAULT arguments (memtable of 1000 entries, order-128 BTree,
    default WAL policy, default isolation level); only the workload comes from the parameters."""
    p = P(params, seed)
    wal = WriteAheadLog("wal")
    lsm = LSMTree("lsm", wal=wal)
    lsm2 = LSMTree("lsm_nowal")
    bt = BTree("btree")
    mt = Memtable("memtable")
    tm = TransactionManager("tm", bt)
    hold = p.hold()
    engines = [lsm, lsm2, bt]

    def body(proc, event):
        i = _w(event)
        e = engines[i % 3]
        out = [(yield from e.get(KEYS[0])), len((yield from e.scan(*FULL_RANGE)))]
        out += yield from _empty_scans(e, i)
        for j in range(3):
            yield from e.put(KEYS[(i + j) % len(KEYS)], i)
        yield hold
        out.append((yield from e.get(KEYS[i % len(KEYS)])))
        out.append(len((yield from e.scan("a", "z"))))
        yield from e.delete(KEYS[i % len(KEYS)])
        out.append((yield from e.get(KEYS[i % len(KEYS)])))
        full = yield from mt.put(KEYS[i % len(KEYS)], i)
        out.append((full, (yield from mt.get(KEYS[0]))))
        tx = yield from tm.begin()
        out.append((yield from tx.read(KEYS[1])))
        yield from tx.write(KEYS[1], i)
        out.append((yield from tx.commit()))
        s = yield from wal.append("direct", i)
        proc.log.append(str((out, s)))
        proc.done += 1

    arr = p.arrivals(6)
    procs = [Proc(f"w{i}", body) for i in range(len(arr))]
    sim = make_sim([wal, lsm, lsm2, bt, mt, tm, *procs], p.end())
    sim.schedule(ev(min(arr), "CompactionTrigger", lsm))
    _start(sim, procs, arr)
    return Scenario(sim, {"lsm": lsm, "lsm_nowal": lsm2, "btree": bt, "memtable": mt, "tm": tm, "wal": wal}, "storage", True, len(arr) + 1)

"""storage family: LSMTree (+Memtable, SSTable, compaction strategies), WriteAheadLog (sync
policies), BTree, TransactionManager + StorageTransaction (isolation levels).

Everything here is a generator API driven from `Proc` workers; `LSMTree.handle_event`
('CompactionTrigger') is reached with plain events.  Memtables are tiny so that flushes and
compactions (which take positive time) overlap the reads, writes and scans of other workers.
"""

from __future__ import annotations

from happysimulator.components.storage import (
    BTree,
    FIFOCompaction,
    IsolationLevel,
    LeveledCompaction,
    LSMTree,
    Memtable,
    SizeTieredCompaction,
    SSTable,
    SyncEveryWrite,
    SyncOnBatch,
    SyncPeriodic,
    TransactionManager,
    WriteAheadLog,
)

from hsverif.scenarios import Scenario, scenario
from hsverif.scenarios._kit import P, Proc, ev, make_sim

KEYS = ["a0", "h1", "m2", "q3", "x4", "k5"]


def _start(sim, procs, arrivals):
    for i, t in enumerate(arrivals):
        sim.schedule(ev(t, "start", procs[i % len(procs)], worker=i))


def _w(event) -> int:
    return event.context["metadata"]["worker"]


def _ns(seconds: float) -> int:
    return max(1, int(round(seconds * 1e9)))


# ----------------------------------------------------------------------
# LSMTree


def _lsm_body(lsm, hold):
    def body(proc, event):
        i = _w(event)
        k = KEYS[i % 3]
        if i % 4 == 0:
            yield from lsm.put(k, i)
            yield from lsm.put(KEYS[3 + i % 3], i)  # second distinct key: memtable full -> flush
            r = yield from lsm.get(k)
        elif i % 4 == 1:
            r0 = yield from lsm.get(k)  # while the writers are flushing / compacting
            yield hold
            r1 = yield from lsm.scan("a", "z")
            r = (r0, len(r1))
        elif i % 4 == 2:
            yield from lsm.put(k, i)
            yield from lsm.delete(k)
            r = yield from lsm.get(k)
        else:
            yield from lsm.put(f"n{i}", i)
            yield from lsm.put(f"p{i}", i)
            yield hold
            r0 = yield from lsm.get(KEYS[0])
            r1 = yield from lsm.get("zz-missing")
            r = (r0, r1)
        # second, de-synchronised round: fresh keys -> more flushes, deeper levels
        yield hold * (1 + i % 3) / 3
        yield from lsm.put(f"y{i}", i)
        yield from lsm.put(f"z{i % 2}", i)
        r2 = yield from lsm.get(KEYS[(i + 1) % 3])
        proc.log.append(str((r, r2)))
        proc.done += 1

    return body


def _lsm_scenario(p, strategy, sync_policy, use_wal=True, n_default=8, operator=None):
    wal = None
    if use_wal:
        wal = WriteAheadLog("wal", sync_policy=sync_policy, write_latency=p.lat(0), sync_latency=p.lat(1))
    lsm = LSMTree(
        "lsm",
        memtable_size=2,
        compaction_strategy=strategy,
        wal=wal,
        sstable_read_latency=p.lat(2),
        sstable_write_latency=p.lat(3),
        max_levels=3,
    )
    arr = p.arrivals(n_default)
    procs = [Proc(f"w{i}", _lsm_body(lsm, p.hold())) for i in range(len(arr))]
    ents = [lsm, *([wal] if wal is not None else []), *procs]
    op = Proc("operator", operator(lsm, wal)) if operator is not None else None
    if op is not None:
        ents.append(op)
    sim = make_sim(ents, p.end())
    _start(sim, procs, arr)
    # external compaction triggers sprinkled over the period in which flushes are running
    step = _ns(p.lat(3) + p.lat(0))
    n_trig = 6
    for j in range(n_trig):
        sim.schedule(ev(min(arr) + (j + 1) * step, "CompactionTrigger", lsm))
    if op is not None:
        sim.schedule(ev(min(arr), "start", op, worker=-1))
    comps = {"lsm": lsm}
    if wal is not None:
        comps["wal"] = wal
    n = len(arr) + n_trig + (1 if op is not None else 0)
    return Scenario(sim, comps, "storage", True, n, notes=type(lsm._compaction_strategy).__name__)


@scenario("storage.lsm_size_tiered_wal", "storage")
def lsm_size_tiered_wal(seed, params):
    """Size-tiered compaction (2 SSTables trigger it), WAL synced on every write."""
    p = P(params, seed)
    return _lsm_scenario(p, SizeTieredCompaction(min_sstables=2), SyncEveryWrite())


@scenario("storage.lsm_leveled_wal_batch", "storage")
def lsm_leveled_wal_batch(seed, params):
    """Leveled compaction with tiny level budgets, WAL synced per batch."""
    p = P(params, seed)
    return _lsm_scenario(p, LeveledCompaction(level_0_max=2, size_ratio=2, base_size_keys=1), SyncOnBatch(batch_size=p.cap(2)))


@scenario("storage.lsm_fifo_wal_periodic", "storage")
def lsm_fifo_wal_periodic(seed, params):
    """FIFO compaction (more than 2 SSTables in total), WAL synced periodically."""
    p = P(params, seed)
    return _lsm_scenario(p, FIFOCompaction(max_total_sstables=2), SyncPeriodic(interval_s=p.lat(4)))


@scenario("storage.lsm_no_wal_default_strategy", "storage")
def lsm_no_wal_default_strategy(seed, params):
    """No WAL, default (size-tiered, 4) strategy, larger burst so that L0 reaches 4 SSTables."""
    p = P(params, seed)
    return _lsm_scenario(p, None, None, use_wal=False, n_default=12)


@scenario("storage.lsm_crash_recover", "storage")
def lsm_crash_recover(seed, params):
    """An operator crashes the tree (memtable + unsynced WAL lost) while writers are active,
    then replays the WAL; the writers carry on."""
    p = P(params, seed)
    hold = p.hold()

    def operator(lsm, wal):
        def fn(proc, event):
            yield hold
            lost = lsm.crash()
            yield p.lat(5)
            rec = lsm.recover_from_crash()
            yield from lsm.put("after-crash", 1)
            r = yield from lsm.get("after-crash")
            proc.log.append((lost, rec, r))
            proc.done += 1

        return fn

    return _lsm_scenario(p, SizeTieredCompaction(min_sstables=3), SyncOnBatch(batch_size=3), operator=operator)


# ----------------------------------------------------------------------
# Memtable / SSTable / WriteAheadLog used directly


@scenario("storage.memtable_direct", "storage")
def memtable_direct(seed, params):
    """A stand-alone Memtable: timed put / get from many workers; the worker that fills it
    flushes it to an SSTable (whose lookup API is synchronous) while the others keep going."""
    p = P(params, seed)
    mt = Memtable("memtable", size_threshold=p.cap(2) + 1, write_latency=p.lat(0), read_latency=p.lat(1))
    tables: list[SSTable] = []
    hold = p.hold()

    def body(proc, event):
        i = _w(event)
        k = KEYS[i % 4]
        full = yield from mt.put(k, i)
        v = yield from mt.get(KEYS[(i + 1) % 4])
        if full:
            yield hold
            sst = mt.flush()
            tables.append(sst)
            proc.log.append((sst.key_count, sst.page_reads_for_get(k), sst.get(k) is not None, len(sst.scan("a", "z"))))
        v2 = yield from mt.get(k)
        proc.log.append((full, v, v2))
        proc.done += 1

    arr = p.arrivals(8)
    procs = [Proc(f"w{i}", body) for i in range(len(arr))]
    sim = make_sim([mt, *procs], p.end())
    _start(sim, procs, arr)
    return Scenario(sim, {"memtable": mt}, "storage", True, len(arr))


@scenario("storage.wal_sync_policies", "storage")
def wal_sync_policies(seed, params):
    """Three WALs (every-write / periodic / batch) appended to concurrently; a janitor
    truncates, crashes and recovers them while appends are in flight."""
    p = P(params, seed)
    wals = [
        WriteAheadLog("wal_every", sync_policy=SyncEveryWrite(), write_latency=p.lat(0), sync_latency=p.lat(1)),
        WriteAheadLog("wal_periodic", sync_policy=SyncPeriodic(interval_s=p.lat(2) * 2), write_latency=p.lat(3), sync_latency=p.lat(4)),
        WriteAheadLog("wal_batch", sync_policy=SyncOnBatch(batch_size=p.cap(2) + 1), write_latency=p.lat(5), sync_latency=p.lat(6)),
    ]
    hold = p.hold()

    def body(proc, event):
        i = _w(event)
        seqs = []
        for r in range(3):
            w = wals[(i + r) % 3]
            s = yield from w.append(KEYS[i % 3], (i, r))
            seqs.append(s)
            if r == 0:
                yield hold
        wals[i % 3].append_sync("sync-key", i)
        proc.log.append(seqs)
        proc.done += 1

    def janitor(proc, event):
        yield hold * 0.5
        for w in wals:
            w.truncate(w.synced_up_to // 2)
        yield hold
        lost = [w.crash() for w in wals]
        rec = [len(w.recover()) for w in wals]
        yield hold
        s = yield from wals[0].append("post-crash", 0)
        proc.log.append((lost, rec, s))
        proc.done += 1

    arr = p.arrivals(8)
    procs = [Proc(f"w{i}", body) for i in range(len(arr))]
    jan = Proc("janitor", janitor)
    sim = make_sim([*wals, jan, *procs], p.end())
    _start(sim, procs, arr)
    sim.schedule(ev(min(arr), "start", jan, worker=-1))
    return Scenario(sim, {w.name: w for w in wals}, "storage", True, len(arr) + 1)


# ----------------------------------------------------------------------
# BTree


@scenario("storage.btree_contention", "storage")
def btree_contention(seed, params):
    """Order-3 BTree: inserts split nodes and grow the tree while gets, deletes and scans
    of other workers are half-way down the old tree."""
    p = P(params, seed)
    bt = BTree("btree", order=3 + int(p.x("v", 0)) % 2, page_read_latency=p.lat(0), page_write_latency=p.lat(1))
    for j, k in enumerate(KEYS[:3]):
        bt.put_sync(k, 100 + j)
    hold = p.hold()

    def body(proc, event):
        i = _w(event)
        k = KEYS[i % len(KEYS)]
        if i % 4 == 0:
            yield from bt.put(f"{k}-{i}", i)
            yield from bt.put(k, i)
            r = yield from bt.get(k)
        elif i % 4 == 1:
            r0 = yield from bt.get(k)
            yield hold
            r1 = yield from bt.scan("a", "z")
            r = (r0, len(r1))
        elif i % 4 == 2:
            yield from bt.put(k, -i)
            r0 = yield from bt.delete(k)
            r1 = yield from bt.delete("zz-missing")
            r = (r0, r1)
        else:
            for j in range(3):
                yield from bt.put(f"n{i}-{j}", j)
            r = yield from bt.get(f"n{i}-1")
        proc.log.append(str(r))
        proc.done += 1

    arr = p.arrivals(10)
    procs = [Proc(f"w{i}", body) for i in range(len(arr))]
    sim = make_sim([bt, *procs], p.end())
    _start(sim, procs, arr)
    return Scenario(sim, {"btree": bt}, "storage", True, len(arr))


# ----------------------------------------------------------------------
# TransactionManager


def _txn_scenario(p, level: IsolationLevel, store_kind: str):
    ents = []
    if store_kind == "lsm":
        wal = WriteAheadLog("wal", sync_policy=SyncOnBatch(batch_size=2), write_latency=p.lat(0), sync_latency=p.lat(1))
        store = LSMTree(
            "store",
            memtable_size=2,
            compaction_strategy=SizeTieredCompaction(min_sstables=2),
            wal=wal,
            sstable_read_latency=p.lat(2),
            sstable_write_latency=p.lat(3),
            max_levels=3,
        )
        ents += [store, wal]
    else:
        store = BTree("store", order=3, page_read_latency=p.lat(2), page_write_latency=p.lat(3))
        ents += [store]
    tm = TransactionManager("tm", store, isolation=level, deadlock_detection=True)
    hold = p.hold()
    levels = list(IsolationLevel)

    def body(proc, event):
        i = _w(event)
        if i % 4 == 3:
            tx = tm.begin_sync(isolation=levels[i % 3])  # per-transaction override
        else:
            tx = yield from tm.begin()
        v0 = yield from tx.read(KEYS[0])  # everybody reads the hot key ...
        yield hold
        yield from tx.write(KEYS[i % 2], i)  # ... and half of them write it
        v1 = yield from tx.read(KEYS[i % 2])  # own write
        v2 = yield from tx.read(KEYS[2 + i % 3])
        if i % 5 == 4:
            tx.abort()
            ok = None
        else:
            ok = yield from tx.commit()
        proc.log.append((tx.tx_id, v0, v1, v2, ok))
        proc.done += 1

    def seeder(proc, event):
        # committed before the burst: the data the others read through the storage engine
        tx = yield from tm.begin()
        for j, k in enumerate(KEYS):
            yield from tx.write(k, 100 + j)
        ok = yield from tx.commit()
        proc.log.append(ok)
        proc.done += 1

    arr = p.arrivals(8)
    procs = [Proc(f"t{i}", body) for i in range(len(arr))]
    sd = Proc("seeder", seeder)
    sim = make_sim([*ents, tm, sd, *procs], p.end())
    sim.schedule(ev(0, "start", sd, worker=-1))
    _start(sim, procs, arr)
    return Scenario(sim, {"tm": tm, "store": store}, "storage", True, len(arr) + 1, notes=level.name)


@scenario("storage.txn_snapshot_isolation_lsm", "storage")
def txn_snapshot_isolation_lsm(seed, params):
    """Write-write conflicts under snapshot isolation over an LSMTree (+WAL)."""
    return _txn_scenario(P(params, seed), IsolationLevel.SNAPSHOT_ISOLATION, "lsm")


@scenario("storage.txn_serializable_btree", "storage")
def txn_serializable_btree(seed, params):
    """Read-write conflicts under serializable isolation over a BTree."""
    return _txn_scenario(P(params, seed), IsolationLevel.SERIALIZABLE, "btree")


@scenario("storage.txn_read_committed_lsm", "storage")
def txn_read_committed_lsm(seed, params):
    """No conflict detection (read committed): every commit goes to the LSMTree synchronously,
    flushing and compacting it inside commit()."""
    return _txn_scenario(P(params, seed), IsolationLevel.READ_COMMITTED, "lsm")

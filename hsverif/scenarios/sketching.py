"""sketching family: SketchCollector, TopKCollector, QuantileEstimator.

The collectors are sinks (they never emit), so each builder puts a library Server with a
positive service time in front: requests arrive in bursts, queue, and reach the collector
when their service completes.  One builder feeds them from a Source instead of explicit
arrivals.
"""

from __future__ import annotations

import random

from happysimulator.components.server import Server
from happysimulator.components.sketching import QuantileEstimator, SketchCollector, TopKCollector
from happysimulator.load.source import SimpleEventProvider, Source
from happysimulator.sketching.bloom_filter import BloomFilter
from happysimulator.sketching.count_min_sketch import CountMinSketch
from happysimulator.sketching.hyperloglog import HyperLogLog
from happysimulator.sketching.reservoir import ReservoirSampler

from hsverif.scenarios import Scenario, scenario
from hsverif.scenarios._kit import (
    FRONT_STAGES,
    ConstantLatency,
    Entity,
    Event,
    ExponentialLatency,
    Instant,
    P,
    Proc,
    ev,
    front_stage,
    make_sim,
)


class FanOut(Entity):
    """Harness tee: forwards every event to all collectors at the current instant."""

    def __init__(self, name: str, targets: list):
        super().__init__(name)
        self.targets = targets
        self.seen = 0

    def handle_event(self, event):
        self.seen += 1
        return [Event(time=self.now, event_type=event.event_type, target=t, context=event.context) for t in self.targets]


def _md(e: Event, key: str, default=None):
    return e.context.get("metadata", {}).get(key, default)


def _latency(e: Event) -> float | None:
    created = e.context.get("created_at")
    return (e.time - created).to_seconds() if created is not None else None


@scenario("sketching.collectors_behind_server", "sketching")
def collectors_behind_server(seed, params):
    """Burst -> bounded Server (positive service time) -> TopKCollector, QuantileEstimator and
    a CountMin SketchCollector (weighted) fed with the completed requests."""
    p = P(params, seed)
    rng = random.Random(seed)
    topk = TopKCollector("topk", k=p.count(0, 3), value_extractor=lambda e: _md(e, "customer"), count_extractor=lambda e: _md(e, "weight", 1), seed=seed)
    quant = QuantileEstimator("latency", value_extractor=_latency, compression=50.0, seed=seed)
    cms = SketchCollector(
        "cms",
        sketch=CountMinSketch(width=64, depth=4, seed=seed),
        value_extractor=lambda e: _md(e, "customer"),
        weight_extractor=lambda e: _md(e, "weight", 1),
    )
    tee = FanOut("tee", [topk, quant, cms])
    srv = Server("srv", concurrency=p.cap(2), service_time=ConstantLatency(p.lat(0)), queue_capacity=12, downstream=tee)
    arr = p.arrivals(12)
    sim = make_sim([srv, tee, topk, quant, cms], p.end())
    for i, t in enumerate(arr):
        cust = rng.choice(["alice", "alice", "alice", "bob", "bob", "carol", None])
        sim.schedule(ev(t, "Request", srv, i=i, customer=cust, weight=1 + i % 3))
    return Scenario(sim, {"srv": srv, "topk": topk, "latency": quant, "cms": cms}, "sketching", True, len(arr))


@scenario("sketching.sketch_collectors_each_sketch", "sketching")
def sketch_collectors_each_sketch(seed, params):
    """One SketchCollector per sketch type (HyperLogLog, BloomFilter, ReservoirSampler,
    CountMin) behind a pipeline of counts[0] Servers (constant / exponential service); the
    collectors are cleared mid-run by direct calls from a harness event."""
    p = P(params, seed)
    rng = random.Random(seed)
    cols = [
        SketchCollector("hll", sketch=HyperLogLog(precision=6, seed=seed), value_extractor=lambda e: _md(e, "user")),
        SketchCollector("bloom", sketch=BloomFilter(size_bits=256, num_hashes=3, seed=seed), value_extractor=lambda e: _md(e, "user")),
        SketchCollector("reservoir", sketch=ReservoirSampler(size=4, seed=seed), value_extractor=lambda e: _md(e, "i")),
        SketchCollector("cms", sketch=CountMinSketch(width=32, depth=3, seed=seed), value_extractor=lambda e: _md(e, "user")),
    ]
    topk = TopKCollector("topk", k=2, value_extractor=lambda e: _md(e, "user"), seed=seed)
    quant = QuantileEstimator("q", value_extractor=lambda e: float(_md(e, "i", 0)), seed=seed)
    tee = FanOut("tee", [*cols, topk, quant])
    # counts[0] Server stages in a row (default 2); the first one is the entry
    stages: list = []
    nxt = tee
    for j in reversed(range(p.count(0, 2, hi=5))):
        svc = ConstantLatency(p.lat(j)) if j % 2 == 0 else ExponentialLatency(p.lat(j))
        nxt = Server(f"stage{j + 1}", concurrency=p.cap(2) if j == 0 else 1, service_time=svc, queue_capacity=40, downstream=nxt)
        stages.insert(0, nxt)
    s1 = stages[0]

    def clear_all(proc, event):
        for c in cols:
            c.clear()
        topk.clear()
        quant.clear()
        proc.done += 1

    clr = Proc("clearer", clear_all)
    arr = p.arrivals(12)
    sim = make_sim([*stages, tee, clr, topk, quant, *cols], p.end())
    nusers = p.count(1, 6)
    for i, t in enumerate(arr):
        sim.schedule(ev(t, "Request", s1, i=i, user=f"u{rng.randrange(nusers)}"))
    mid = sorted(arr)[len(arr) // 2] + int(p.lat(0) * 1e9) + 1
    sim.schedule(ev(mid, "clear", clr))
    return Scenario(sim, {**{st.name: st for st in stages}, "topk": topk, "q": quant, **{c.name: c for c in cols}}, "sketching", True, len(arr) + 1)


@scenario("sketching.collectors_fed_by_source", "sketching")
def collectors_fed_by_source(seed, params):
    """A poisson Source (stops after a while) -> Server -> collectors; plus the explicit burst."""
    p = P(params, seed)
    rng = random.Random(seed)
    topk = TopKCollector("topk", k=3, value_extractor=lambda e: e.context.get("customer"), seed=seed)
    quant = QuantileEstimator("latency", value_extractor=_latency, seed=seed)
    hll = SketchCollector("hll", sketch=HyperLogLog(precision=5, seed=seed), value_extractor=lambda e: e.context.get("request_id"))
    tee = FanOut("tee", [topk, quant, hll])
    srv = Server("srv", concurrency=p.cap(2), service_time=ExponentialLatency(p.lat(0)), queue_capacity=10, downstream=tee)
    stop = min(2.0, p.end() / 4)
    provider = SimpleEventProvider(
        srv,
        "Request",
        stop_after=Instant.from_seconds(stop),
        context_fn=lambda t, n: {"created_at": t, "request_id": n, "customer": f"c{(n * 7 + seed) % 5}"},
    )
    src = Source.poisson(rate=20.0, name="source", event_provider=provider)
    arr = p.arrivals(8)
    sim = make_sim([srv, tee, topk, quant, hll], p.end(), sources=[src])
    for i, t in enumerate(arr):
        sim.schedule(ev(t, "Request", srv, context={"customer": rng.choice(["c0", "c1", "zz"]), "request_id": 10_000 + i}, i=i))
    return Scenario(sim, {"srv": srv, "topk": topk, "latency": quant, "hll": hll, "source": src}, "sketching", True, len(arr) + int(stop * 20))


@scenario("sketching.composed_collectors_behind_front_stage", "sketching")
def composed_collectors_behind_front_stage(seed, params):
    """Front stage (x.v % 5) -> Server -> collectors: the latency fed to the QuantileEstimator
    is arrival time - creation time, i.e. the stage delay plus queueing and service."""
    p = P(params, seed)
    v = int(p.x("v", seed * 7 + 3))
    fk = FRONT_STAGES[v % 5]
    topk = TopKCollector("topk", k=p.count(0, 2), value_extractor=lambda e: _md(e, "customer"), seed=seed)
    quant = QuantileEstimator("latency", value_extractor=_latency, compression=20.0 + 10 * p.count(1, 3), seed=seed)
    hll = SketchCollector("hll", sketch=HyperLogLog(precision=4, seed=seed), value_extractor=lambda e: _md(e, "i"))
    tee = FanOut("tee", [topk, quant, hll])
    srv = Server("srv", concurrency=p.cap(2), service_time=ConstantLatency(p.lat(1)), queue_capacity=40, downstream=tee)
    entry, fents = front_stage(fk, p, srv, 0)
    arr = p.arrivals(10)
    sim = make_sim([srv, tee, topk, quant, hll, *fents], p.end())
    nc = p.count(2, 3)
    for i, t in enumerate(arr):
        sim.schedule(ev(t, "Request", entry, i=i, customer=f"c{i % nc}"))
    sc = Scenario(sim, {"topk": topk, "latency": quant, "hll": hll}, "sketching", True, len(arr))
    sc.notes = f"front={fk}"
    return sc


@scenario("sketching.degenerate_collectors", "sketching")
def degenerate_collectors(seed, params):
    """Extractors that always return None, k=1, weight 0, a minimal t-digest compression, a
    reservoir of one slot, a one-bit Bloom filter; everything cleared twice and queried while
    empty (harness calls) before and after the traffic."""
    p = P(params, seed)
    none_topk = TopKCollector("topk.none", k=1, value_extractor=lambda e: None, seed=seed)
    one_topk = TopKCollector("topk.one", k=1, value_extractor=lambda e: _md(e, "i"), count_extractor=lambda e: _md(e, "w", 1), seed=seed)
    none_q = QuantileEstimator("q.none", value_extractor=lambda e: None, seed=seed)
    small_q = QuantileEstimator("q.small", value_extractor=lambda e: 0.0, compression=1.0, seed=seed)
    res = SketchCollector("reservoir.one", sketch=ReservoirSampler(size=1, seed=seed), value_extractor=lambda e: _md(e, "i"))
    bloom = SketchCollector("bloom.bit", sketch=BloomFilter(size_bits=1, num_hashes=1, seed=seed), value_extractor=lambda e: _md(e, "i"))
    cms = SketchCollector("cms.zero_weight", sketch=CountMinSketch(width=1, depth=1, seed=seed), value_extractor=lambda e: _md(e, "i"), weight_extractor=lambda e: 1 + _md(e, "i", 0) % 2)
    cols = [none_topk, one_topk, none_q, small_q, res, bloom, cms]
    tee = FanOut("tee", cols)
    srv = Server("srv", concurrency=1, service_time=ConstantLatency(p.lat(0)), queue_capacity=40, downstream=tee)

    def probe(proc, event):
        proc.log.append((none_q.summary().count, small_q.summary().count, len(one_topk.top()), one_topk.estimate("nope"), none_topk.total_count))
        for c in cols:
            c.clear()
            c.clear()
        proc.done += 1

    pr = Proc("probe", probe)
    arr = p.arrivals(6)
    sim = make_sim([srv, tee, pr, *cols], p.end())
    sim.schedule(ev(min(arr), "probe", pr))
    for i, t in enumerate(arr):
        sim.schedule(ev(t, "Request", srv, i=i, w=1 + i % 2))
    sim.schedule(ev(max(arr) + int(p.lat(0) * 1e9 * (len(arr) + 2)) + 1, "probe", pr))
    return Scenario(sim, {"srv": srv, **{c.name: c for c in cols}, "probe": pr}, "sketching", True, len(arr) + 2)

"""sketching family: SketchCollector, TopKCollector, QuantileEstimator.

The collectors are sinks (they never emit), so each builder puts a library Server with a
positive service time in front: requests arrive in bursts, queue, and reach the collector
when their service completes.  One builder feeds them from a Source instead of explicit
arrivals.
"""

from __future__ import annotations

import random

from happysimulator.components.server import Server
from happysimulator.components.sketching import QuantileEstimator, SketchCollector, TopKCollector
from happysimulator.load.source import SimpleEventProvider, Source
from happysimulator.sketching.bloom_filter import BloomFilter
from happysimulator.sketching.count_min_sketch import CountMinSketch
from happysimulator.sketching.hyperloglog import HyperLogLog
from happysimulator.sketching.reservoir import ReservoirSampler

from hsverif.scenarios import Scenario, scenario
from hsverif.scenarios._kit import ConstantLatency, Entity, Event, ExponentialLatency, Instant, P, Proc, ev, make_sim


class FanOut(Entity):
    """Harness tee: forwards every event to all collectors at the current instant."""

    def __init__(self, name: str, targets: list):
        super().__init__(name)
        self.targets = targets
        self.seen = 0

    def handle_event(self, event):
        self.seen += 1
        return [Event(time=self.now, event_type=event.event_type, target=t, context=event.context) for t in self.targets]


def _md(e: Event, key: str, default=None):
    return e.context.get("metadata", {}).get(key, default)


def _latency(e: Event) -> float | None:
    created = e.context.get("created_at")
    return (e.time - created).to_seconds() if created is not None else None


@scenario("sketching.collectors_behind_server", "sketching")
def collectors_behind_server(seed, params):
    """Burst -> bounded Server (positive service time) -> TopKCollector, QuantileEstimator and
    a CountMin SketchCollector (weighted) fed with the completed requests."""
    p = P(params, seed)
    rng = random.Random(seed)
    topk = TopKCollector("topk", k=3, value_extractor=lambda e: _md(e, "customer"), count_extractor=lambda e: _md(e, "weight", 1), seed=seed)
    quant = QuantileEstimator("latency", value_extractor=_latency, compression=50.0, seed=seed)
    cms = SketchCollector(
        "cms",
        sketch=CountMinSketch(width=64, depth=4, seed=seed),
        value_extractor=lambda e: _md(e, "customer"),
        weight_extractor=lambda e: _md(e, "weight", 1),
    )
    tee = FanOut("tee", [topk, quant, cms])
    srv = Server("srv", concurrency=p.cap(2), service_time=ConstantLatency(p.lat(0)), queue_capacity=12, downstream=tee)
    arr = p.arrivals(12)
    sim = make_sim([srv, tee, topk, quant, cms], p.end())
    for i, t in enumerate(arr):
        cust = rng.choice(["alice", "alice", "alice", "bob", "bob", "carol", None])
        sim.schedule(ev(t, "Request", srv, i=i, customer=cust, weight=1 + i % 3))
    return Scenario(sim, {"srv": srv, "topk": topk, "latency": quant, "cms": cms}, "sketching", True, len(arr))


@scenario("sketching.sketch_collectors_each_sketch", "sketching")
def sketch_collectors_each_sketch(seed, params):
    """One SketchCollector per sketch type (HyperLogLog, BloomFilter, ReservoirSampler,
    CountMin) behind a two-stage Server pipeline with exponential service times; the
    collectors are cleared mid-run by direct calls from a harness event."""
    p = P(params, seed)
    rng = random.Random(seed)
    cols = [
        SketchCollector("hll", sketch=HyperLogLog(precision=6, seed=seed), value_extractor=lambda e: _md(e, "user")),
        SketchCollector("bloom", sketch=BloomFilter(size_bits=256, num_hashes=3, seed=seed), value_extractor=lambda e: _md(e, "user")),
        SketchCollector("reservoir", sketch=ReservoirSampler(size=4, seed=seed), value_extractor=lambda e: _md(e, "i")),
        SketchCollector("cms", sketch=CountMinSketch(width=32, depth=3, seed=seed), value_extractor=lambda e: _md(e, "user")),
    ]
    topk = TopKCollector("topk", k=2, value_extractor=lambda e: _md(e, "user"), seed=seed)
    quant = QuantileEstimator("q", value_extractor=lambda e: float(_md(e, "i", 0)), seed=seed)
    tee = FanOut("tee", [*cols, topk, quant])
    s2 = Server("stage2", concurrency=1, service_time=ExponentialLatency(p.lat(1)), queue_capacity=20, downstream=tee)
    s1 = Server("stage1", concurrency=p.cap(2), service_time=ConstantLatency(p.lat(0)), queue_capacity=20, downstream=s2)

    def clear_all(proc, event):
        for c in cols:
            c.clear()
        topk.clear()
        quant.clear()
        proc.done += 1

    clr = Proc("clearer", clear_all)
    arr = p.arrivals(12)
    sim = make_sim([s1, s2, tee, clr, topk, quant, *cols], p.end())
    for i, t in enumerate(arr):
        sim.schedule(ev(t, "Request", s1, i=i, user=f"u{rng.randrange(6)}"))
    mid = sorted(arr)[len(arr) // 2] + int(p.lat(0) * 1e9) + 1
    sim.schedule(ev(mid, "clear", clr))
    return Scenario(sim, {"stage1": s1, "stage2": s2, "topk": topk, "q": quant, **{c.name: c for c in cols}}, "sketching", True, len(arr) + 1)


@scenario("sketching.collectors_fed_by_source", "sketching")
def collectors_fed_by_source(seed, params):
    """A poisson Source (stops after a while) -> Server -> collectors; plus the explicit burst."""
    p = P(params, seed)
    rng = random.Random(seed)
    topk = TopKCollector("topk", k=3, value_extractor=lambda e: e.context.get("customer"), seed=seed)
    quant = QuantileEstimator("latency", value_extractor=_latency, seed=seed)
    hll = SketchCollector("hll", sketch=HyperLogLog(precision=5, seed=seed), value_extractor=lambda e: e.context.get("request_id"))
    tee = FanOut("tee", [topk, quant, hll])
    srv = Server("srv", concurrency=p.cap(2), service_time=ExponentialLatency(p.lat(0)), queue_capacity=10, downstream=tee)
    stop = min(2.0, p.end() / 4)
    provider = SimpleEventProvider(
        srv,
        "Request",
        stop_after=Instant.from_seconds(stop),
        context_fn=lambda t, n: {"created_at": t, "request_id": n, "customer": f"c{(n * 7 + seed) % 5}"},
    )
    src = Source.poisson(rate=20.0, name="source", event_provider=provider)
    arr = p.arrivals(8)
    sim = make_sim([srv, tee, topk, quant, hll], p.end(), sources=[src])
    for i, t in enumerate(arr):
        sim.schedule(ev(t, "Request", srv, context={"customer": rng.choice(["c0", "c1", "zz"]), "request_id": 10_000 + i}, i=i))
    return Scenario(sim, {"srv": srv, "topk": topk, "latency": quant, "hll": hll, "source": src}, "sketching", True, len(arr) + int(stop * 20))

"""resilience family: Bulkhead, CircuitBreaker, Fallback, Hedge, TimeoutWrapper.

The wrappers attach a completion hook to the forwarded request; the hook fires when the
target's handler (generator) finishes.  Targets are generator backends with positive,
per-request varying service times (`VarBackend`, as in the repository's unit tests) so
that responses land before *and* after the wrapper's own timers, plus library Servers.
"""

from __future__ import annotations

from happysimulator.components.client import Client
from happysimulator.components.client.retry import ExponentialBackoff, FixedRetry
from happysimulator.components.resilience import Bulkhead, CircuitBreaker, Fallback, Hedge, TimeoutWrapper
from happysimulator.components.server import Server

from hsverif.scenarios import Scenario, scenario
from hsverif.scenarios._kit import (
    FRONT_STAGES,
    ConstantLatency,
    Entity,
    Event,
    P,
    Proc,
    Recorder,
    Replier,
    ev,
    front_stage,
    make_sim,
)


class VarBackend(Entity):
    """Generator backend: the k-th request takes services[k % len] seconds (all positive)."""

    def __init__(self, name: str, services: list[float], downstream=None, fail_every: int = 0):
        super().__init__(name)
        self.services = [float(s) for s in services]
        self.downstream = downstream
        self.fail_every = fail_every
        self.received = 0
        self.completed = 0
        self.active = 0
        self.peak_active = 0

    def handle_event(self, event):
        k = self.received
        self.received += 1
        self.active += 1
        self.peak_active = max(self.peak_active, self.active)
        yield self.services[k % len(self.services)]
        self.active -= 1
        self.completed += 1
        if self.downstream is not None:
            return [Event(time=self.now, event_type=f"{event.event_type}.done", target=self.downstream)]
        return None

    @property
    def stats(self):
        return {"received": self.received, "completed": self.completed, "peak_active": self.peak_active}


def _hooked(e: Event, rec: Recorder) -> Event:
    e.add_completion_hook(lambda t: Event(time=t, event_type="caller.completed", target=rec))
    return e


def _tail(arr: list[int], gap_s: float, k: int) -> list[int]:
    g = max(1, int(gap_s * 1e9))
    return [max(arr) + (j + 1) * g + j for j in range(k)]


def _send(sim, target, arr, rec=None, **md):
    for i, t in enumerate(arr):
        e = ev(t, "Request", target, i=i, fail=(i % 3 != 2), **md)
        sim.schedule(_hooked(e, rec) if rec is not None and i % 2 == 0 else e)


# ----------------------------------------------------------------------
# Bulkhead


@scenario("resilience.bulkhead_queue_timeouts", "resilience")
def bulkhead_queue_timeouts(seed, params):
    """Burst > max_concurrent; the wait queue is bounded and max_wait_time is shorter than
    some service times, so queued requests time out while permits are still held."""
    p = P(params, seed)
    arr = p.arrivals(9)
    cap = min(p.cap(2), max(1, len(arr) - 2))  # always below the burst
    hold = p.hold()
    rec = Recorder("rec")
    be = VarBackend("be", [hold, hold * 0.25, hold * 3], downstream=rec)
    bh = Bulkhead("bulkhead", target=be, max_concurrent=cap, max_wait_queue=p.count(0, cap + 2), max_wait_time=p.lat(0))
    sim = make_sim([bh, be, rec], p.end())
    _send(sim, bh, arr, rec)
    return Scenario(sim, {"bulkhead": bh, "be": be, "rec": rec}, "resilience", True, len(arr))


@scenario("resilience.bulkhead_long_wait", "resilience")
def bulkhead_long_wait(seed, params):
    """max_wait_time longer than the service time (timers fire for requests that were already
    dequeued) and one builder run without max_wait_time at all (x.no_wait_time)."""
    p = P(params, seed)
    arr = p.arrivals(7)
    cap = min(p.cap(1), max(1, len(arr) - 2))
    hold = p.hold()
    be = VarBackend("be", [hold, hold * 0.5])
    wait = None if p.x("no_wait_time", False) else hold * 2.5 + p.lat(0)
    bh = Bulkhead("bulkhead", target=be, max_concurrent=cap, max_wait_queue=p.count(0, 3), max_wait_time=wait)
    sim = make_sim([bh, be], p.end())
    _send(sim, bh, arr)
    return Scenario(sim, {"bulkhead": bh, "be": be}, "resilience", True, len(arr))


@scenario("resilience.bulkhead_server_target", "resilience")
def bulkhead_server_target(seed, params):
    """Bulkhead in front of a queued library Server (bounded queue), tiny max_wait_time."""
    p = P(params, seed)
    rec = Recorder("rec")
    srv = Server("srv", concurrency=1, service_time=ConstantLatency(p.hold()), queue_capacity=2, downstream=rec)
    bh = Bulkhead("bulkhead", target=srv, max_concurrent=p.cap(2), max_wait_queue=p.count(0, 2, lo=0), max_wait_time=p.lat(1))
    arr = p.arrivals(8)
    sim = make_sim([bh, srv, rec], p.end())
    _send(sim, bh, arr, rec)
    return Scenario(sim, {"bulkhead": bh, "srv": srv, "rec": rec}, "resilience", True, len(arr))


# ----------------------------------------------------------------------
# CircuitBreaker


@scenario("resilience.circuit_breaker_trips_and_recovers", "resilience")
def circuit_breaker_trips_and_recovers(seed, params):
    """Failing requests (failure_predicate) open the circuit while earlier requests are still
    in flight; the reset timeout is small so later arrivals find it half-open; a client with
    a timeout and retries calls through the breaker."""
    p = P(params, seed)
    svc = p.lat(0)
    reset = p.lat(1)
    transitions: list = []
    be = VarBackend("be", [svc, svc * 2, svc * 0.5])
    cb = CircuitBreaker(
        "breaker",
        target=be,
        failure_threshold=p.count(0, 2, hi=5),
        success_threshold=p.count(1, 2, hi=3),
        timeout=reset,
        half_open_max_requests=p.cap(1),
        failure_predicate=lambda e: bool(e.context.get("metadata", {}).get("fail")),
        on_state_change=lambda old, new: transitions.append((old.name, new.name)),
    )
    client = Client("client", target=cb, timeout=svc * 1.5, retry_policy=FixedRetry(max_attempts=2, delay=p.lat(2)))
    arr = p.arrivals(8)
    arr = sorted(arr + _tail(arr, svc * 2 + reset * 1.25, 6))
    sim = make_sim([cb, be, client], p.end())
    for i, t in enumerate(arr):
        if i % 4 == 3:
            sim.schedule(ev(t, "request", client, request_id=1000 + i, payload=i, attempt=1))
        else:
            sim.schedule(ev(t, "Request", cb, i=i, fail=(i % 3 != 2) and i < len(arr) - 4))
    return Scenario(
        sim, {"breaker": cb, "be": be, "client": client}, "resilience", True, len(arr), extras={"transitions": transitions}
    )


@scenario("resilience.circuit_breaker_manual_control", "resilience")
def circuit_breaker_manual_control(seed, params):
    """An operator process forces the breaker open / closed and records outcomes by hand
    (record_failure / record_success / reset) between bursts; Server target."""
    p = P(params, seed)
    rec = Recorder("rec")
    srv = Server("srv", concurrency=p.cap(2), service_time=ConstantLatency(p.lat(0)), queue_capacity=5, downstream=rec)
    cb = CircuitBreaker("breaker", target=srv, failure_threshold=1, success_threshold=1, timeout=p.lat(1), half_open_max_requests=2)
    lat = p.lat(2)

    def operator(proc, event):
        yield lat
        cb.record_failure()  # threshold 1: opens now
        proc.log.append(cb.state.name)
        yield p.lat(1) * 1.5  # past the reset timeout: the state property half-opens it
        proc.log.append(cb.state.name)
        cb.record_success()
        proc.log.append(cb.state.name)
        yield lat
        cb.force_open()
        yield lat
        cb.force_close()
        yield lat
        cb.reset()
        proc.done += 1

    op = Proc("operator", operator)
    arr = p.arrivals(8)
    arr = sorted(arr + _tail(arr, lat + p.lat(1) * 0.75, 5))
    sim = make_sim([cb, srv, rec, op], p.end())
    _send(sim, cb, arr, rec)
    sim.schedule(ev(min(arr), "start", op))
    return Scenario(sim, {"breaker": cb, "srv": srv, "rec": rec, "operator": op}, "resilience", True, len(arr) + 1)


# ----------------------------------------------------------------------
# Fallback


@scenario("resilience.fallback_timeout_to_entity", "resilience")
def fallback_timeout_to_entity(seed, params):
    """Primary slower than the timeout for some requests (the late primary response arrives
    while the fallback is in flight), failing for others (failure_predicate); fallback is an
    entity with its own positive latency."""
    p = P(params, seed)
    to = p.lat(0)
    rec = Recorder("rec")
    primary = VarBackend("primary", [to * 0.5, to * 3, to * 1.5])
    secondary = VarBackend("secondary", [p.lat(1), p.lat(1) * 4], downstream=rec)
    fb = Fallback(
        "fallback",
        primary=primary,
        fallback=secondary,
        failure_predicate=lambda e: e.context.get("metadata", {}).get("i", 0) % 4 == 1,
        timeout=to,
    )
    arr = p.arrivals(8)
    sim = make_sim([fb, primary, secondary, rec], p.end())
    _send(sim, fb, arr, rec)
    return Scenario(sim, {"fallback": fb, "primary": primary, "secondary": secondary, "rec": rec}, "resilience", True, len(arr))


@scenario("resilience.fallback_callable", "resilience")
def fallback_callable(seed, params):
    """Fallback given as a callable producing a cached-response event; primary is a slow
    bounded Server; timeout far below its latency."""
    p = P(params, seed)
    rec = Recorder("rec")
    primary = Server("primary", concurrency=p.cap(1), service_time=ConstantLatency(p.hold()), queue_capacity=3, downstream=rec)
    holder: dict = {}

    def cached(original):
        fb = holder["fb"]
        if original.context.get("metadata", {}).get("i", 0) % 5 == 4:
            return None
        return Event(time=fb.now, event_type="CachedResponse", target=rec)

    fb = Fallback("fallback", primary=primary, fallback=cached, failure_predicate=lambda e: True, timeout=p.lat(0))
    holder["fb"] = fb
    slow = VarBackend("slow", [p.hold() * 2])
    fb2 = Fallback("fallback2", primary=slow, fallback=cached, timeout=p.lat(1))
    arr = p.arrivals(8)
    sim = make_sim([fb, fb2, primary, slow, rec], p.end())
    for i, t in enumerate(arr):
        sim.schedule(ev(t, "Request", fb if i % 2 == 0 else fb2, i=i))
    return Scenario(sim, {"fallback": fb, "fallback2": fb2, "primary": primary, "rec": rec}, "resilience", True, len(arr))


# ----------------------------------------------------------------------
# Hedge


def _hedge(seed, params, max_hedges: int, ratio: float):
    p = P(params, seed)
    svc = p.lat(0)
    rec = Recorder("rec")
    be = VarBackend("be", [svc * 4, svc, svc * 2.5, svc * 0.5], downstream=rec)
    if max_hedges <= 0:
        max_hedges = p.count(0, 2, hi=5)
    hg = Hedge("hedge", target=be, hedge_delay=svc * ratio, max_hedges=max_hedges)
    arr = p.arrivals(8)
    sim = make_sim([hg, be, rec], p.end())
    _send(sim, hg, arr, rec)
    return Scenario(sim, {"hedge": hg, "be": be, "rec": rec}, "resilience", True, len(arr))


@scenario("resilience.hedge_single", "resilience")
def hedge_single(seed, params):
    """hedge_delay below the backend latency, one hedge; the hedge often overtakes the primary."""
    return _hedge(seed, params, 1, 0.75)


@scenario("resilience.hedge_double", "resilience")
def hedge_double(seed, params):
    """Several hedges (counts[0], default 2), tiny hedge_delay: all are sent before any response returns."""
    return _hedge(seed, params, 0, 0.2)


@scenario("resilience.hedge_cancelled_triggers", "resilience")
def hedge_cancelled_triggers(seed, params):
    """Two hedges allowed, hedge_delay between the fast and the slow responses: the second
    trigger usually arrives after a response completed the request and is cancelled."""
    return _hedge(seed, params, 2, 0.75)


@scenario("resilience.hedge_server_target", "resilience")
def hedge_server_target(seed, params):
    """Hedge in front of a queued library Server; max_hedges from x.max_hedges."""
    p = P(params, seed)
    rec = Recorder("rec")
    srv = Server("srv", concurrency=p.cap(2), service_time=ConstantLatency(p.lat(0)), queue_capacity=6, downstream=rec)
    hg = Hedge("hedge", target=srv, hedge_delay=p.lat(1), max_hedges=int(p.x("max_hedges", p.count(0, 2, hi=4))))
    arr = p.arrivals(7)
    sim = make_sim([hg, srv, rec], p.end())
    _send(sim, hg, arr)
    return Scenario(sim, {"hedge": hg, "srv": srv, "rec": rec}, "resilience", True, len(arr))


# ----------------------------------------------------------------------
# TimeoutWrapper


@scenario("resilience.timeout_wrapper_mixed", "resilience")
def timeout_wrapper_mixed(seed, params):
    """Timeout shorter than some responses and longer than others; the on_timeout callback
    emits a notification; late responses must be ignored."""
    p = P(params, seed)
    to = p.lat(0)
    rec = Recorder("rec")
    be = VarBackend("be", [to * 0.5, to * 2, to * 0.999, to * 1.001, to * 5], downstream=rec)
    holder: dict = {}

    def on_timeout(original):
        tw = holder["tw"]
        if original.context.get("metadata", {}).get("i", 0) % 3 == 0:
            return None
        return Event(time=tw.now, event_type="TimedOut", target=rec)

    tw = TimeoutWrapper("timeout", target=be, timeout=to, on_timeout=on_timeout)
    holder["tw"] = tw
    arr = p.arrivals(10)
    sim = make_sim([tw, be, rec], p.end())
    _send(sim, tw, arr, rec)
    return Scenario(sim, {"timeout": tw, "be": be, "rec": rec}, "resilience", True, len(arr))


@scenario("resilience.timeout_wrapper_stacked", "resilience")
def timeout_wrapper_stacked(seed, params):
    """Wrappers stacked the way the examples compose them: TimeoutWrapper -> Bulkhead -> backend
    and TimeoutWrapper (no callback) -> Server, timeouts at 0.5x and 3x the latency."""
    p = P(params, seed)
    hold = p.hold()
    rec = Recorder("rec")
    be = VarBackend("be", [hold, hold * 2])
    bh = Bulkhead("bulkhead", target=be, max_concurrent=p.cap(2), max_wait_queue=2, max_wait_time=p.lat(1))
    tw1 = TimeoutWrapper("timeout.short", target=bh, timeout=hold * 0.5)
    srv = Server("srv", concurrency=1, service_time=ConstantLatency(p.lat(0)), queue_capacity=4, downstream=rec)
    tw2 = TimeoutWrapper("timeout.long", target=srv, timeout=p.lat(0) * 3)
    arr = p.arrivals(8)
    sim = make_sim([tw1, tw2, bh, be, srv, rec], p.end())
    for i, t in enumerate(arr):
        sim.schedule(ev(t, "Request", tw1 if i % 2 == 0 else tw2, i=i))
    return Scenario(sim, {"tw1": tw1, "tw2": tw2, "bulkhead": bh, "srv": srv, "rec": rec}, "resilience", True, len(arr))


# ----------------------------------------------------------------------
# composition: every wrapper BEHIND a delaying / queueing stage, in front of different targets
#
#   x.v % 5        front stage (server_queue / conveyor / rate_limited / inductor / link)
#   (x.v // 5) % 3 target: zero-latency Replier / Replier 3x slower than the wrapper's timer / Server
#   (x.v // 15) % 2 the wrapper's timer = 0.5 x or 3 x the front stage latency (so queued requests
#                  reach the wrapper later than `timer` after their creation)


def _variant(p: P, seed: int):
    v = int(p.x("v", seed * 7 + 3))
    return FRONT_STAGES[v % 5], (v // 5) % 3, (0.5 if (v // 15) % 2 == 0 else 3.0), v


def _make_target(kind: int, p: P, timer: float, rec, name: str = "target"):
    if kind == 0:
        return Replier(name, 0.0, downstream=rec)
    if kind == 1:
        return Replier(name, timer * 3, downstream=rec)
    return Server(name, concurrency=p.cap(2), service_time=ConstantLatency(p.lat(1)), queue_capacity=8, downstream=rec)


def _composed(seed, params, make, default_n: int = 8, with_caller: bool = False):
    """make(p, target, timer, rec, n_arrivals) -> {name: entity}; the first entity is the entry wrapper.
    with_caller: every 4th request is issued by a Client (timeout 2 x timer) in front of the stage."""
    p = P(params, seed)
    fk, tk, scale, v = _variant(p, seed)
    timer = p.lat(0) * scale
    rec = Recorder("rec")
    target = _make_target(tk, p, timer, rec)
    arr = p.arrivals(default_n)
    comps = make(p, target, timer, rec, len(arr))
    wrapper = next(iter(comps.values()))
    entry, fents = front_stage(fk, p, wrapper, 0)
    caller = Client("caller", target=entry, timeout=timer * 2) if with_caller else None
    if caller is not None:
        comps = {**comps, "caller": caller}
    sim = make_sim([*comps.values(), target, rec, *fents], p.end())
    for i, t in enumerate(arr):
        if caller is not None and (i % 4 == 3 or i == len(arr) - 1):
            sim.schedule(ev(t, "Request", caller, i=i, fail=False, request_id=i + 1, payload=i, attempt=1))
        else:
            sim.schedule(ev(t, "Request", entry, i=i, fail=(i % 3 == 0), key=f"k{i % 3}"))
    sc = Scenario(sim, {**comps, "target": target, "rec": rec}, "resilience", True, len(arr))
    sc.notes = f"front={fk} target={('zero', 'slow', 'server')[tk]} timer={scale}x"
    return sc


def _fails(e) -> bool:
    return bool(e.context.get("metadata", {}).get("fail"))


@scenario("resilience.composed_timeout_wrapper", "resilience")
def composed_timeout_wrapper(seed, params):
    """TimeoutWrapper behind a front stage: requests reach it later than `timeout` after creation."""
    return _composed(seed, params, lambda p, tgt, timer, rec, n: {"timeout": TimeoutWrapper("timeout", target=tgt, timeout=timer)})


@scenario("resilience.composed_circuit_breaker", "resilience")
def composed_circuit_breaker(seed, params):
    """CircuitBreaker (thresholds from counts) behind a front stage; reset timeout = the timer."""

    def make(p, tgt, timer, rec, n):
        cb = CircuitBreaker(
            "breaker",
            target=tgt,
            failure_threshold=p.count(0, 2, hi=5),
            success_threshold=p.count(1, 1, hi=3),
            timeout=timer,
            half_open_max_requests=p.cap(1),
            failure_predicate=_fails,
        )
        return {"breaker": cb}

    return _composed(seed, params, make, with_caller=True)


@scenario("resilience.composed_bulkhead", "resilience")
def composed_bulkhead(seed, params):
    """Bulkhead behind a front stage; max_wait_time = the timer, queue size from counts."""

    def make(p, tgt, timer, rec, n):
        bh = Bulkhead(
            "bulkhead",
            target=tgt,
            max_concurrent=min(p.cap(2), max(1, n - 2)),
            max_wait_queue=p.count(0, 3, lo=0),
            max_wait_time=timer,
        )
        return {"bulkhead": bh}

    return _composed(seed, params, make)


@scenario("resilience.composed_hedge", "resilience")
def composed_hedge(seed, params):
    """Hedge behind a front stage; hedge_delay = the timer, max_hedges from counts."""
    return _composed(
        seed, params, lambda p, tgt, timer, rec, n: {"hedge": Hedge("hedge", target=tgt, hedge_delay=timer, max_hedges=p.count(0, 1, hi=4))}
    )


@scenario("resilience.composed_fallback", "resilience")
def composed_fallback(seed, params):
    """Fallback behind a front stage; timeout = the timer; fallback entity zero-latency or slow."""

    def make(p, tgt, timer, rec, n):
        secondary = Replier("secondary", 0.0 if p.count(2, 1) % 2 else p.lat(2), downstream=rec)
        fb = Fallback("fallback", primary=tgt, fallback=secondary, failure_predicate=_fails, timeout=timer)
        return {"fallback": fb, "secondary": secondary}

    return _composed(seed, params, make)


@scenario("resilience.composed_chain", "resilience")
def composed_chain(seed, params):
    """Wrapper in wrapper behind a front stage: TimeoutWrapper -> Hedge -> Bulkhead -> target."""

    def make(p, tgt, timer, rec, n):
        bh = Bulkhead("bulkhead", target=tgt, max_concurrent=min(p.cap(2), max(1, n - 2)), max_wait_queue=p.count(0, 2, lo=0), max_wait_time=timer * 2)
        hg = Hedge("hedge", target=bh, hedge_delay=timer * 0.5, max_hedges=p.count(1, 1, hi=3))
        tw = TimeoutWrapper("timeout", target=hg, timeout=timer)
        return {"timeout": tw, "hedge": hg, "bulkhead": bh}

    return _composed(seed, params, make)


@scenario("resilience.composed_chain_breaker_fallback", "resilience")
def composed_chain_breaker_fallback(seed, params):
    """Fallback -> CircuitBreaker -> TimeoutWrapper -> target behind a front stage (the
    fallback path is another wrapper stack ending in a zero-latency Replier)."""

    def make(p, tgt, timer, rec, n):
        tw = TimeoutWrapper("timeout", target=tgt, timeout=timer)
        cb = CircuitBreaker("breaker", target=tw, failure_threshold=p.count(0, 2, hi=4), success_threshold=1, timeout=timer * 2, failure_predicate=_fails)
        spare = Replier("spare", 0.0, downstream=rec)
        tw2 = TimeoutWrapper("timeout.spare", target=spare, timeout=timer * 0.5)
        fb = Fallback("fallback", primary=cb, fallback=tw2, failure_predicate=_fails, timeout=timer * 1.5)
        return {"fallback": fb, "breaker": cb, "timeout": tw, "timeout.spare": tw2, "spare": spare}

    return _composed(seed, params, make)


# ----------------------------------------------------------------------
# degenerate configurations the constructors accept


@scenario("resilience.degenerate_limits", "resilience")
def degenerate_limits(seed, params):
    """The smallest values the constructors accept: Bulkhead with no wait queue and 1 ns
    max_wait_time, Hedge with a 1 ns hedge_delay, TimeoutWrapper / Fallback with 1 ns timeouts,
    CircuitBreaker with thresholds 1 and a 1 ns reset timeout; zero-latency and slow targets."""
    p = P(params, seed)
    rec = Recorder("rec")
    zero = Replier("zero", 0.0, downstream=rec)
    slow = Replier("slow", p.lat(0), downstream=rec)
    eps = 1e-9
    bh0 = Bulkhead("bh.noqueue", target=slow, max_concurrent=1, max_wait_queue=0, max_wait_time=eps)
    bh1 = Bulkhead("bh.tinywait", target=slow, max_concurrent=1, max_wait_queue=p.count(0, 3), max_wait_time=eps)
    hg = Hedge("hedge.eps", target=slow, hedge_delay=eps, max_hedges=p.count(1, 2, hi=5))
    hg0 = Hedge("hedge.zero_target", target=zero, hedge_delay=eps, max_hedges=1)
    tw = TimeoutWrapper("timeout.eps", target=slow, timeout=eps)
    tw0 = TimeoutWrapper("timeout.zero_target", target=zero, timeout=eps)
    fb = Fallback("fallback.eps", primary=slow, fallback=zero, timeout=eps)
    cb = CircuitBreaker("breaker.eps", target=zero, failure_threshold=1, success_threshold=1, timeout=eps, failure_predicate=_fails)
    wrappers = [bh0, bh1, hg, hg0, tw, tw0, fb, cb]
    arr = p.arrivals(4)
    sim = make_sim([*wrappers, zero, slow, rec], p.end())
    for i, t in enumerate(arr):
        for w in wrappers:  # every wrapper sees the whole arrival pattern
            sim.schedule(ev(t, "Request", w, i=i, fail=(i % 2 == 0)))
    return Scenario(sim, {w.name: w for w in wrappers} | {"rec": rec}, "resilience", True, len(arr) * len(wrappers))


@scenario("resilience.degenerate_client_through_wrappers", "resilience")
def degenerate_client_through_wrappers(seed, params):
    """A Client with timeout 0 and a single attempt (max_attempts=1) calling a zero-latency
    target through TimeoutWrapper -> CircuitBreaker; another with ExponentialBackoff(1 attempt)."""
    p = P(params, seed)
    rec = Recorder("rec")
    zero = Replier("zero", 0.0, downstream=rec)
    cb = CircuitBreaker("breaker", target=zero, failure_threshold=1, success_threshold=1, timeout=p.lat(0))
    tw = TimeoutWrapper("timeout", target=cb, timeout=p.lat(1))
    c0 = Client("client.zero", target=tw, timeout=0.0, retry_policy=FixedRetry(max_attempts=1, delay=0.0))
    c1 = Client("client.one", target=tw, timeout=p.lat(2), retry_policy=ExponentialBackoff(max_attempts=1, initial_delay=p.lat(3), max_delay=p.lat(3)))
    arr = p.arrivals(8)
    sim = make_sim([c0, c1, tw, cb, zero, rec], p.end())
    for i, t in enumerate(arr):
        sim.schedule(ev(t, "request", c0 if i % 2 == 0 else c1, request_id=i + 1, payload=i, attempt=1))
    return Scenario(sim, {"client.zero": c0, "client.one": c1, "timeout": tw, "breaker": cb, "rec": rec}, "resilience", True, len(arr))

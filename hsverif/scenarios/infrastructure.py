"""infrastructure family: CPUScheduler, DiskIO, DNSResolver, GarbageCollector, PageCache,
TCPConnection.

All six expose generator APIs driven from `Proc` workers that share ONE component instance
(one CPU, one disk, one resolver cache, one page cache, one TCP connection), so that the
per-call bookkeeping of the components is exercised by overlapping calls.  GarbageCollector
also has a self-rescheduling `handle_event` ('_gc_collect'), primed with `gc.prime()`.

Besides the contention builders there are
  * degenerate operations: zero-duration CPU tasks, zero-byte disk I/O, sends of 0 and 1 byte,
    unknown / expired DNS names, page cache of capacity 1 without read-ahead, flush of a clean
    cache;
  * sibling parameters out of proportion: GC pause much longer / much shorter than the collection
    interval (every strategy), CPU quantum >> and << task length, context switch >> quantum,
    disk queue depth 1, DNS TTL far below the resolution latency, RTO far below / above the RTT.
Structural counts (hosts, tasks, pages) come from `p.count`.
"""

from __future__ import annotations

from happysimulator.components.infrastructure import (
    AIMD,
    BBR,
    HDD,
    SSD,
    ConcurrentGC,
    CPUScheduler,
    Cubic,
    DiskIO,
    DNSRecord,
    DNSResolver,
    FairShare,
    GarbageCollector,
    GenerationalGC,
    NVMe,
    PageCache,
    PriorityPreemptive,
    StopTheWorld,
    TCPConnection,
)
from happysimulator.components.resource import Resource

from hsverif.scenarios import Scenario, scenario
from hsverif.scenarios._kit import P, Proc, ev, make_sim


def _start(sim, procs, arrivals):
    for i, t in enumerate(arrivals):
        sim.schedule(ev(t, "start", procs[i % len(procs)], worker=i))


def _w(event) -> int:
    return event.context["metadata"]["worker"]


# ----------------------------------------------------------------------
# CPUScheduler


def _cpu_scenario(p, policy, quantum):
    # waiters poll once per quantum (and skip the context-switch delay while nobody runs), so the
    # number of deliveries grows with context_switch_s / quantum_s: keep that ratio <= 10
    cpu = CPUScheduler("cpu", policy=policy, context_switch_s=min(p.lat(1), quantum * 10))

    def body(proc, event):
        i = _w(event)
        # CPU demand expressed in quanta (2.5, 1, 4, ...) so that the number of time slices
        # stays small whatever the scale of the quantum is
        need = quantum * [2.5, 1.0, 4.0, 0.5][i % 4]
        yield from cpu.execute(f"task{i}", need, priority=i % 3)
        if i % 3 == 0:
            yield quantum * 0.5
            yield from cpu.execute(f"task{i}b", quantum * 1.5, priority=2)
        elif i % 3 == 1:
            yield from cpu.execute(f"zero{i}", 0.0, priority=i % 2)  # nothing to run
        proc.log.append(cpu.ready_queue_depth)
        proc.done += 1

    arr = p.arrivals(8)
    procs = [Proc(f"w{i}", body) for i in range(len(arr))]
    sim = make_sim([cpu, *procs], p.end())
    _start(sim, procs, arr)
    return Scenario(sim, {"cpu": cpu}, "infrastructure", True, len(arr), notes=type(policy).__name__)


@scenario("infrastructure.cpu_fair_share", "infrastructure")
def cpu_fair_share(seed, params):
    """Many tasks on one CPU under FairShare: everybody but the head of the queue polls."""
    p = P(params, seed)
    q = p.lat(0)
    return _cpu_scenario(p, FairShare(quantum_s=q), q)


@scenario("infrastructure.cpu_priority_preemptive", "infrastructure")
def cpu_priority_preemptive(seed, params):
    """PriorityPreemptive: late high-priority tasks overtake running low-priority ones."""
    p = P(params, seed)
    q = p.lat(0)
    return _cpu_scenario(p, PriorityPreemptive(quantum_s=q), q)


def _cpu_proportion(name, doc, policy_cls, need_quanta, cs_quanta):
    @scenario(name, "infrastructure")
    def builder(seed, params):
        p = P(params, seed)
        unit = p.lat(0)
        # keep both the quantum and the task length at or above one clock tick
        q, need = (unit / need_quanta, unit) if need_quanta < 1 else (unit, unit * need_quanta)
        cpu = CPUScheduler("cpu", policy=policy_cls(quantum_s=q), context_switch_s=max(q * cs_quanta, 1e-9))
        n_big = p.count(0, 3, lo=1, hi=4)  # bounded number of real tasks; everybody else runs a zero-length one

        def body(proc, event):
            i = _w(event)
            if i < n_big:
                yield from cpu.execute(f"task{i}", need * (1 + i % 2), priority=i % 3)
            else:
                yield from cpu.execute(f"zero{i}", 0.0, priority=i % 3)
            proc.log.append(cpu.ready_queue_depth)
            proc.done += 1

        arr = p.arrivals(4)
        procs = [Proc(f"w{i}", body) for i in range(len(arr))]
        sim = make_sim([cpu, *procs], p.end())
        _start(sim, procs, arr)
        return Scenario(sim, {"cpu": cpu}, "infrastructure", True, len(arr), notes=policy_cls.__name__)

    builder.__doc__ = doc
    return builder


_cpu_proportion("infrastructure.cpu_quantum_much_larger_than_task", "Quantum 50x the task length: every task finishes inside its first slice.", FairShare, 0.02, 0.1)
_cpu_proportion("infrastructure.cpu_quantum_much_smaller_than_task", "Task length 40..80 quanta (at most 4 such tasks), priority policy.", PriorityPreemptive, 40.0, 0.25)
_cpu_proportion("infrastructure.cpu_context_switch_dominates", "Context switch 25x the quantum, tasks of 2..4 quanta (at most 4 of them).", FairShare, 2.0, 25.0)
_cpu_proportion("infrastructure.cpu_context_switch_dominates_priority", "Same with the priority policy.", PriorityPreemptive, 2.0, 25.0)


@scenario("infrastructure.cpu_default_policy", "infrastructure")
def cpu_default_policy(seed, params):
    """Default policy object (FairShare, 10 ms quantum) with demands around p.hold()."""
    p = P(params, seed)
    cpu = CPUScheduler("cpu", context_switch_s=p.lat(1))
    need = min(p.hold(), 0.05)  # at most 5 default quanta per task

    def body(proc, event):
        i = _w(event)
        yield from cpu.execute(f"task{i}", need * (1 + i % 3) / 2)
        proc.done += 1

    arr = p.arrivals(6)
    procs = [Proc(f"w{i}", body) for i in range(len(arr))]
    sim = make_sim([cpu, *procs], p.end())
    _start(sim, procs, arr)
    return Scenario(sim, {"cpu": cpu}, "infrastructure", True, len(arr))


# ----------------------------------------------------------------------
# DiskIO


def _disk_scenario(p, profile):
    disk = DiskIO("disk", profile=profile)
    hold = p.hold()

    def body(proc, event):
        i = _w(event)
        size = 4096 * (1 + i % 3)
        if i % 2 == 0:
            yield from disk.read(size)
            yield from disk.write(size * 2)
        else:
            yield from disk.write(size)
            yield hold
            yield from disk.read()
        if i % 3 == 0:
            yield from disk.read(0)  # zero-byte transfers: pure access latency
            yield from disk.write(0)
            yield from disk.read(1)
        proc.log.append(disk.queue_depth)
        proc.done += 1

    arr = p.arrivals(8)
    procs = [Proc(f"w{i}", body) for i in range(len(arr))]
    sim = make_sim([disk, *procs], p.end())
    _start(sim, procs, arr)
    return Scenario(sim, {"disk": disk}, "infrastructure", True, len(arr), notes=type(profile).__name__)


@scenario("infrastructure.disk_hdd", "infrastructure")
def disk_hdd(seed, params):
    p = P(params, seed)
    return _disk_scenario(p, HDD(seek_time_s=p.lat(0), rotational_latency_s=p.lat(1), transfer_rate_mbps=50.0, queue_depth_penalty=0.5))


@scenario("infrastructure.disk_ssd", "infrastructure")
def disk_ssd(seed, params):
    p = P(params, seed)
    return _disk_scenario(p, SSD(base_read_latency_s=p.lat(0), base_write_latency_s=p.lat(1), transfer_rate_mbps=200.0, queue_depth_factor=0.3))


@scenario("infrastructure.disk_nvme", "infrastructure")
def disk_nvme(seed, params):
    p = P(params, seed)
    return _disk_scenario(
        p,
        NVMe(base_read_latency_s=p.lat(0), base_write_latency_s=p.lat(1), transfer_rate_mbps=1000.0, native_queue_depth=p.cap(2), overflow_penalty=0.2),
    )


@scenario("infrastructure.disk_queue_depth_one", "infrastructure")
def disk_queue_depth_one(seed, params):
    """Queue depth never above 1: the clients take turns (Resource of capacity 1) on a disk of
    each profile (worker i uses disk i mod 3; the NVMe has native_queue_depth=1), including
    zero-byte and one-byte transfers."""
    p = P(params, seed)
    disks = [
        DiskIO("hdd", profile=HDD(seek_time_s=p.lat(0), rotational_latency_s=p.lat(1), transfer_rate_mbps=50.0, queue_depth_penalty=0.5)),
        DiskIO("ssd", profile=SSD(base_read_latency_s=p.lat(2), base_write_latency_s=p.lat(3), transfer_rate_mbps=200.0, queue_depth_factor=0.3)),
        DiskIO("nvme", profile=NVMe(base_read_latency_s=p.lat(4), base_write_latency_s=p.lat(5), transfer_rate_mbps=1000.0, native_queue_depth=1, overflow_penalty=0.2)),
        DiskIO("default"),  # default profile object
    ]
    guards = [Resource(f"turn_{d.name}", capacity=1) for d in disks]

    def body(proc, event):
        i = _w(event)
        d, g = disks[i % len(disks)], guards[i % len(disks)]
        grant = yield g.acquire(1)
        yield from d.read(0)
        yield from d.write(0)
        yield from d.write(1)
        yield from d.read(4096 * (1 + i % 2))
        grant.release()
        proc.log.append(d.stats.peak_queue_depth)
        proc.done += 1

    arr = p.arrivals(8)
    procs = [Proc(f"w{i}", body) for i in range(len(arr))]
    sim = make_sim([*disks, *guards, *procs], p.end())
    _start(sim, procs, arr)
    return Scenario(sim, {d.name: d for d in disks}, "infrastructure", True, len(arr))


@scenario("infrastructure.disk_nvme_overflow", "infrastructure")
def disk_nvme_overflow(seed, params):
    """NVMe with native_queue_depth=1 under an unguarded burst: every request beyond the first
    pays the overflow penalty."""
    p = P(params, seed)
    return _disk_scenario(p, NVMe(base_read_latency_s=p.lat(0), base_write_latency_s=p.lat(1), transfer_rate_mbps=3500.0, native_queue_depth=1, overflow_penalty=1.0))


# ----------------------------------------------------------------------
# DNSResolver


def _dns_scenario(p, ttl, capacity, n_hosts, records_at_start=True):
    hosts = [f"{chr(97 + j)}.example" for j in range(n_hosts)]
    records = {h: DNSRecord(h, f"10.0.0.{j}", ttl_s=ttl * (1 + j % 2)) for j, h in enumerate(hosts)}
    dns = DNSResolver(
        "dns",
        cache_capacity=capacity,
        root_latency_s=p.lat(0),
        tld_latency_s=p.lat(1),
        auth_latency_s=p.lat(2),
        records=records if records_at_start else None,
    )
    resolution = p.lat(0) + p.lat(1) + p.lat(2)

    def H(j):
        return hosts[j % len(hosts)]

    def body(proc, event):
        i = _w(event)
        h = H(i % 2)
        rn = yield from dns.resolve("nx.example")  # unknown name, cold cache
        r0 = yield from dns.resolve(h)  # burst: everybody misses at once
        r1 = yield from dns.resolve(h)  # hit (or evicted by the other host / already expired)
        yield max(ttl * 2.5, 1e-9)
        r2 = yield from dns.resolve(h)  # expired
        r3 = yield from dns.resolve(H(2 + i % 2))  # more hosts than cache slots
        r4 = yield from dns.resolve("nx.example")  # unknown again (never cached)
        if i % 4 == 0:
            dns.add_record(DNSRecord("late.example", "10.9.9.9", ttl_s=ttl))
            if not records_at_start:
                for rec in records.values():
                    dns.add_record(rec)
        r5 = yield from dns.resolve("late.example")
        yield resolution  # a little later: the late record may have expired in the meantime
        r6 = yield from dns.resolve("late.example")
        proc.log.append((rn, r0, r1, r2, r3, r4, r5, r6))
        proc.done += 1

    arr = p.arrivals(6)
    procs = [Proc(f"w{i}", body) for i in range(len(arr))]
    sim = make_sim([dns, *procs], p.end())
    _start(sim, procs, arr)
    return Scenario(sim, {"dns": dns}, "infrastructure", True, len(arr), notes=f"hosts={n_hosts} cap={capacity} ttl={ttl}")


@scenario("infrastructure.dns_resolver", "infrastructure")
def dns_resolver(seed, params):
    """Thundering herd on a cold resolver cache, hits, TTL expiry, LRU eviction (tiny cache),
    unknown hosts, and a record added while lookups are in flight (hosts = count 0)."""
    p = P(params, seed)
    return _dns_scenario(p, p.lat(3) * 5, p.cap(2), p.count(0, 4, lo=1, hi=12))


@scenario("infrastructure.dns_capacity_one_short_ttl", "infrastructure")
def dns_capacity_one_short_ttl(seed, params):
    """One cache slot and a TTL of a nanosecond or two - far below the resolution latency: every
    record has expired by the time anybody looks again."""
    p = P(params, seed)
    return _dns_scenario(p, 1e-9, 1, p.count(0, 3, lo=1, hi=12))


@scenario("infrastructure.dns_no_records", "infrastructure")
def dns_no_records(seed, params):
    """Resolver created without any record (everything is unknown until the first add_record),
    TTL much longer than the run, default-sized cache."""
    p = P(params, seed)
    return _dns_scenario(p, 3600.0, 1000, p.count(0, 2, lo=1, hi=12), records_at_start=False)


# ----------------------------------------------------------------------
# GarbageCollector


def _gc_scenario(p, strategy, pressure):
    gc = GarbageCollector("gc", strategy=strategy, heap_pressure=pressure)

    def body(proc, event):
        i = _w(event)
        pz = yield from gc.pause()  # application-triggered collection
        proc.log.append(round(pz, 9))
        proc.done += 1
        if i == 1:
            return [gc.prime()]  # a second periodic chain started in the middle of the run
        return None

    arr = p.arrivals(5)
    procs = [Proc(f"w{i}", body) for i in range(len(arr))]
    sim = make_sim([gc, *procs], p.end())
    sim.schedule(gc.prime())  # periodic collections from t = 0 on (self-rescheduling)
    _start(sim, procs, arr)
    return Scenario(sim, {"gc": gc}, "infrastructure", True, len(arr) + 1, notes=strategy.name)


def _gc_interval(p, i):
    # periodic daemon: keep the period well above the clock resolution so that the run stays small
    return max(p.lat(i) * 40, 0.2)


@scenario("infrastructure.gc_stop_the_world", "infrastructure")
def gc_stop_the_world(seed, params):
    p = P(params, seed)
    return _gc_scenario(p, StopTheWorld(base_pause_s=p.lat(0), interval_s=_gc_interval(p, 1), pressure_multiplier=3.0), None)


@scenario("infrastructure.gc_concurrent", "infrastructure")
def gc_concurrent(seed, params):
    p = P(params, seed)
    return _gc_scenario(p, ConcurrentGC(pause_s=p.lat(0), interval_s=_gc_interval(p, 1)), 0.5)


@scenario("infrastructure.gc_generational", "infrastructure")
def gc_generational(seed, params):
    """Generational GC; heap pressure grows with the collection count, so minor collections
    turn into major ones during the run."""
    p = P(params, seed)
    strat = GenerationalGC(minor_pause_s=p.lat(0), major_pause_s=p.lat(2) * 3, minor_interval_s=_gc_interval(p, 1), major_threshold=0.5)
    return _gc_scenario(p, strat, None)


def _gc_proportion(kind: str, long_pause: bool):
    name = f"infrastructure.gc_{'long' if long_pause else 'short'}_pause_{kind}"

    @scenario(name, "infrastructure")
    def builder(seed, params):
        p = P(params, seed)
        # the period stays between 20 ms and 0.5 s so that the (endless) daemon produces a bounded
        # number of collections before end_time
        interval = min(max(p.lat(1), 0.02), 0.5)
        pause = interval * 2.5 if long_pause else interval / 50.0
        if kind == "stop_the_world":
            # fixed pressure 0.5 -> multiplier 1 + 0.5 * 1 = 1.5, jitter 0.8..1.2
            strat, pressure = StopTheWorld(base_pause_s=pause, interval_s=interval, pressure_multiplier=1.0), 0.5
        elif kind == "concurrent":
            strat, pressure = ConcurrentGC(pause_s=pause, interval_s=interval), None
        elif kind == "generational_major":
            # fixed high heap pressure: every collection is a MAJOR one from the very first
            strat, pressure = GenerationalGC(minor_pause_s=interval / 100.0, major_pause_s=pause, minor_interval_s=interval, major_threshold=0.75), 0.9
        else:  # generational_minor: pressure stays below the threshold, only minor collections
            strat, pressure = GenerationalGC(minor_pause_s=pause, major_pause_s=pause * 4, minor_interval_s=interval, major_threshold=0.75), 0.1
        return _gc_scenario(p, strat, pressure)

    builder.__doc__ = (
        f"{kind}: pause {'2.5x LONGER than' if long_pause else '50x shorter than'} the collection interval "
        "(interval between 20 ms and 0.5 s), periodic chain primed at t = 0 and a second one primed mid-run."
    )
    return builder


for _kind in ("stop_the_world", "concurrent", "generational_major", "generational_minor"):
    _gc_proportion(_kind, True)
    _gc_proportion(_kind, False)


# ----------------------------------------------------------------------
# PageCache


def _page_body(pc, hold, guard=None):
    def ops(proc, i):
        page = i % 3
        if i % 4 == 0:
            yield from pc.read_page(page)  # miss + read-ahead
            yield from pc.write_page(page)  # hit, dirty
        elif i % 4 == 1:
            yield from pc.write_page(page + 10)  # miss, dirty, evicts (write-back of dirty pages)
            yield from pc.read_page(page)
        elif i % 4 == 2:
            yield from pc.write_page(page)
            yield hold
            n = yield from pc.flush()  # while other workers dirty / evict pages
            proc.log.append(("flushed", n))
        else:
            yield from pc.read_page(page + 20)
            yield from pc.read_page(page + 21)  # read-ahead hit
            yield from pc.write_page(page + 20)
        proc.log.append((pc.pages_cached, pc.dirty_pages))

    def body(proc, event):
        i = _w(event)
        if guard is None:
            yield from ops(proc, i)
        else:
            grant = yield guard.acquire(1)
            yield from ops(proc, i)
            grant.release()
        proc.done += 1

    return body


def _page_cache(p):
    return PageCache(
        "pagecache",
        capacity_pages=p.cap(2) + 2,
        page_size_bytes=4096,
        readahead_pages=2,
        disk_read_latency_s=p.lat(0),
        disk_write_latency_s=p.lat(1),
    )


@scenario("infrastructure.page_cache_capacity_one", "infrastructure")
def page_cache_capacity_one(seed, params):
    """capacity_pages=1 (every miss evicts the only page, dirty or not); read-ahead 0 for even
    x.v, 2 for odd (read-ahead can never fit); overlapping clients; flush of a clean cache."""
    p = P(params, seed)
    ra = 0 if int(p.x("v", seed)) % 2 == 0 else 2
    pc = PageCache("pagecache", capacity_pages=1, readahead_pages=ra, disk_read_latency_s=p.lat(0), disk_write_latency_s=p.lat(1))
    inner = _page_body(pc, p.hold(), None)

    def body(proc, event):
        n0 = yield from pc.flush()  # nothing cached at all
        yield from inner(proc, event)
        n1 = yield from pc.flush()
        n2 = yield from pc.flush()  # clean again
        proc.log.append((n0, n1, n2))

    arr = p.arrivals(8)
    procs = [Proc(f"w{i}", body) for i in range(len(arr))]
    sim = make_sim([pc, *procs], p.end())
    _start(sim, procs, arr)
    return Scenario(sim, {"pagecache": pc}, "infrastructure", True, len(arr), notes=f"readahead={ra}")


@scenario("infrastructure.page_cache_no_readahead", "infrastructure")
def page_cache_no_readahead(seed, params):
    """readahead_pages=0 (the default), capacity = count 0, pages spread over count 1 ids."""
    p = P(params, seed)
    pc = PageCache("pagecache", capacity_pages=p.count(0, 3, lo=1, hi=12), disk_read_latency_s=p.lat(0), disk_write_latency_s=p.lat(1))
    n_pages = p.count(1, 5, lo=1, hi=12)
    hold = p.hold()

    def body(proc, event):
        i = _w(event)
        yield from pc.read_page(i % n_pages)
        yield from pc.write_page((i + 1) % n_pages)
        yield hold
        yield from pc.read_page((i + 2) % n_pages)
        n = yield from pc.flush()
        proc.log.append((pc.pages_cached, pc.dirty_pages, n))
        proc.done += 1

    arr = p.arrivals(8)
    procs = [Proc(f"w{i}", body) for i in range(len(arr))]
    sim = make_sim([pc, *procs], p.end())
    _start(sim, procs, arr)
    return Scenario(sim, {"pagecache": pc}, "infrastructure", True, len(arr))


@scenario("infrastructure.page_cache_serialized", "infrastructure")
def page_cache_serialized(seed, params):
    """One client at a time (callers queue on a Resource of capacity 1): misses, read-ahead,
    dirty write-backs on eviction, flush."""
    p = P(params, seed)
    pc = _page_cache(p)
    guard = Resource("pc_guard", capacity=1)
    arr = p.arrivals(8)
    procs = [Proc(f"w{i}", _page_body(pc, p.hold(), guard)) for i in range(len(arr))]
    sim = make_sim([pc, guard, *procs], p.end())
    _start(sim, procs, arr)
    return Scenario(sim, {"pagecache": pc}, "infrastructure", True, len(arr))


@scenario("infrastructure.page_cache_concurrent_reads", "infrastructure")
def page_cache_concurrent_reads(seed, params):
    """Overlapping read-only clients (no dirty pages, so evictions are instantaneous): loads
    and read-ahead of the same pages interleave."""
    p = P(params, seed)
    pc = _page_cache(p)

    def body(proc, event):
        i = _w(event)
        yield from pc.read_page(i % 3)
        yield from pc.read_page(i % 3 + 1)
        yield p.hold()
        yield from pc.read_page(10 + i % 4)
        n = yield from pc.flush()  # nothing dirty
        proc.log.append((pc.pages_cached, n))
        proc.done += 1

    arr = p.arrivals(8)
    procs = [Proc(f"w{i}", body) for i in range(len(arr))]
    sim = make_sim([pc, *procs], p.end())
    _start(sim, procs, arr)
    return Scenario(sim, {"pagecache": pc}, "infrastructure", True, len(arr))


@scenario("infrastructure.page_cache_flush_race", "infrastructure")
def page_cache_flush_race(seed, params):
    """Cache large enough never to evict: writers dirty pages while other clients flush()."""
    p = P(params, seed)
    pc = PageCache(
        "pagecache",
        capacity_pages=64,
        readahead_pages=1,
        disk_read_latency_s=p.lat(0),
        disk_write_latency_s=p.lat(1),
    )
    hold = p.hold()

    def body(proc, event):
        i = _w(event)
        yield from pc.write_page(i % 4)  # instantaneous (no eviction needed): dirty page
        if i % 2 == 0:
            n = yield from pc.flush()  # one disk write per dirty page ...
            proc.log.append(("flushed", n))
        else:
            yield hold * 0.5
            yield from pc.read_page(20 + i)  # ... while these insert / touch pages
            yield from pc.write_page(i % 4)
            yield from pc.write_page(30 + i)
        proc.log.append((pc.pages_cached, pc.dirty_pages))
        proc.done += 1

    arr = p.arrivals(8)
    procs = [Proc(f"w{i}", body) for i in range(len(arr))]
    sim = make_sim([pc, *procs], p.end())
    _start(sim, procs, arr)
    return Scenario(sim, {"pagecache": pc}, "infrastructure", True, len(arr))


@scenario("infrastructure.page_cache_concurrent", "infrastructure")
def page_cache_concurrent(seed, params):
    """The same operations from overlapping clients on the shared cache: evictions, loads and
    flush() interleave at their yield points."""
    p = P(params, seed)
    pc = _page_cache(p)
    arr = p.arrivals(8)
    procs = [Proc(f"w{i}", _page_body(pc, p.hold(), None)) for i in range(len(arr))]
    sim = make_sim([pc, *procs], p.end())
    _start(sim, procs, arr)
    return Scenario(sim, {"pagecache": pc}, "infrastructure", True, len(arr))


# ----------------------------------------------------------------------
# TCPConnection


def _tcp_scenario(p, cc):
    tcp = TCPConnection(
        "tcp",
        congestion_control=cc,
        base_rtt_s=p.lat(0),
        loss_rate=float(p.x("loss", 0.2)),
        mss_bytes=1000,
        initial_cwnd=float(p.cap(2) + 1),
        initial_ssthresh=8.0,
        retransmit_timeout_s=p.lat(1) * 3,
    )
    hold = p.hold()

    def body(proc, event):
        i = _w(event)
        if i % 3 == 0:
            yield from tcp.send(0)  # nothing to send
            yield from tcp.send(1)  # one byte = one segment
        yield from tcp.send(1000 * (3 + i % 5))  # several senders share one window
        if i % 2 == 0:
            yield hold
            yield from tcp.send(1000 * 12 + 1)
        if i % 3 == 1:
            yield from tcp.send(1000)  # exactly one MSS
            yield from tcp.send(0)
        proc.log.append((round(tcp.cwnd, 6), tcp.stats.retransmissions))
        proc.done += 1

    arr = p.arrivals(6)
    procs = [Proc(f"w{i}", body) for i in range(len(arr))]
    sim = make_sim([tcp, *procs], p.end())
    _start(sim, procs, arr)
    return Scenario(sim, {"tcp": tcp}, "infrastructure", True, len(arr), notes=cc.name)


@scenario("infrastructure.tcp_aimd", "infrastructure")
def tcp_aimd(seed, params):
    return _tcp_scenario(P(params, seed), AIMD(additive_increase=1.0, multiplicative_decrease=0.5))


@scenario("infrastructure.tcp_cubic", "infrastructure")
def tcp_cubic(seed, params):
    return _tcp_scenario(P(params, seed), Cubic(beta=0.7, c=0.4))


@scenario("infrastructure.tcp_bbr", "infrastructure")
def tcp_bbr(seed, params):
    return _tcp_scenario(P(params, seed), BBR(gain=1.0, drain_gain=0.75))


def _tcp_proportion(name, doc, rto_over_rtt, loss, cwnd):
    @scenario(name, "infrastructure")
    def builder(seed, params):
        p = P(params, seed)
        cc = [AIMD(), Cubic(), BBR()][int(p.x("v", seed)) % 3]
        rtt = p.lat(0)
        tcp = TCPConnection(
            "tcp",
            congestion_control=cc,
            base_rtt_s=rtt,
            loss_rate=loss,
            mss_bytes=p.count(0, 10, lo=1, hi=12) * 100,
            initial_cwnd=cwnd,
            initial_ssthresh=2.0,
            retransmit_timeout_s=max(rtt * rto_over_rtt, 1e-9),
        )

        def body(proc, event):
            i = _w(event)
            yield from tcp.send(0)
            yield from tcp.send(1)
            yield from tcp.send(tcp._mss * (2 + i % 3))  # whole segments
            yield from tcp.send(tcp._mss * 2 + 1)  # one byte over
            proc.log.append((round(tcp.cwnd, 6), tcp.stats.retransmissions, tcp.stats.segments_sent))
            proc.done += 1

        arr = p.arrivals(4)
        procs = [Proc(f"w{i}", body) for i in range(len(arr))]
        sim = make_sim([tcp, *procs], p.end())
        _start(sim, procs, arr)
        return Scenario(sim, {"tcp": tcp}, "infrastructure", True, len(arr), notes=cc.name)

    builder.__doc__ = doc
    return builder


_tcp_proportion("infrastructure.tcp_rto_far_below_rtt", "Retransmit timeout 1/100 of the RTT, half of the segments lost, window of one segment (congestion control = x.v mod 3).", 0.01, 0.5, 1.0)
_tcp_proportion("infrastructure.tcp_rto_far_above_rtt", "Retransmit timeout 100x the RTT, 30 % loss.", 100.0, 0.3, 2.0)
_tcp_proportion("infrastructure.tcp_lossless_large_window", "No loss at all and an initial window far above ssthresh.", 1.0, 0.0, 64.0)
_tcp_proportion("infrastructure.tcp_always_lost", "loss_rate=1.0: every first transmission is lost, every segment is retransmitted once.", 2.0, 1.0, 4.0)


# ----------------------------------------------------------------------
# default construction


@scenario("infrastructure.default_construction", "infrastructure")
def default_construction(seed, params):
    """Every component built with its DEFAULT arguments (default profiles, strategies, latencies,
    queue depths): worker i uses component i mod 8; only the workload comes from the parameters."""
    p = P(params, seed)
    cpu = CPUScheduler("cpu")
    hdd, ssd, nvme = DiskIO("hdd", profile=HDD()), DiskIO("ssd", profile=SSD()), DiskIO("nvme", profile=NVMe())
    dns = DNSResolver("dns", records={"a.example": DNSRecord("a.example", "10.0.0.1")})
    gc = GarbageCollector("gc")
    pc = PageCache("pagecache")
    tcp = TCPConnection("tcp")
    hold = min(p.hold(), 0.05)

    def body(proc, event):
        i = _w(event)
        which = i % 8
        if which == 0:
            yield from cpu.execute(f"t{i}", hold)
            yield from cpu.execute(f"z{i}", 0.0)
        elif which in (1, 2, 3):
            d = (hdd, ssd, nvme)[which - 1]
            yield from d.read()
            yield from d.write()
            yield from d.read(0)
            yield from d.write(1)
        elif which == 4:
            a = yield from dns.resolve("a.example")
            b = yield from dns.resolve("a.example")
            c = yield from dns.resolve("nx.example")
            proc.log.append((a, b, c))
        elif which == 5:
            pz = yield from gc.pause()
            proc.log.append(round(pz, 9))
        elif which == 6:
            yield from pc.read_page(i)
            yield from pc.write_page(i)
            yield from pc.write_page(i + 1)
            n = yield from pc.flush()
            proc.log.append(n)
        else:
            yield from tcp.send(0)
            yield from tcp.send(1)
            yield from tcp.send(1460 * 30)
        proc.done += 1

    arr = p.arrivals(16)
    procs = [Proc(f"w{i}", body) for i in range(len(arr))]
    sim = make_sim([cpu, hdd, ssd, nvme, dns, gc, pc, tcp, *procs], p.end())
    sim.schedule(gc.prime())
    _start(sim, procs, arr)
    comps = {"cpu": cpu, "hdd": hdd, "ssd": ssd, "nvme": nvme, "dns": dns, "gc": gc, "pagecache": pc, "tcp": tcp}
    return Scenario(sim, comps, "infrastructure", True, len(arr) + 1)

"""infrastructure family: CPUScheduler, DiskIO, DNSResolver, GarbageCollector, PageCache,
TCPConnection.

All six expose generator APIs driven from `Proc` workers that share ONE component instance
(one CPU, one disk, one resolver cache, one page cache, one TCP connection), so that the
per-call bookkeeping of the components is exercised by overlapping calls.  GarbageCollector
also has a self-rescheduling `handle_event` ('_gc_collect'), primed with `gc.prime()`.
"""

from __future__ import annotations

from happysimulator.components.infrastructure import (
    AIMD,
    BBR,
    HDD,
    SSD,
    ConcurrentGC,
    CPUScheduler,
    Cubic,
    DiskIO,
    DNSRecord,
    DNSResolver,
    FairShare,
    GarbageCollector,
    GenerationalGC,
    NVMe,
    PageCache,
    PriorityPreemptive,
    StopTheWorld,
    TCPConnection,
)
from happysimulator.components.resource import Resource

from hsverif.scenarios import Scenario, scenario
from hsverif.scenarios._kit import P, Proc, ev, make_sim


def _start(sim, procs, arrivals):
    for i, t in enumerate(arrivals):
        sim.schedule(ev(t, "start", procs[i % len(procs)], worker=i))


def _w(event) -> int:
    return event.context["metadata"]["worker"]


# ----------------------------------------------------------------------
# CPUScheduler


def _cpu_scenario(p, policy, quantum):
    # waiters poll once per quantum (and skip the context-switch delay while nobody runs), so the
    # number of deliveries grows with context_switch_s / quantum_s: keep that ratio <= 10
    cpu = CPUScheduler("cpu", policy=policy, context_switch_s=min(p.lat(1), quantum * 10))

    def body(proc, event):
        i = _w(event)
        # CPU demand expressed in quanta (2.5, 1, 4, ...) so that the number of time slices
        # stays small whatever the scale of the quantum is
        need = quantum * [2.5, 1.0, 4.0, 0.5][i % 4]
        yield from cpu.execute(f"task{i}", need, priority=i % 3)
        if i % 3 == 0:
            yield quantum * 0.5
            yield from cpu.execute(f"task{i}b", quantum * 1.5, priority=2)
        proc.log.append(cpu.ready_queue_depth)
        proc.done += 1

    arr = p.arrivals(8)
    procs = [Proc(f"w{i}", body) for i in range(len(arr))]
    sim = make_sim([cpu, *procs], p.end())
    _start(sim, procs, arr)
    return Scenario(sim, {"cpu": cpu}, "infrastructure", True, len(arr), notes=type(policy).__name__)


@scenario("infrastructure.cpu_fair_share", "infrastructure")
def cpu_fair_share(seed, params):
    """Many tasks on one CPU under FairShare: everybody but the head of the queue polls."""
    p = P(params, seed)
    q = p.lat(0)
    return _cpu_scenario(p, FairShare(quantum_s=q), q)


@scenario("infrastructure.cpu_priority_preemptive", "infrastructure")
def cpu_priority_preemptive(seed, params):
    """PriorityPreemptive: late high-priority tasks overtake running low-priority ones."""
    p = P(params, seed)
    q = p.lat(0)
    return _cpu_scenario(p, PriorityPreemptive(quantum_s=q), q)


@scenario("infrastructure.cpu_default_policy", "infrastructure")
def cpu_default_policy(seed, params):
    """Default policy object (FairShare, 10 ms quantum) with demands around p.hold()."""
    p = P(params, seed)
    cpu = CPUScheduler("cpu", context_switch_s=p.lat(1))
    need = min(p.hold(), 0.05)  # at most 5 default quanta per task

    def body(proc, event):
        i = _w(event)
        yield from cpu.execute(f"task{i}", need * (1 + i % 3) / 2)
        proc.done += 1

    arr = p.arrivals(6)
    procs = [Proc(f"w{i}", body) for i in range(len(arr))]
    sim = make_sim([cpu, *procs], p.end())
    _start(sim, procs, arr)
    return Scenario(sim, {"cpu": cpu}, "infrastructure", True, len(arr))


# ----------------------------------------------------------------------
# DiskIO


def _disk_scenario(p, profile):
    disk = DiskIO("disk", profile=profile)
    hold = p.hold()

    def body(proc, event):
        i = _w(event)
        size = 4096 * (1 + i % 3)
        if i % 2 == 0:
            yield from disk.read(size)
            yield from disk.write(size * 2)
        else:
            yield from disk.write(size)
            yield hold
            yield from disk.read()
        proc.log.append(disk.queue_depth)
        proc.done += 1

    arr = p.arrivals(8)
    procs = [Proc(f"w{i}", body) for i in range(len(arr))]
    sim = make_sim([disk, *procs], p.end())
    _start(sim, procs, arr)
    return Scenario(sim, {"disk": disk}, "infrastructure", True, len(arr), notes=type(profile).__name__)


@scenario("infrastructure.disk_hdd", "infrastructure")
def disk_hdd(seed, params):
    p = P(params, seed)
    return _disk_scenario(p, HDD(seek_time_s=p.lat(0), rotational_latency_s=p.lat(1), transfer_rate_mbps=50.0, queue_depth_penalty=0.5))


@scenario("infrastructure.disk_ssd", "infrastructure")
def disk_ssd(seed, params):
    p = P(params, seed)
    return _disk_scenario(p, SSD(base_read_latency_s=p.lat(0), base_write_latency_s=p.lat(1), transfer_rate_mbps=200.0, queue_depth_factor=0.3))


@scenario("infrastructure.disk_nvme", "infrastructure")
def disk_nvme(seed, params):
    p = P(params, seed)
    return _disk_scenario(
        p,
        NVMe(base_read_latency_s=p.lat(0), base_write_latency_s=p.lat(1), transfer_rate_mbps=1000.0, native_queue_depth=p.cap(2), overflow_penalty=0.2),
    )


# ----------------------------------------------------------------------
# DNSResolver


@scenario("infrastructure.dns_resolver", "infrastructure")
def dns_resolver(seed, params):
    """Thundering herd on a cold resolver cache, hits, TTL expiry, LRU eviction (tiny cache),
    unknown hosts, and a record added while lookups are in flight."""
    p = P(params, seed)
    ttl = p.lat(3) * 5
    hosts = ["a.example", "b.example", "c.example", "d.example"]
    records = {h: DNSRecord(h, f"10.0.0.{j}", ttl_s=ttl * (1 + j % 2)) for j, h in enumerate(hosts)}
    dns = DNSResolver(
        "dns",
        cache_capacity=p.cap(2),
        root_latency_s=p.lat(0),
        tld_latency_s=p.lat(1),
        auth_latency_s=p.lat(2),
        records=records,
    )

    def body(proc, event):
        i = _w(event)
        h = hosts[i % 2]
        r0 = yield from dns.resolve(h)  # burst: everybody misses at once
        r1 = yield from dns.resolve(h)  # hit (or evicted by the other host)
        yield ttl * 2.5
        r2 = yield from dns.resolve(h)  # expired
        r3 = yield from dns.resolve(hosts[2 + i % 2])  # more hosts than cache slots
        r4 = yield from dns.resolve("nx.example")  # unknown
        if i % 4 == 0:
            dns.add_record(DNSRecord("late.example", "10.9.9.9", ttl_s=ttl))
        r5 = yield from dns.resolve("late.example")
        proc.log.append((r0, r1, r2, r3, r4, r5))
        proc.done += 1

    arr = p.arrivals(6)
    procs = [Proc(f"w{i}", body) for i in range(len(arr))]
    sim = make_sim([dns, *procs], p.end())
    _start(sim, procs, arr)
    return Scenario(sim, {"dns": dns}, "infrastructure", True, len(arr))


# ----------------------------------------------------------------------
# GarbageCollector


def _gc_scenario(p, strategy, pressure):
    gc = GarbageCollector("gc", strategy=strategy, heap_pressure=pressure)

    def body(proc, event):
        i = _w(event)
        pz = yield from gc.pause()  # application-triggered collection
        proc.log.append(round(pz, 9))
        proc.done += 1
        if i == 1:
            return [gc.prime()]  # a second periodic chain started in the middle of the run
        return None

    arr = p.arrivals(5)
    procs = [Proc(f"w{i}", body) for i in range(len(arr))]
    sim = make_sim([gc, *procs], p.end())
    sim.schedule(gc.prime())  # periodic collections from t = 0 on (self-rescheduling)
    _start(sim, procs, arr)
    return Scenario(sim, {"gc": gc}, "infrastructure", True, len(arr) + 1, notes=strategy.name)


def _gc_interval(p, i):
    # periodic daemon: keep the period well above the clock resolution so that the run stays small
    return max(p.lat(i) * 40, 0.2)


@scenario("infrastructure.gc_stop_the_world", "infrastructure")
def gc_stop_the_world(seed, params):
    p = P(params, seed)
    return _gc_scenario(p, StopTheWorld(base_pause_s=p.lat(0), interval_s=_gc_interval(p, 1), pressure_multiplier=3.0), None)


@scenario("infrastructure.gc_concurrent", "infrastructure")
def gc_concurrent(seed, params):
    p = P(params, seed)
    return _gc_scenario(p, ConcurrentGC(pause_s=p.lat(0), interval_s=_gc_interval(p, 1)), 0.5)


@scenario("infrastructure.gc_generational", "infrastructure")
def gc_generational(seed, params):
    """Generational GC; heap pressure grows with the collection count, so minor collections
    turn into major ones during the run."""
    p = P(params, seed)
    strat = GenerationalGC(minor_pause_s=p.lat(0), major_pause_s=p.lat(2) * 3, minor_interval_s=_gc_interval(p, 1), major_threshold=0.5)
    return _gc_scenario(p, strat, None)


# ----------------------------------------------------------------------
# PageCache


def _page_body(pc, hold, guard=None):
    def ops(proc, i):
        page = i % 3
        if i % 4 == 0:
            yield from pc.read_page(page)  # miss + read-ahead
            yield from pc.write_page(page)  # hit, dirty
        elif i % 4 == 1:
            yield from pc.write_page(page + 10)  # miss, dirty, evicts (write-back of dirty pages)
            yield from pc.read_page(page)
        elif i % 4 == 2:
            yield from pc.write_page(page)
            yield hold
            n = yield from pc.flush()  # while other workers dirty / evict pages
            proc.log.append(("flushed", n))
        else:
            yield from pc.read_page(page + 20)
            yield from pc.read_page(page + 21)  # read-ahead hit
            yield from pc.write_page(page + 20)
        proc.log.append((pc.pages_cached, pc.dirty_pages))

    def body(proc, event):
        i = _w(event)
        if guard is None:
            yield from ops(proc, i)
        else:
            grant = yield guard.acquire(1)
            yield from ops(proc, i)
            grant.release()
        proc.done += 1

    return body


def _page_cache(p):
    return PageCache(
        "pagecache",
        capacity_pages=p.cap(2) + 2,
        page_size_bytes=4096,
        readahead_pages=2,
        disk_read_latency_s=p.lat(0),
        disk_write_latency_s=p.lat(1),
    )


@scenario("infrastructure.page_cache_serialized", "infrastructure")
def page_cache_serialized(seed, params):
    """One client at a time (callers queue on a Resource of capacity 1): misses, read-ahead,
    dirty write-backs on eviction, flush."""
    p = P(params, seed)
    pc = _page_cache(p)
    guard = Resource("pc_guard", capacity=1)
    arr = p.arrivals(8)
    procs = [Proc(f"w{i}", _page_body(pc, p.hold(), guard)) for i in range(len(arr))]
    sim = make_sim([pc, guard, *procs], p.end())
    _start(sim, procs, arr)
    return Scenario(sim, {"pagecache": pc}, "infrastructure", True, len(arr))


@scenario("infrastructure.page_cache_concurrent_reads", "infrastructure")
def page_cache_concurrent_reads(seed, params):
    """Overlapping read-only clients (no dirty pages, so evictions are instantaneous): loads
    and read-ahead of the same pages interleave."""
    p = P(params, seed)
    pc = _page_cache(p)

    def body(proc, event):
        i = _w(event)
        yield from pc.read_page(i % 3)
        yield from pc.read_page(i % 3 + 1)
        yield p.hold()
        yield from pc.read_page(10 + i % 4)
        n = yield from pc.flush()  # nothing dirty
        proc.log.append((pc.pages_cached, n))
        proc.done += 1

    arr = p.arrivals(8)
    procs = [Proc(f"w{i}", body) for i in range(len(arr))]
    sim = make_sim([pc, *procs], p.end())
    _start(sim, procs, arr)
    return Scenario(sim, {"pagecache": pc}, "infrastructure", True, len(arr))


@scenario("infrastructure.page_cache_flush_race", "infrastructure")
def page_cache_flush_race(seed, params):
    """Cache large enough never to evict: writers dirty pages while other clients flush()."""
    p = P(params, seed)
    pc = PageCache(
        "pagecache",
        capacity_pages=64,
        readahead_pages=1,
        disk_read_latency_s=p.lat(0),
        disk_write_latency_s=p.lat(1),
    )
    hold = p.hold()

    def body(proc, event):
        i = _w(event)
        yield from pc.write_page(i % 4)  # instantaneous (no eviction needed): dirty page
        if i % 2 == 0:
            n = yield from pc.flush()  # one disk write per dirty page ...
            proc.log.append(("flushed", n))
        else:
            yield hold * 0.5
            yield from pc.read_page(20 + i)  # ... while these insert / touch pages
            yield from pc.write_page(i % 4)
            yield from pc.write_page(30 + i)
        proc.log.append((pc.pages_cached, pc.dirty_pages))
        proc.done += 1

    arr = p.arrivals(8)
    procs = [Proc(f"w{i}", body) for i in range(len(arr))]
    sim = make_sim([pc, *procs], p.end())
    _start(sim, procs, arr)
    return Scenario(sim, {"pagecache": pc}, "infrastructure", True, len(arr))


@scenario("infrastructure.page_cache_concurrent", "infrastructure")
def page_cache_concurrent(seed, params):
    """The same operations from overlapping clients on the shared cache: evictions, loads and
    flush() interleave at their yield points."""
    p = P(params, seed)
    pc = _page_cache(p)
    arr = p.arrivals(8)
    procs = [Proc(f"w{i}", _page_body(pc, p.hold(), None)) for i in range(len(arr))]
    sim = make_sim([pc, *procs], p.end())
    _start(sim, procs, arr)
    return Scenario(sim, {"pagecache": pc}, "infrastructure", True, len(arr))


# ----------------------------------------------------------------------
# TCPConnection


def _tcp_scenario(p, cc):
    tcp = TCPConnection(
        "tcp",
        congestion_control=cc,
        base_rtt_s=p.lat(0),
        loss_rate=float(p.x("loss", 0.2)),
        mss_bytes=1000,
        initial_cwnd=float(p.cap(2) + 1),
        initial_ssthresh=8.0,
        retransmit_timeout_s=p.lat(1) * 3,
    )
    hold = p.hold()

    def body(proc, event):
        i = _w(event)
        yield from tcp.send(1000 * (3 + i % 5))  # several senders share one window
        if i % 2 == 0:
            yield hold
            yield from tcp.send(1000 * 12 + 1)
        proc.log.append((round(tcp.cwnd, 6), tcp.stats.retransmissions))
        proc.done += 1

    arr = p.arrivals(6)
    procs = [Proc(f"w{i}", body) for i in range(len(arr))]
    sim = make_sim([tcp, *procs], p.end())
    _start(sim, procs, arr)
    return Scenario(sim, {"tcp": tcp}, "infrastructure", True, len(arr), notes=cc.name)


@scenario("infrastructure.tcp_aimd", "infrastructure")
def tcp_aimd(seed, params):
    return _tcp_scenario(P(params, seed), AIMD(additive_increase=1.0, multiplicative_decrease=0.5))


@scenario("infrastructure.tcp_cubic", "infrastructure")
def tcp_cubic(seed, params):
    return _tcp_scenario(P(params, seed), Cubic(beta=0.7, c=0.4))


@scenario("infrastructure.tcp_bbr", "infrastructure")
def tcp_bbr(seed, params):
    return _tcp_scenario(P(params, seed), BBR(gain=1.0, drain_gain=0.75))

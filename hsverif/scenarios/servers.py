"""servers family: Server (every concurrency model / latency distribution), ThreadPool, AsyncServer."""

from __future__ import annotations

from happysimulator.components.common import Counter, Sink
from happysimulator.components.server import Server
from happysimulator.components.server.async_server import AsyncServer
from happysimulator.components.server.concurrency import DynamicConcurrency, FixedConcurrency, WeightedConcurrency
from happysimulator.components.server.thread_pool import ThreadPool
from happysimulator.load.source import Source

from hsverif.scenarios import Scenario, scenario
from hsverif.scenarios._kit import ConstantLatency, Event, ExponentialLatency, P, Proc, Recorder, ev, make_sim


def _burst(sim, target, arrivals, event_type="Request", **md):
    for i, t in enumerate(arrivals):
        sim.schedule(ev(t, event_type, target, n=i, weight=1 + i % 3, processing_time=None, **md))


@scenario("servers.server_fixed_exponential", "servers")
def server_fixed_exponential(seed, params):
    p = P(params, seed)
    sink = Sink("sink")
    srv = Server("srv", concurrency=FixedConcurrency(p.cap(2)), service_time=ExponentialLatency(p.lat(0)), queue_capacity=6, downstream=sink)
    arr = p.arrivals(10)
    sim = make_sim([srv, sink], p.end())
    _burst(sim, srv, arr)
    return Scenario(sim, {"srv": srv, "sink": sink}, "servers", True, len(arr))


@scenario("servers.server_dynamic_resize", "servers")
def server_dynamic_resize(seed, params):
    """DynamicConcurrency resized down and up while requests are queued and in service."""
    p = P(params, seed)
    sink = Counter("counter")
    model = DynamicConcurrency(initial=p.cap(2), min_limit=1, max_limit=6)
    srv = Server("srv", concurrency=model, service_time=ConstantLatency(p.lat(0)), downstream=sink)
    arr = p.arrivals(10)

    def resizer(proc, event):
        yield p.lat(0) * 0.5
        model.set_limit(1)
        yield p.lat(0) * 2
        model.set_limit(5)
        proc.done += 1

    rz = Proc("resizer", resizer)
    sim = make_sim([srv, sink, rz], p.end())
    _burst(sim, srv, arr)
    sim.schedule(ev(min(arr), "start", rz))
    return Scenario(sim, {"srv": srv, "counter": sink}, "servers", True, len(arr) + 1)


@scenario("servers.server_weighted", "servers")
def server_weighted(seed, params):
    p = P(params, seed)
    sink = Recorder("sink")
    srv = Server("srv", concurrency=WeightedConcurrency(total_capacity=2 + p.cap(2)), service_time=ConstantLatency(p.lat(1)), downstream=sink)
    arr = p.arrivals(9)
    sim = make_sim([srv, sink], p.end())
    _burst(sim, srv, arr)
    return Scenario(sim, {"srv": srv, "sink": sink}, "servers", True, len(arr))


@scenario("servers.thread_pool_mixed_tasks", "servers")
def thread_pool_mixed_tasks(seed, params):
    p = P(params, seed)
    lat = [p.lat(0), p.lat(1), p.lat(2)]
    pool = ThreadPool(
        "pool",
        num_workers=p.cap(2),
        queue_capacity=int(p.x("queue_capacity", 8)),
        processing_time_extractor=lambda e: lat[e.context["metadata"]["n"] % 3],
    )
    pool2 = ThreadPool("pool2", num_workers=1, default_processing_time=p.lat(3))
    arr = p.arrivals(10)
    sim = make_sim([pool, pool2], p.end())
    _burst(sim, pool, arr, "Task")
    for i, t in enumerate(arr[:4]):
        task = ev(t, "Task", pool2, n=i, processing_time=p.lat(i))
        sim.schedule(pool2.submit(task))
    return Scenario(sim, {"pool": pool, "pool2": pool2}, "servers", True, len(arr) + 4)


@scenario("servers.async_server_io_generator", "servers")
def async_server_io_generator(seed, params):
    """AsyncServer: positive CPU time, generator io_handler with a positive wait, CPU queue non-empty."""
    p = P(params, seed)
    sink = Recorder("sink")
    io_s = p.lat(1)
    box = {}

    def io(event):
        yield io_s
        return [Event(time=box["srv"].now, event_type="Response", target=sink, context=event.context)]

    srv = AsyncServer("async", max_connections=max(2, p.cap(3) + 1), cpu_work_distribution=ConstantLatency(p.lat(0)), io_handler=io)
    box["srv"] = srv
    arr = p.arrivals(8)
    sim = make_sim([srv, sink], p.end())
    _burst(sim, srv, arr)
    return Scenario(sim, {"async": srv, "sink": sink}, "servers", True, len(arr))


@scenario("servers.async_server_io_immediate", "servers")
def async_server_io_immediate(seed, params):
    p = P(params, seed)
    sink = Recorder("sink")
    box = {}

    def io(event):
        n = event.context["metadata"]["n"]
        if n % 3 == 0:
            return None
        e = Event(time=box["srv"].now, event_type="Response", target=sink, context=event.context)
        return e if n % 3 == 1 else [e]

    srv = AsyncServer("async", max_connections=p.cap(3), cpu_work_distribution=ExponentialLatency(p.lat(0)), io_handler=io)
    box["srv"] = srv
    noio = AsyncServer("async_noio", max_connections=2, cpu_work_distribution=ConstantLatency(p.lat(1)))
    arr = p.arrivals(8)
    sim = make_sim([srv, noio, sink], p.end())
    _burst(sim, srv, arr)
    _burst(sim, noio, arr[:5])
    return Scenario(sim, {"async": srv, "async_noio": noio, "sink": sink}, "servers", True, len(arr) + 5)


@scenario("servers.source_driven_mm1", "servers")
def source_driven_mm1(seed, params):
    """Poisson Source -> Server -> Sink, the library's own quick-start pipeline, overloaded."""
    p = P(params, seed)
    sink = Sink("sink")
    svc = p.lat(0)
    srv = Server("srv", concurrency=p.cap(1), service_time=ExponentialLatency(svc), queue_capacity=20, downstream=sink)
    # the Source keeps ticking (without payload) after stop_after until end_time: bound the tick count
    rate = min(2.0 / svc, 3000.0 / p.end())
    stop = min(p.end() * 0.5, 60.0 / rate)
    src = Source.poisson(rate=rate, target=srv, stop_after=stop, name="src")
    sim = make_sim([srv, sink], p.end(), sources=[src])
    return Scenario(sim, {"srv": srv, "sink": sink, "src": src}, "servers", True, 60)


# ----------------------------------------------------------------------
# counts, zero durations, composition


@scenario("servers.zero_service_time_chain", "servers")
def zero_service_time_chain(seed, params):
    """A chain of p.count servers some of which take ZERO service time (everything they do happens at one
    instant: a finite burst must still drain in a bounded number of deliveries), concurrency from counts."""
    p = P(params, seed)
    sink = Recorder("sink")
    n = p.count(0, 3)
    nxt = sink
    servers = []
    for i in range(n):
        st = ConstantLatency(0.0) if i % 2 == 0 else ConstantLatency(p.lat(i))
        s = Server(f"s{i}", concurrency=p.count(1 + i % 2, 2), service_time=st, queue_capacity=p.count(2, 8) if i % 3 else None, downstream=nxt)
        servers.append(s)
        nxt = s
    pool = ThreadPool("pool", num_workers=p.count(1, 2), default_processing_time=0.0)
    azero = AsyncServer("azero", max_connections=p.count(2, 3), cpu_work_distribution=ConstantLatency(0.0))
    arr = p.arrivals(8)
    sim = make_sim([*servers, sink, pool, azero], p.end())
    _burst(sim, nxt, arr)
    _burst(sim, pool, arr[:5], "Task")
    _burst(sim, azero, arr[:5])
    return Scenario(sim, {"head": nxt, "sink": sink, "pool": pool, "azero": azero}, "servers", True, len(arr) + 10)


@scenario("servers.behind_front_stage", "servers")
def behind_front_stage(seed, params):
    """Server / ThreadPool / AsyncServer (generator I/O) behind each delaying front stage."""
    from hsverif.scenarios._kit import FRONT_STAGES, front_stage

    p = P(params, seed)
    v = int(p.x("v", seed * 7 + 3))
    sink = Recorder("sink")
    box = {}

    def io(event):
        yield p.lat(2)
        return [Event(time=box["a"].now, event_type="Response", target=sink, context=event.context)]

    kind = (v // 5) % 3
    if kind == 0:
        tgt = Server("tgt", concurrency=p.count(0, 2), service_time=ConstantLatency(p.lat(1)), queue_capacity=p.count(1, 4), downstream=sink)
    elif kind == 1:
        tgt = ThreadPool("tgt", num_workers=p.count(0, 2), queue_capacity=p.count(1, 4), default_processing_time=p.lat(1))
    else:
        tgt = AsyncServer("tgt", max_connections=p.count(0, 2, lo=2), cpu_work_distribution=ConstantLatency(p.lat(1)), io_handler=io)
        box["a"] = tgt
    entry, front = front_stage(FRONT_STAGES[v % 5], p, tgt)
    arr = p.arrivals(8)
    sim = make_sim([*front, tgt, sink], p.end())
    _burst(sim, entry, arr)
    return Scenario(sim, {"tgt": tgt, "sink": sink}, "servers", True, len(arr), notes=f"front={FRONT_STAGES[v % 5]} kind={kind}")

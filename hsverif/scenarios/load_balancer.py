"""load_balancer family: LoadBalancer (every strategy of strategies.py), HealthChecker.

Backends are real `Server`s with a small concurrency (so bursts queue inside the
backends) wired to a `Sink`.  Every strategy gets its own builder; further
builders change the backend set / health flags while traffic is in flight and
run a HealthChecker (non-zero interval and timeout) against a backend that
stops answering for a while and recovers.
"""

from __future__ import annotations

import random

from happysimulator.components.common import Sink
from happysimulator.components.load_balancer import (
    ConsistentHash,
    HealthChecker,
    IPHash,
    LeastConnections,
    LeastResponseTime,
    LoadBalancer,
    PowerOfTwoChoices,
    Random,
    RoundRobin,
    WeightedLeastConnections,
    WeightedRoundRobin,
)
from happysimulator.components.server import Server
from happysimulator.faults import CrashNode, FaultSchedule

from hsverif.scenarios import Scenario, scenario
from hsverif.scenarios._kit import ConstantLatency, Entity, P, Proc, Replier, ev, make_sim

FAMILY = "load_balancer"


def period(p: P, i: int, max_ticks: int = 300) -> float:
    """A periodic interval taken from p.lat(i), scaled by 10 until it fits max_ticks into p.end()."""
    iv = p.lat(i)
    while p.end() / iv > max_ticks:
        iv *= 10.0
    while p.end() / iv < max_ticks / 10.0:
        iv /= 10.0
    return iv


def below(v: float, limit: float) -> float:
    """v scaled down (by thirds) until it is strictly below limit."""
    while v >= limit:
        v /= 3.0
    return v


def _servers(p: P, n: int, sink, prefix: str = "srv", first_lat: int = 0, qcap=None) -> list[Server]:
    return [
        Server(
            f"{prefix}{i}",
            concurrency=p.cap(1),
            service_time=ConstantLatency(p.lat(first_lat + i)),
            queue_capacity=qcap,
            downstream=sink,
        )
        for i in range(n)
    ]


def _traffic(sim, lb, arrivals, **extra):
    for i, t in enumerate(arrivals):
        sim.schedule(ev(t, "Request", lb, client_id=f"client-{i % 5}", key=f"k{i % 7}", seq=i, **extra))


class SlowWindowBackend(Entity):
    """Harness backend: answers after `fast_s`, but after `slow_s` inside [t0, t1) (looks dead to a checker)."""

    def __init__(self, name: str, fast_s: float, slow_s: float, t0_ns: int, t1_ns: int, downstream=None):
        super().__init__(name)
        self.fast_s, self.slow_s = fast_s, slow_s
        self.t0_ns, self.t1_ns = t0_ns, t1_ns
        self.downstream = downstream
        self.active_connections = 0
        self.received = 0
        self.slow_answers = 0

    def handle_event(self, event):
        self.received += 1
        self.active_connections += 1
        if self.t0_ns <= self.now.nanoseconds < self.t1_ns:
            self.slow_answers += 1
            yield self.slow_s
        else:
            yield self.fast_s
        self.active_connections -= 1
        if self.downstream is not None and event.event_type != "health_check":
            return [self.forward(event, self.downstream)]
        return None

    @property
    def stats(self):
        return {"received": self.received, "slow_answers": self.slow_answers}


# ----------------------------------------------------------------------
# one builder per strategy


def _strategy_builder(make_strategy, weights=None, with_replier=False):
    def build(seed, params):
        p = P(params, seed)
        sink = Sink("sink")
        backends: list = list(_servers(p, p.count(0, 3), sink))
        if with_replier:
            # a backend that completes its event only after the service time, so that the
            # `_lb_response` hook carries a positive response time (Server answers at enqueue)
            post = Server("post", concurrency=1, service_time=ConstantLatency(p.lat(4)), downstream=sink)
            backends.append(Replier("replier", p.lat(3), downstream=post, capacity=p.cap(1)))
        strategy = make_strategy(seed)
        lb = LoadBalancer("lb", strategy=strategy)
        for i, b in enumerate(backends):
            lb.add_backend(b, weight=(weights[i % len(weights)] if weights else 1))
        arr = p.arrivals(12)
        extra = [post] if with_replier else []
        sim = make_sim([lb, sink, *backends, *extra], p.end())
        _traffic(sim, lb, arr)
        comps = {"lb": lb, "sink": sink, **{b.name: b for b in backends}}
        return Scenario(sim, comps, FAMILY, True, len(arr))

    return build


_STRATEGIES = {
    "round_robin": (lambda seed: RoundRobin(), None, False),
    "weighted_round_robin": (lambda seed: WeightedRoundRobin(), [3, 1, 2], False),
    "random": (lambda seed: Random(), None, False),
    "least_connections": (lambda seed: LeastConnections(), None, True),
    "weighted_least_connections": (lambda seed: WeightedLeastConnections(), [1, 4, 2], True),
    "least_response_time": (lambda seed: LeastResponseTime(alpha=0.3), None, True),
    "ip_hash": (lambda seed: IPHash(), None, False),
    "consistent_hash": (lambda seed: ConsistentHash(virtual_nodes=17), None, False),
    "power_of_two": (lambda seed: PowerOfTwoChoices(), None, True),
}
for _n, (_mk, _w, _r) in _STRATEGIES.items():
    scenario(f"load_balancer.{_n}", FAMILY)(_strategy_builder(_mk, _w, _r))


@scenario("load_balancer.ip_hash_custom_key_bounded_queues", FAMILY)
def ip_hash_custom_key_bounded_queues(seed, params):
    """IPHash with a user key function (some requests have no key -> round robin fallback); bounded backend queues."""
    p = P(params, seed)
    sink = Sink("sink")
    backends = _servers(p, 2, sink, qcap=2)

    def key(request):
        s = request.context.get("metadata", {}).get("seq", 0)
        return None if s % 3 == 0 else f"user-{s % 4}"

    lb = LoadBalancer("lb", backends=backends, strategy=IPHash(get_key=key))
    arr = p.arrivals(14)
    sim = make_sim([lb, sink, *backends], p.end())
    _traffic(sim, lb, arr)
    return Scenario(sim, {"lb": lb, "sink": sink, **{b.name: b for b in backends}}, FAMILY, True, len(arr))


# ----------------------------------------------------------------------
# membership / health flags changed while requests are in flight


def _ops_scenario(seed, params, on_no_backend, strategy):
    p = P(params, seed)
    rng = random.Random(seed)
    sink = Sink("sink")
    backends = _servers(p, p.count(0, 3, hi=9), sink)
    spare = Server("spare", concurrency=p.cap(1), service_time=ConstantLatency(p.lat(4)), downstream=sink)
    lb = LoadBalancer("lb", backends=backends, strategy=strategy, on_no_backend=on_no_backend)
    step = p.lat(5)
    order = list(backends)
    rng.shuffle(order)

    def ops(proc, event):
        # every backend becomes unhealthy one after the other (requests keep arriving), then nothing is left
        for b in order:
            yield step
            lb.mark_unhealthy(b)
            lb.record_failure(b)
        yield step
        lb.add_backend(spare, weight=2)
        yield step
        lb.remove_backend(order[0])
        for b in order[1:]:
            yield step
            lb.mark_healthy(b)
        yield step
        lb.remove_backend(spare)
        proc.done += 1

    op = Proc("ops", ops)
    arr = p.arrivals(10)
    # a second wave of requests spread over the whole reconfiguration
    t0 = min(arr)
    step_ns = max(1, int(step * 1e9))
    wave = [t0 + (k * step_ns) // 2 for k in range(1, 2 * (len(order) * 2 + 4))]
    sim = make_sim([lb, sink, spare, op, *backends], p.end())
    _traffic(sim, lb, arr + wave)
    sim.schedule(ev(t0, "start", op))
    comps = {"lb": lb, "sink": sink, "spare": spare, **{b.name: b for b in backends}}
    return Scenario(sim, comps, FAMILY, True, len(arr) + len(wave) + 1)


@scenario("load_balancer.no_backend_reject", FAMILY)
def no_backend_reject(seed, params):
    return _ops_scenario(seed, params, "reject", RoundRobin())


@scenario("load_balancer.no_backend_queue", FAMILY)
def no_backend_queue(seed, params):
    return _ops_scenario(seed, params, "queue", ConsistentHash(virtual_nodes=5))


@scenario("load_balancer.no_backend_weighted", FAMILY)
def no_backend_weighted(seed, params):
    return _ops_scenario(seed, params, "reject", WeightedRoundRobin())


# ----------------------------------------------------------------------
# HealthChecker


def _hc_times(p: P, arr):
    iv = period(p, 0, 300)
    to = below(p.lat(1), iv)
    t0 = min(arr)
    out0 = t0 + int(2.5 * iv * 1e9)
    out1 = out0 + int(4.0 * iv * 1e9)
    stop = out1 + int(5.0 * iv * 1e9)
    return iv, to, t0, out0, out1, stop


def _hc_wave(t0, stop, n=40):
    gap = max(1, (stop - t0) // n)
    return [t0 + k * gap for k in range(1, n)]


@scenario("load_balancer.health_slow_backend", FAMILY)
def health_slow_backend(seed, params):
    """A backend answers slower than the check timeout for four intervals: marked unhealthy, then recovers."""
    p = P(params, seed)
    arr = p.arrivals(8)
    iv, to, t0, out0, out1, stop = _hc_times(p, arr)
    sink = Sink("sink")
    servers = _servers(p, 2, sink, first_lat=2)
    flaky = SlowWindowBackend("flaky", fast_s=below(p.lat(4), to), slow_s=iv * 1.7, t0_ns=out0, t1_ns=out1, downstream=sink)
    lb = LoadBalancer("lb", backends=[*servers, flaky], strategy=LeastConnections())
    hc = HealthChecker("hc", lb, interval=iv, timeout=to, healthy_threshold=2, unhealthy_threshold=2)

    def stopper(proc, event):
        hc.stop()
        proc.done += 1

    st = Proc("stopper", stopper)
    sim = make_sim([lb, hc, sink, flaky, st, *servers], p.end())
    wave = _hc_wave(t0, stop)
    _traffic(sim, lb, arr + wave)
    sim.schedule(hc.start())  # before the run: stamped Epoch
    sim.schedule(ev(stop, "stop", st))
    comps = {"lb": lb, "hc": hc, "sink": sink, "flaky": flaky, **{s.name: s for s in servers}}
    return Scenario(sim, comps, FAMILY, True, len(arr) + len(wave) + 2)


@scenario("load_balancer.health_crash_restart", FAMILY)
def health_crash_restart(seed, params):
    """A Server backend is crashed by a CrashNode fault (drops probes and requests) and restarted later."""
    p = P(params, seed)
    arr = p.arrivals(8)
    iv, to, t0, out0, out1, stop = _hc_times(p, arr)
    sink = Sink("sink")
    servers = _servers(p, p.count(0, 3, lo=2, hi=9), sink, first_lat=2)
    lb = LoadBalancer("lb", backends=servers, strategy=RoundRobin(), on_no_backend="queue")
    hc = HealthChecker(
        "hc", lb, interval=iv, timeout=to, healthy_threshold=1, unhealthy_threshold=3, check_event_type="ping"
    )
    faults = FaultSchedule()
    faults.add(CrashNode("srv1", at=out0 / 1e9, restart_at=out1 / 1e9))

    def control(proc, event):
        if event.event_type == "begin":
            return [hc.start()]  # started while the clock is already at the first arrival
        hc.stop()
        proc.done += 1
        return None

    ctl = Proc("control", control)
    sim = make_sim([lb, hc, sink, ctl, *servers], p.end(), fault_schedule=faults)
    wave = _hc_wave(t0, stop)
    _traffic(sim, lb, arr + wave)
    sim.schedule(ev(t0, "begin", ctl))
    sim.schedule(ev(stop, "end", ctl))
    comps = {"lb": lb, "hc": hc, "sink": sink, **{s.name: s for s in servers}}
    return Scenario(sim, comps, FAMILY, True, len(arr) + len(wave) + 2)


@scenario("load_balancer.health_all_backends_down", FAMILY)
def health_all_backends_down(seed, params):
    """Every backend stops answering at once (threshold 1): the balancer has no backend until they recover."""
    p = P(params, seed)
    arr = p.arrivals(6)
    iv, to, t0, out0, out1, stop = _hc_times(p, arr)
    sink = Sink("sink")
    backs = [
        SlowWindowBackend(f"b{i}", fast_s=below(p.lat(2 + i), to), slow_s=iv * (1.1 + i), t0_ns=out0, t1_ns=out1, downstream=sink)
        for i in range(2)
    ]
    lb = LoadBalancer("lb", backends=backs, strategy=PowerOfTwoChoices(), on_no_backend="reject")
    hc = HealthChecker("hc", lb, interval=iv, timeout=to, healthy_threshold=1, unhealthy_threshold=1)

    def stopper(proc, event):
        hc.stop()
        proc.done += 1

    st = Proc("stopper", stopper)
    sim = make_sim([lb, hc, sink, st, *backs], p.end())
    wave = _hc_wave(t0, stop)
    _traffic(sim, lb, arr + wave)
    sim.schedule(hc.start())
    sim.schedule(ev(stop, "stop", st))
    comps = {"lb": lb, "hc": hc, "sink": sink, **{b.name: b for b in backs}}
    return Scenario(sim, comps, FAMILY, True, len(arr) + len(wave) + 2)


# ----------------------------------------------------------------------
# structural extremes: ONE backend, 9..12 backends (every strategy in one scenario)


def _all_strategies(seed, params, n_backends, shared):
    p = P(params, seed)
    sink = Sink("sink")
    n = n_backends(p)
    ents: list = [sink]
    lbs = []
    pool = _servers(p, n, sink, prefix="shared") if shared else None
    if pool:
        ents.extend(pool)
    for k, (name, (mk, weights, _r)) in enumerate(_STRATEGIES.items()):
        backs = pool if pool else _servers(p, n, sink, prefix=f"{name}_", first_lat=k)
        if not pool:
            ents.extend(backs)
        lb = LoadBalancer(f"lb_{name}", strategy=mk(seed), on_no_backend="queue" if k % 2 else "reject")
        for i, b in enumerate(backs):
            lb.add_backend(b, weight=(weights[i % len(weights)] if weights else 1))
        lbs.append(lb)
    ents.extend(lbs)
    arr = p.arrivals(18)
    sim = make_sim(ents, p.end())
    for i, t in enumerate(arr):
        sim.schedule(ev(t, "Request", lbs[i % len(lbs)], client_id=f"client-{i % 5}", key=f"k{i % 7}", seq=i))
    comps = {"sink": sink, **{lb.name: lb for lb in lbs}}
    return Scenario(sim, comps, FAMILY, True, len(arr))


@scenario("load_balancer.one_backend_every_strategy", FAMILY)
def one_backend_every_strategy(seed, params):
    """Nine balancers (one per strategy), each in front of exactly ONE Server."""
    return _all_strategies(seed, params, lambda p: 1, shared=False)


@scenario("load_balancer.many_backends_every_strategy", FAMILY)
def many_backends_every_strategy(seed, params):
    """Nine balancers (one per strategy) sharing the same 9..12 Servers (fewer requests than backends)."""
    return _all_strategies(seed, params, lambda p: p.count(0, 10, lo=9, hi=12), shared=True)


# ----------------------------------------------------------------------
# HealthChecker with sibling parameters out of proportion


def _hc_extreme(seed, params, timeout_of, backend_lat_of, thresholds=(1, 1)):
    p = P(params, seed)
    arr = p.arrivals(6)
    t0 = min(arr)
    n = p.count(0, 3, hi=10)
    iv = period(p, 0, 120 if n > 5 else 300)
    iv_ns = max(1, int(iv * 1e9))
    to = timeout_of(p, iv)
    sink = Sink("sink")
    backs: list = []
    for i in range(n):
        if i % 2 == 0:
            # answers the probe only after its service time (a Server answers at enqueue time)
            backs.append(Replier(f"r{i}", backend_lat_of(p, iv, to, i), downstream=sink, capacity=None))
        else:
            backs.append(Server(f"s{i}", concurrency=1, service_time=ConstantLatency(backend_lat_of(p, iv, to, i)), downstream=sink))
    lb = LoadBalancer("lb", backends=backs, strategy=RoundRobin(), on_no_backend="reject")
    hc = HealthChecker("hc", lb, interval=iv, timeout=to, healthy_threshold=thresholds[0], unhealthy_threshold=thresholds[1])
    stop = t0 + 14 * iv_ns

    def control(proc, event):
        if event.event_type == "begin":
            return [hc.start()]
        hc.stop()
        proc.done += 1
        return None

    ctl = Proc("control", control)
    sim = make_sim([lb, hc, sink, ctl, *backs], p.end())
    wave = _hc_wave(t0, stop, 30)
    _traffic(sim, lb, arr + wave)
    sim.schedule(ev(t0, "begin", ctl))
    sim.schedule(ev(stop, "end", ctl))
    comps = {"lb": lb, "hc": hc, "sink": sink, **{b.name: b for b in backs}}
    return Scenario(sim, comps, FAMILY, True, len(arr) + len(wave) + 2)


@scenario("load_balancer.health_timeout_tiny", FAMILY)
def health_timeout_tiny(seed, params):
    """timeout = 1 ns << backend latency, thresholds 1: generator backends always time out, late answers ignored."""
    return _hc_extreme(seed, params, lambda p, iv: 1e-9, lambda p, iv, to, i: below(p.lat(1 + i), iv))


@scenario("load_balancer.health_timeout_almost_interval", FAMILY)
def health_timeout_almost_interval(seed, params):
    """timeout just below the interval (the constructor rejects >=); backends answer around the timeout / after it."""
    return _hc_extreme(
        seed, params, lambda p, iv: iv * (1.0 - 1e-6),
        lambda p, iv, to, i: iv * [0.999999, 2.5, 0.5, 1.0, 1.0, 0.3][i % 6],
    )  # fmt: skip


@scenario("load_balancer.health_slow_backends_thresholds_one", FAMILY)
def health_slow_backends_thresholds_one(seed, params):
    """Backend latency >> interval (answers arrive several cycles late while the next check is pending)."""
    return _hc_extreme(seed, params, lambda p, iv: below(p.lat(1), iv), lambda p, iv, to, i: iv * (3.3 + i))

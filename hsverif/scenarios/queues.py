"""queues family: Queue / QueueDriver / QueuedResource with every queue policy, RandomRouter."""

from __future__ import annotations

import random

from happysimulator.components.queue import Queue
from happysimulator.components.queue_driver import QueueDriver
from happysimulator.components.queue_policies import (
    AdaptiveLIFO,
    CoDelQueue,
    DeadlineQueue,
    FairQueue,
    REDQueue,
    WeightedFairQueue,
)
from happysimulator.components.queue_policy import FIFOQueue, LIFOQueue, PriorityQueue
from happysimulator.components.queued_resource import QueuedResource
from happysimulator.components.random_router import RandomRouter
from happysimulator.components.server import Server

from hsverif.scenarios import Scenario, scenario
from hsverif.scenarios._kit import ConstantLatency, Duration, Entity, Event, P, Recorder, ev, make_sim


def _burst(sim, target, arrivals, event_type="Request", **md):
    for i, t in enumerate(arrivals):
        sim.schedule(ev(t, event_type, target, n=i, tenant=f"t{i % 3}", priority=(i * 7) % 5, **md))


def _policy(kind: str, p: P, clock):
    cap = int(p.x("queue_capacity", 12))
    if kind == "fifo":
        return FIFOQueue(capacity=cap)
    if kind == "lifo":
        return LIFOQueue(capacity=cap)
    if kind == "priority":
        return PriorityQueue(capacity=cap, key=lambda e: e.context["metadata"].get("priority", 0))
    if kind == "adaptive_lifo":
        return AdaptiveLIFO(congestion_threshold=3, capacity=cap)
    if kind == "codel":
        return CoDelQueue(target_delay=p.lat(1), interval=p.lat(2) * 4, capacity=cap, clock_func=clock)
    if kind == "deadline":
        budget = Duration.from_seconds(p.lat(0) * 4)
        return DeadlineQueue(get_deadline=lambda e: e.context["created_at"] + budget, capacity=cap, clock_func=clock)
    if kind == "fair":
        return FairQueue(get_flow_id=lambda e: e.context["metadata"].get("tenant", "x"), max_flows=8, per_flow_capacity=cap)
    if kind == "wfq":
        return WeightedFairQueue(
            get_flow_id=lambda e: e.context["metadata"].get("tenant", "x"),
            get_weight=lambda f: {"t0": 3, "t1": 2}.get(f, 1),
            capacity=cap,
        )
    if kind == "red":
        capr = max(2, cap)  # RED needs 0 <= min_threshold < max_threshold <= capacity
        return REDQueue(min_threshold=min(2, capr - 1), max_threshold=min(6, capr), max_probability=0.5, capacity=capr)
    raise KeyError(kind)


def _make_server_policy(kind):
    def build(seed, params):
        p = P(params, seed)
        sink = Recorder("sink")
        box = {}
        pol = _policy(kind, p, lambda: box["srv"].now)
        srv = Server("srv", concurrency=p.cap(1), service_time=ConstantLatency(p.lat(0)), queue_policy=pol, downstream=sink)
        box["srv"] = srv
        arr = p.arrivals(8)
        sim = make_sim([srv, sink], p.end())
        _burst(sim, srv, arr)
        return Scenario(sim, {"srv": srv, "sink": sink}, "queues", True, len(arr))

    build.__name__ = f"server_policy_{kind}"
    build.__doc__ = f"Burst into a Server whose queue policy is {kind}; concurrency below the burst size."
    return build


for _k in ("fifo", "lifo", "priority", "adaptive_lifo", "codel", "deadline", "fair", "wfq", "red"):
    scenario(f"queues.server_policy_{_k}", "queues")(_make_server_policy(_k))


class SlowWorker(Entity):
    """Harness worker behind a raw Queue + QueueDriver pair: one item at a time, positive service time."""

    def __init__(self, name, service_s, downstream, concurrency=1):
        super().__init__(name)
        self.service_s = service_s
        self.downstream = downstream
        self.concurrency = concurrency
        self.busy = 0
        self.done = 0

    def has_capacity(self):
        return self.busy < self.concurrency

    def handle_event(self, event):
        self.busy += 1
        yield self.service_s
        self.busy -= 1
        self.done += 1
        return [Event(time=self.now, event_type="Done", target=self.downstream, context=event.context)]

    @property
    def stats(self):
        return {"done": self.done}


@scenario("queues.raw_queue_driver", "queues")
def raw_queue_driver(seed, params):
    """Queue + QueueDriver wired by hand in front of a harness worker (the documented composition)."""
    p = P(params, seed)
    sink = Recorder("sink")
    worker = SlowWorker("worker", p.lat(0), sink, concurrency=p.cap(1))
    q = Queue(name="q", policy=FIFOQueue(capacity=int(p.x("queue_capacity", 10))))
    d = QueueDriver(name="driver", queue=q, target=worker)
    q.egress = d
    arr = p.arrivals(8)
    sim = make_sim([q, d, worker, sink], p.end())
    _burst(sim, q, arr)
    return Scenario(sim, {"q": q, "worker": worker, "sink": sink}, "queues", True, len(arr))


class TwoStage(QueuedResource):
    """Harness subclass of the public QueuedResource extension point with two timed phases."""

    def __init__(self, name, a, b, downstream, concurrency):
        super().__init__(name, policy=FIFOQueue(capacity=20))
        self.a, self.b, self.downstream, self.concurrency = a, b, downstream, concurrency
        self.in_flight = 0
        self.stats_processed = 0

    def has_capacity(self):
        return self.in_flight < self.concurrency

    def handle_queued_event(self, event):
        self.in_flight += 1
        try:
            yield self.a
            yield self.b, [Event(time=self.now, event_type="Progress", target=self.downstream, context=event.context)]
        finally:
            self.in_flight -= 1
        self.stats_processed += 1
        return [self.forward(event, self.downstream, event_type="Done")]


@scenario("queues.queued_resource_subclass", "queues")
def queued_resource_subclass(seed, params):
    p = P(params, seed)
    sink = Recorder("sink")
    qr = TwoStage("stage", p.lat(0), p.lat(1), sink, p.cap(2))
    arr = p.arrivals(8)
    sim = make_sim([qr, sink], p.end())
    _burst(sim, qr, arr)
    return Scenario(sim, {"stage": qr, "sink": sink}, "queues", True, len(arr))


@scenario("queues.random_router_fanout", "queues")
def random_router_fanout(seed, params):
    p = P(params, seed)
    sink = Recorder("sink")
    servers = [
        Server(f"s{i}", concurrency=1, service_time=ConstantLatency(p.lat(i)), queue_capacity=4, downstream=sink)
        for i in range(1 + p.cap(2))
    ]
    router = RandomRouter("router", targets=servers)
    arr = p.arrivals(9)
    sim = make_sim([router, *servers, sink], p.end())
    _burst(sim, router, arr)
    return Scenario(sim, {"router": router, "sink": sink, **{s.name: s for s in servers}}, "queues", True, len(arr))


@scenario("queues.tandem_servers", "queues")
def tandem_servers(seed, params):
    """Three servers in series with shrinking capacity: back-pressure through bounded queues."""
    p = P(params, seed)
    sink = Recorder("sink")
    s3 = Server("s3", concurrency=1, service_time=ConstantLatency(p.lat(2)), queue_capacity=2, downstream=sink)
    s2 = Server("s2", concurrency=p.cap(2), service_time=ConstantLatency(p.lat(1)), queue_capacity=3, downstream=s3)
    s1 = Server("s1", concurrency=p.cap(2) + 1, service_time=ConstantLatency(p.lat(0)), downstream=s2)
    arr = p.arrivals(10)
    sim = make_sim([s1, s2, s3, sink], p.end())
    _burst(sim, s1, arr)
    return Scenario(sim, {"s1": s1, "s2": s2, "s3": s3, "sink": sink}, "queues", True, len(arr))


# ----------------------------------------------------------------------
# degenerate capacities and zero durations


@scenario("queues.degenerate_capacities", "queues")
def degenerate_capacities(seed, params):
    """Every queue policy with capacity 1 in front of a zero-service-time server and of a slow one;
    a raw Queue/QueueDriver pair whose worker takes zero time; RandomRouter with ONE target."""
    p = P(params, seed)
    sink = Recorder("sink")
    box = {}
    ents = []
    heads = []
    for i, kind in enumerate(("fifo", "lifo", "priority", "adaptive_lifo", "codel", "deadline", "fair", "wfq", "red")):
        pp = P({**p.d, "x": {**(p.d.get("x") or {}), "queue_capacity": 1 if i % 2 == 0 else p.count(0, 3)}}, seed)
        name = f"srv_{kind}"
        pol = _policy(kind, pp, (lambda n=name: box[n].now))
        st = ConstantLatency(0.0) if i % 3 == 0 else ConstantLatency(p.lat(i))
        srv = Server(name, concurrency=1, service_time=st, queue_policy=pol, downstream=sink)
        box[name] = srv
        ents.append(srv)
        heads.append(srv)
    worker = SlowWorker("worker", 0.0, sink, concurrency=1)
    q = Queue(name="q", policy=FIFOQueue(capacity=1))
    d = QueueDriver(name="driver", queue=q, target=worker)
    q.egress = d
    router = RandomRouter("router", targets=[heads[0]])
    arr = p.arrivals(6)
    sim = make_sim([*ents, q, d, worker, router, sink], p.end())
    n = 0
    for h in [*heads, q, router]:
        _burst(sim, h, arr)
        n += len(arr)
    return Scenario(sim, {"q": q, "worker": worker, "sink": sink, **{e.name: e for e in ents}}, "queues", True, n)


@scenario("queues.tandem_counts", "queues")
def tandem_counts(seed, params):
    """p.count servers in series with identical service times (sums of n identical delays) and capacity 1 queues."""
    p = P(params, seed)
    sink = Recorder("sink")
    n = p.count(0, 4)
    nxt = sink
    servers = []
    for i in range(n):
        s = Server(f"s{i}", concurrency=1, service_time=ConstantLatency(p.lat(0)), queue_capacity=p.count(1, 2), downstream=nxt)
        servers.append(s)
        nxt = s
    arr = p.arrivals(8)
    sim = make_sim([*servers, sink], p.end())
    _burst(sim, nxt, arr)
    return Scenario(sim, {"head": nxt, "sink": sink}, "queues", True, len(arr))

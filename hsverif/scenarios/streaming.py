"""streaming family: EventLog, ConsumerGroup, StreamProcessor.

EventLog / ConsumerGroup expose generator APIs (append / read / join / leave / poll / commit
return through a SimFuture) which are driven from `Proc` producers and consumers, and an
event API ('Append' / 'Read' / 'Join' / ... events) which is driven with plain events.
StreamProcessor is event driven ('Process' events carrying an event time).
"""

from __future__ import annotations

import random

from happysimulator.components.streaming import (
    ConsumerGroup,
    EventLog,
    LateEventPolicy,
    RangeAssignment,
    RoundRobinAssignment,
    SessionWindow,
    SizeRetention,
    SlidingWindow,
    StickyAssignment,
    StreamProcessor,
    TimeRetention,
    TumblingWindow,
)
from happysimulator.core.sim_future import SimFuture

from hsverif.scenarios import Scenario, scenario
from hsverif.scenarios._kit import P, Proc, Recorder, at, ev, make_sim


def _every(p: P, i: int, n: int = 2500) -> float:
    """Period of a never-ending periodic event (retention check, watermark): the hostile
    value, floored so a run stays ~< n ticks."""
    return max(p.lat(i), p.end() / n)


def _tail(arr: list[int], gap_s: float, k: int) -> list[int]:
    g = max(1, int(gap_s * 1e9))
    return [max(arr) + (j + 1) * g + j for j in range(k)]


# ----------------------------------------------------------------------
# EventLog


def _retention(kind: str, p: P):
    if kind == "time":
        return TimeRetention(max_age_s=p.lat(2) * 2)
    if kind == "size":
        return SizeRetention(max_records=max(1, p.cap(2)))
    return None


def _log(p: P, kind: str, partitions: int = 3, raw: bool = False) -> EventLog:
    return EventLog(
        "log",
        num_partitions=partitions,
        retention_policy=_retention(kind, p),
        append_latency=p.lat(0),
        read_latency=p.lat(1),
        retention_check_interval=p.lat(3) if raw else _every(p, 3),
    )


def _log_generator_api(seed, params, kind: str, raw: bool = False):
    p = P(params, seed)
    log = _log(p, kind, raw=raw)
    hold = p.hold()

    def producer(proc, event):
        i = event.context["metadata"]["worker"]
        rec = yield from log.append(f"key-{i % 4}", {"i": i})
        proc.log.append((rec.partition, rec.offset))
        yield hold * 0.5
        rec = yield from log.append(f"key-{(i + 1) % 4}", {"i": i, "second": True})
        proc.done += 1

    def reader(proc, event):
        for pid in range(log.num_partitions):
            recs = yield from log.read(pid, offset=0, max_records=5)
            proc.log.append((pid, len(recs)))
            yield hold
        recs = yield from log.read(99)  # unknown partition: empty
        proc.done += 1

    arr = p.arrivals(8)
    end = p.end()
    if raw:
        # raw (unfloored) retention interval: one burst, and a horizon of ~2000 retention
        # periods after the first append completes (the check re-arms itself forever)
        arr = [min(arr) + i for i in range(len(arr))]
        end = min(end, min(arr) / 1e9 + p.lat(0) + 2000 * p.lat(3))
    procs = [Proc(f"w{i}", producer if i % 3 else reader) for i in range(len(arr))]
    late = Proc("late.reader", reader)
    sim = make_sim([log, late, *procs], end)
    for i, t in enumerate(arr):
        sim.schedule(ev(t, "start", procs[i], worker=i))
    sim.schedule(ev(_tail(arr, p.lat(2) * 3 + _every(p, 3), 1)[0], "start", late, worker=-1))
    return Scenario(sim, {"log": log, **{q.name: q for q in procs}}, "streaming", True, len(arr) + 1)


@scenario("streaming.event_log_append_read_time_retention", "streaming")
def event_log_append_read_time_retention(seed, params):
    """Producers / readers use the generator API concurrently; TimeRetention with a small
    max age and a small retention_check_interval."""
    return _log_generator_api(seed, params, "time")


@scenario("streaming.event_log_append_read_size_retention", "streaming")
def event_log_append_read_size_retention(seed, params):
    """Same with SizeRetention (keeps `cap` records per partition)."""
    return _log_generator_api(seed, params, "size")


@scenario("streaming.event_log_raw_retention_interval", "streaming")
def event_log_raw_retention_interval(seed, params):
    """TimeRetention with the *raw* hostile retention_check_interval (down to 1 ns) and a short
    horizon instead of a floored period."""
    return _log_generator_api(seed, params, "time", raw=True)


@scenario("streaming.event_log_event_api", "streaming")
def event_log_event_api(seed, params):
    """'Append' / 'Read' events sent directly (with and without a reply future), no retention
    policy; a waiter parks on the reply futures."""
    p = P(params, seed)
    log = _log(p, "none", partitions=2)
    futs: list[SimFuture] = []

    def waiter(proc, event):
        for f in list(futs):
            r = yield f
            proc.log.append(type(r).__name__)
        proc.done += 1

    w = Proc("waiter", waiter)
    arr = p.arrivals(9)
    sim = make_sim([log, w], p.end())
    for i, t in enumerate(arr):
        if i % 3 == 2:
            ctx = {"partition": i % 2, "offset": 0, "max_records": 3}
            kind = "Read"
        else:
            ctx = {"key": f"k{i % 5}", "value": i}
            kind = "Append"
        if i % 2 == 0:
            f = SimFuture()
            futs.append(f)
            ctx["reply_future"] = f
        sim.schedule(ev(t, kind, log, context=ctx, i=i))
    sim.schedule(ev(min(arr), "start", w))
    sim.schedule(ev(max(arr) + 5, "Unknown", log))
    return Scenario(sim, {"log": log, "waiter": w}, "streaming", True, len(arr) + 2)


# ----------------------------------------------------------------------
# ConsumerGroup


def _group(seed, params, strategy_name: str):
    p = P(params, seed)
    strategy = {"range": RangeAssignment, "round_robin": RoundRobinAssignment, "sticky": StickyAssignment}[strategy_name]()
    log = _log(p, "time" if strategy_name == "sticky" else "none", partitions=4)
    group = ConsumerGroup(
        "group",
        event_log=log,
        assignment_strategy=strategy,
        rebalance_delay=p.lat(4),
        poll_latency=p.lat(5),
        session_timeout=p.lat(6),
    )
    hold = p.hold()

    def consumer(proc, event):
        i = event.context["metadata"]["worker"]
        assigned = yield from group.join(proc.name, proc)
        proc.log.append(("joined", tuple(assigned)))
        for _ in range(5):
            proc.log.append(("lag", sum(group.consumer_lag(proc.name).values()), group.total_lag()))
            recs = yield from group.poll(proc.name, max_records=4)
            offsets: dict[int, int] = {}
            for r in recs:
                offsets[r.partition] = max(offsets.get(r.partition, 0), r.offset + 1)
            yield hold  # processing time, other members join / leave meanwhile
            if offsets:
                yield from group.commit(proc.name, offsets)
        if i % 2 == 0:
            yield from group.leave(proc.name)
            proc.log.append("left")
        proc.done += 1

    def producer(proc, event):
        for k in range(10):
            yield from log.append(f"key-{k}", k)
            yield hold * 0.3
        proc.done += 1

    arr = p.arrivals(5)
    cons = [Proc(f"c{i}", consumer) for i in range(len(arr))]
    prod = Proc("producer", producer)
    sim = make_sim([group, log, prod, *cons], p.end())
    for i, t in enumerate(arr):
        sim.schedule(ev(t, "start", cons[i], worker=i))
    sim.schedule(ev(min(arr), "start", prod, worker=-1))
    # event API of the group as well: a poll / commit / leave for a member that never joined
    t_end = max(arr) + 7
    sim.schedule(ev(t_end, "Poll", group, context={"consumer_name": "ghost", "max_records": 2}))
    sim.schedule(ev(t_end, "Commit", group, context={"consumer_name": "ghost", "offsets": {0: 1}}))
    sim.schedule(ev(t_end + 1, "Leave", group, context={"consumer_name": "ghost"}))
    return Scenario(sim, {"group": group, "log": log, **{c.name: c for c in cons}}, "streaming", True, len(arr) + 4)


@scenario("streaming.consumer_group_range", "streaming")
def consumer_group_range(seed, params):
    """Members join in a burst (every join rebalances after rebalance_delay), poll / commit
    while others join and leave; RangeAssignment."""
    return _group(seed, params, "range")


@scenario("streaming.consumer_group_round_robin", "streaming")
def consumer_group_round_robin(seed, params):
    """Same with RoundRobinAssignment."""
    return _group(seed, params, "round_robin")


@scenario("streaming.consumer_group_sticky", "streaming")
def consumer_group_sticky(seed, params):
    """Same with StickyAssignment and a time-retention log underneath."""
    return _group(seed, params, "sticky")


# ----------------------------------------------------------------------
# StreamProcessor


def _window(kind: str, p: P):
    w = p.lat(0) * 4
    if kind == "tumbling":
        return TumblingWindow(size_s=w)
    if kind == "sliding":
        return SlidingWindow(size_s=w, slide_s=w / 3)
    return SessionWindow(gap_s=w / 2)


def _processor(seed, params, wkind: str, policy: LateEventPolicy, raw: bool = False):
    p = P(params, seed)
    rng = random.Random(seed)
    out = Recorder("out")
    side = Recorder("side")
    wm = p.lat(1) if raw else _every(p, 1)
    sp = StreamProcessor(
        "proc",
        window_type=_window(wkind, p),
        aggregate_fn=lambda records: len(records),
        downstream=out,
        allowed_lateness_s=p.lat(2) * 0.5,
        late_event_policy=policy,
        side_output=side if policy is LateEventPolicy.SIDE_OUTPUT else None,
        watermark_interval_s=wm,
    )
    arr = p.arrivals(8)
    end = p.end()
    if raw:
        arr = [min(arr) + i for i in range(len(arr))]  # one burst: the watermark timer starts with it
    arr = sorted(arr + _tail(arr, wm * 1.1, 6))  # the watermark advances between these
    if raw:
        end = min(end, max(arr) / 1e9 + 2000 * wm)  # ~2000 watermark periods, then stop
    sim = make_sim([sp, out, side], end)
    w = p.lat(0) * 4
    for i, t in enumerate(arr):
        ts = t / 1e9
        if i % 4 == 3:
            et = max(0.0, ts - wm * 3 - w * rng.choice([1, 2, 5]))  # late: far behind the watermark
        else:
            et = max(0.0, ts - w * rng.random())  # on time, slightly out of order
        ctx = {"key": f"k{i % 2}", "value": i}
        if i % 5 == 0:
            ctx["event_time"] = at(int(et * 1e9))  # Instant flavour of the field
        elif i % 5 == 1:
            pass  # no event time: processing time is used
        else:
            ctx["event_time_s"] = et
        sim.schedule(ev(t, "Process", sp, context=ctx, i=i))
    sim.schedule(ev(max(arr) + 3, "Unknown", sp))
    return Scenario(sim, {"proc": sp, "out": out, "side": side}, "streaming", True, len(arr) + 1)


def _mk_processor(wkind: str, policy: LateEventPolicy):
    @scenario(f"streaming.processor_{wkind}_{policy.value}", "streaming")
    def builder(seed, params):
        return _processor(seed, params, wkind, policy)

    builder.__doc__ = (
        f"{wkind} windows, late events handled with {policy.name}; out-of-order and late events, "
        "small periodic watermark."
    )
    return builder


for _w in ("tumbling", "sliding", "session"):
    for _pol in (LateEventPolicy.DROP, LateEventPolicy.UPDATE, LateEventPolicy.SIDE_OUTPUT):
        _mk_processor(_w, _pol)


@scenario("streaming.processor_raw_watermark_interval", "streaming")
def processor_raw_watermark_interval(seed, params):
    """Tumbling windows / UPDATE with the *raw* hostile watermark_interval_s (down to 1 ns) and
    a short horizon instead of a floored period."""
    return _processor(seed, params, "tumbling", LateEventPolicy.UPDATE, raw=True)

"""streaming family: EventLog, ConsumerGroup, StreamProcessor.

EventLog / ConsumerGroup expose generator APIs (append / read / join / leave / poll / commit
return through a SimFuture) which are driven from `Proc` producers and consumers, and an
event API ('Append' / 'Read' / 'Join' / ... events) which is driven with plain events.
StreamProcessor is event driven ('Process' events carrying an event time).
"""

from __future__ import annotations

import random

from happysimulator.components.streaming import (
    ConsumerGroup,
    EventLog,
    LateEventPolicy,
    RangeAssignment,
    RoundRobinAssignment,
    SessionWindow,
    SizeRetention,
    SlidingWindow,
    StickyAssignment,
    StreamProcessor,
    TimeRetention,
    TumblingWindow,
)
from happysimulator.core.sim_future import SimFuture

from hsverif.scenarios import Scenario, scenario
from hsverif.scenarios._kit import FRONT_STAGES, P, Proc, Recorder, at, ev, front_stage, make_sim


def _every(p: P, i: int, n: int = 2500) -> float:
    """Period of a never-ending periodic event (retention check, watermark): the hostile
    value, floored so a run stays ~< n ticks."""
    return max(p.lat(i), p.end() / n)


def _tail(arr: list[int], gap_s: float, k: int) -> list[int]:
    g = max(1, int(gap_s * 1e9))
    return [max(arr) + (j + 1) * g + j for j in range(k)]


# ----------------------------------------------------------------------
# EventLog


def _retention(kind: str, p: P):
    if kind == "time":
        return TimeRetention(max_age_s=p.lat(2) * 2)
    if kind == "size":
        return SizeRetention(max_records=max(1, p.cap(2)))
    return None


def _log(p: P, kind: str, partitions: int = 3, raw: bool = False) -> EventLog:
    return EventLog(
        "log",
        num_partitions=p.count(0, partitions),
        retention_policy=_retention(kind, p),
        append_latency=p.lat(0),
        read_latency=p.lat(1),
        retention_check_interval=p.lat(3) if raw else _every(p, 3),
    )


def _log_generator_api(seed, params, kind: str, raw: bool = False):
    p = P(params, seed)
    log = _log(p, kind, raw=raw)
    hold = p.hold()

    def producer(proc, event):
        i = event.context["metadata"]["worker"]
        rec = yield from log.append(f"key-{i % 4}", {"i": i})
        proc.log.append((rec.partition, rec.offset))
        yield hold * 0.5
        rec = yield from log.append(f"key-{(i + 1) % 4}", {"i": i, "second": True})
        proc.done += 1

    def reader(proc, event):
        for pid in range(log.num_partitions):
            recs = yield from log.read(pid, offset=0, max_records=5)
            proc.log.append((pid, len(recs)))
            yield hold
        recs = yield from log.read(99)  # unknown partition: empty
        proc.done += 1

    arr = p.arrivals(8)
    end = p.end()
    if raw:
        # raw (unfloored) retention interval: one burst, and a horizon of ~2000 retention
        # periods after the first append completes (the check re-arms itself forever)
        arr = [min(arr) + i for i in range(len(arr))]
        end = min(end, min(arr) / 1e9 + p.lat(0) + 2000 * p.lat(3))
    procs = [Proc(f"w{i}", producer if i % 3 else reader) for i in range(len(arr))]
    late = Proc("late.reader", reader)
    sim = make_sim([log, late, *procs], end)
    for i, t in enumerate(arr):
        sim.schedule(ev(t, "start", procs[i], worker=i))
    sim.schedule(ev(_tail(arr, p.lat(2) * 3 + _every(p, 3), 1)[0], "start", late, worker=-1))
    return Scenario(sim, {"log": log, **{q.name: q for q in procs}}, "streaming", True, len(arr) + 1)


@scenario("streaming.event_log_append_read_time_retention", "streaming")
def event_log_append_read_time_retention(seed, params):
    """Producers / readers use the generator API concurrently; TimeRetention with a small
    max age and a small retention_check_interval."""
    return _log_generator_api(seed, params, "time")


@scenario("streaming.event_log_append_read_size_retention", "streaming")
def event_log_append_read_size_retention(seed, params):
    """Same with SizeRetention (keeps `cap` records per partition)."""
    return _log_generator_api(seed, params, "size")


@scenario("streaming.event_log_raw_retention_interval", "streaming")
def event_log_raw_retention_interval(seed, params):
    """TimeRetention with the *raw* hostile retention_check_interval (down to 1 ns) and a short
    horizon instead of a floored period."""
    return _log_generator_api(seed, params, "time", raw=True)


@scenario("streaming.event_log_event_api", "streaming")
def event_log_event_api(seed, params):
    """'Append' / 'Read' events sent directly (with and without a reply future), no retention
    policy; a waiter parks on the reply futures."""
    p = P(params, seed)
    log = _log(p, "none", partitions=2)
    futs: list[SimFuture] = []

    def waiter(proc, event):
        for f in list(futs):
            r = yield f
            proc.log.append(type(r).__name__)
        proc.done += 1

    w = Proc("waiter", waiter)
    arr = p.arrivals(9)
    sim = make_sim([log, w], p.end())
    for i, t in enumerate(arr):
        if i % 3 == 2:
            ctx = {"partition": i % log.num_partitions, "offset": 0, "max_records": 3}
            kind = "Read"
        else:
            ctx = {"key": f"k{i % 5}", "value": i}
            kind = "Append"
        if i % 2 == 0:
            f = SimFuture()
            futs.append(f)
            ctx["reply_future"] = f
        sim.schedule(ev(t, kind, log, context=ctx, i=i))
    sim.schedule(ev(min(arr), "start", w))
    sim.schedule(ev(max(arr) + 5, "Unknown", log))
    return Scenario(sim, {"log": log, "waiter": w}, "streaming", True, len(arr) + 2)


# ----------------------------------------------------------------------
# ConsumerGroup


def _group(seed, params, strategy_name: str):
    p = P(params, seed)
    strategy = {"range": RangeAssignment, "round_robin": RoundRobinAssignment, "sticky": StickyAssignment}[strategy_name]()
    log = _log(p, "time" if strategy_name == "sticky" else "none", partitions=4)
    group = ConsumerGroup(
        "group",
        event_log=log,
        assignment_strategy=strategy,
        rebalance_delay=p.lat(4),
        poll_latency=p.lat(5),
        session_timeout=p.lat(6),
    )
    hold = p.hold()

    def consumer(proc, event):
        i = event.context["metadata"]["worker"]
        assigned = yield from group.join(proc.name, proc)
        proc.log.append(("joined", tuple(assigned)))
        for _ in range(5):
            proc.log.append(("lag", sum(group.consumer_lag(proc.name).values()), group.total_lag()))
            recs = yield from group.poll(proc.name, max_records=4)
            offsets: dict[int, int] = {}
            for r in recs:
                offsets[r.partition] = max(offsets.get(r.partition, 0), r.offset + 1)
            yield hold  # processing time, other members join / leave meanwhile
            if offsets:
                yield from group.commit(proc.name, offsets)
        if i % 2 == 0:
            yield from group.leave(proc.name)
            proc.log.append("left")
        proc.done += 1

    def producer(proc, event):
        for k in range(10):
            yield from log.append(f"key-{k}", k)
            yield hold * 0.3
        proc.done += 1

    arr = p.arrivals(5)
    arr = [arr[i % len(arr)] for i in range(p.count(1, len(arr)))]  # counts[1] group members
    cons = [Proc(f"c{i}", consumer) for i in range(len(arr))]
    prod = Proc("producer", producer)
    sim = make_sim([group, log, prod, *cons], p.end())
    for i, t in enumerate(arr):
        sim.schedule(ev(t, "start", cons[i], worker=i))
    sim.schedule(ev(min(arr), "start", prod, worker=-1))
    # event API of the group as well: a poll / commit / leave for a member that never joined
    t_end = max(arr) + 7
    sim.schedule(ev(t_end, "Poll", group, context={"consumer_name": "ghost", "max_records": 2}))
    sim.schedule(ev(t_end, "Commit", group, context={"consumer_name": "ghost", "offsets": {0: 1}}))
    sim.schedule(ev(t_end + 1, "Leave", group, context={"consumer_name": "ghost"}))
    return Scenario(sim, {"group": group, "log": log, **{c.name: c for c in cons}}, "streaming", True, len(arr) + 4)


@scenario("streaming.consumer_group_range", "streaming")
def consumer_group_range(seed, params):
    """Members join in a burst (every join rebalances after rebalance_delay), poll / commit
    while others join and leave; RangeAssignment."""
    return _group(seed, params, "range")


@scenario("streaming.consumer_group_round_robin", "streaming")
def consumer_group_round_robin(seed, params):
    """Same with RoundRobinAssignment."""
    return _group(seed, params, "round_robin")


@scenario("streaming.consumer_group_sticky", "streaming")
def consumer_group_sticky(seed, params):
    """Same with StickyAssignment and a time-retention log underneath."""
    return _group(seed, params, "sticky")


# ----------------------------------------------------------------------
# StreamProcessor


def _window(kind: str, p: P):
    w = p.lat(0) * 4
    if kind == "tumbling":
        return TumblingWindow(size_s=w)
    if kind == "sliding":
        return SlidingWindow(size_s=w, slide_s=w / p.count(0, 3, hi=10))  # counts[0] overlapping windows
    return SessionWindow(gap_s=w / 2)


def _processor(seed, params, wkind: str, policy: LateEventPolicy, raw: bool = False):
    p = P(params, seed)
    rng = random.Random(seed)
    out = Recorder("out")
    side = Recorder("side")
    wm = p.lat(1) if raw else _every(p, 1)
    sp = StreamProcessor(
        "proc",
        window_type=_window(wkind, p),
        aggregate_fn=lambda records: len(records),
        downstream=out,
        allowed_lateness_s=p.lat(2) * 0.5,
        late_event_policy=policy,
        side_output=side if policy is LateEventPolicy.SIDE_OUTPUT else None,
        watermark_interval_s=wm,
    )
    arr = p.arrivals(8)
    end = p.end()
    if raw:
        arr = [min(arr) + i for i in range(len(arr))]  # one burst: the watermark timer starts with it
    arr = sorted(arr + _tail(arr, wm * 1.1, 6))  # the watermark advances between these
    if raw:
        end = min(end, max(arr) / 1e9 + 2000 * wm)  # ~2000 watermark periods, then stop
    sim = make_sim([sp, out, side], end)
    w = p.lat(0) * 4
    for i, t in enumerate(arr):
        ts = t / 1e9
        if i % 4 == 3:
            et = max(0.0, ts - wm * 3 - w * rng.choice([1, 2, 5]))  # late: far behind the watermark
        else:
            et = max(0.0, ts - w * rng.random())  # on time, slightly out of order
        ctx = {"key": f"k{i % p.count(1, 2)}", "value": i}
        if i % 5 == 0:
            ctx["event_time"] = at(int(et * 1e9))  # Instant flavour of the field
        elif i % 5 == 1:
            pass  # no event time: processing time is used
        else:
            ctx["event_time_s"] = et
        sim.schedule(ev(t, "Process", sp, context=ctx, i=i))
    sim.schedule(ev(max(arr) + 3, "Unknown", sp))
    return Scenario(sim, {"proc": sp, "out": out, "side": side}, "streaming", True, len(arr) + 1)


def _mk_processor(wkind: str, policy: LateEventPolicy):
    @scenario(f"streaming.processor_{wkind}_{policy.value}", "streaming")
    def builder(seed, params):
        return _processor(seed, params, wkind, policy)

    builder.__doc__ = (
        f"{wkind} windows, late events handled with {policy.name}; out-of-order and late events, "
        "small periodic watermark."
    )
    return builder


for _w in ("tumbling", "sliding", "session"):
    for _pol in (LateEventPolicy.DROP, LateEventPolicy.UPDATE, LateEventPolicy.SIDE_OUTPUT):
        _mk_processor(_w, _pol)


@scenario("streaming.processor_raw_watermark_interval", "streaming")
def processor_raw_watermark_interval(seed, params):
    """Tumbling windows / UPDATE with the *raw* hostile watermark_interval_s (down to 1 ns) and
    a short horizon instead of a floored period."""
    return _processor(seed, params, "tumbling", LateEventPolicy.UPDATE, raw=True)


# ----------------------------------------------------------------------
# degenerate operations: empty results, zero sizes, tiny windows


@scenario("streaming.degenerate_empty_log_and_group", "streaming")
def degenerate_empty_log_and_group(seed, params):
    """Reads / polls that find nothing: an empty partition, an offset beyond the end,
    max_records 0, a negative partition id; a group whose only member polls an empty log,
    commits nothing, commits backwards, leaves (last member) and polls again afterwards; a
    second member joining and leaving an already empty group; zero append / read / poll /
    rebalance latencies on a second log + group."""
    p = P(params, seed)
    log = EventLog("log", num_partitions=p.count(0, 3), append_latency=p.lat(0), read_latency=p.lat(1), retention_policy=SizeRetention(1), retention_check_interval=_every(p, 3))
    group = ConsumerGroup("group", event_log=log, assignment_strategy=StickyAssignment(), rebalance_delay=p.lat(2), poll_latency=p.lat(1), session_timeout=p.lat(0))
    log0 = EventLog("log.zero", num_partitions=1, append_latency=0.0, read_latency=0.0)
    group0 = ConsumerGroup("group.zero", event_log=log0, rebalance_delay=0.0, poll_latency=0.0)

    def lonely(proc, event):
        lg, gr = (log, group) if event.context["metadata"]["worker"] % 2 == 0 else (log0, group0)
        out = proc.log
        out.append(("read.empty", len((yield from lg.read(0)))))
        out.append(("read.beyond", len((yield from lg.read(0, offset=10_000)))))
        out.append(("read.none", len((yield from lg.read(0, max_records=0)))))
        out.append(("read.negative", len((yield from lg.read(-1)))))
        assigned = yield from gr.join(proc.name, proc)
        out.append(("poll.empty", len((yield from gr.poll(proc.name)))))
        yield from gr.commit(proc.name, {})  # commit of nothing
        rec = yield from lg.append("k", 1)
        yield from lg.append("k", 2)
        got = yield from gr.poll(proc.name, max_records=1)
        yield from gr.commit(proc.name, {rec.partition: 2})
        yield from gr.commit(proc.name, {rec.partition: 0})  # backwards: must be ignored
        out.append(("poll.caught_up", len((yield from gr.poll(proc.name)))))
        out.append(("poll.zero", len((yield from gr.poll(proc.name, max_records=0)))))
        yield from gr.leave(proc.name)  # may be the last member
        out.append(("poll.after_leave", len((yield from gr.poll(proc.name)))))
        yield from gr.leave(proc.name)  # leaving twice
        proc.done += 1

    arr = p.arrivals(4)
    procs = [Proc(f"m{i}", lonely) for i in range(len(arr))]
    sim = make_sim([log, group, log0, group0, *procs], p.end())
    for i, t in enumerate(arr):
        sim.schedule(ev(t, "start", procs[i], worker=i))
    return Scenario(sim, {"log": log, "group": group, "log.zero": log0, "group.zero": group0, **{q.name: q for q in procs}}, "streaming", True, len(arr))


@scenario("streaming.degenerate_tiny_windows", "streaming")
def degenerate_tiny_windows(seed, params):
    """Windows of 1 ns (tumbling, sliding with slide = size, session gap 1 ns), zero allowed
    lateness; a 'Watermark' tick delivered before any record was processed (no open window)
    and watermarks far ahead of / behind the data; records at event time 0."""
    p = P(params, seed)
    out = Recorder("out")
    eps = 1e-9
    wm = _every(p, 1)
    procs = [
        StreamProcessor("sp.tumbling", TumblingWindow(eps), len, out, watermark_interval_s=wm),
        StreamProcessor("sp.sliding", SlidingWindow(eps, eps), len, out, late_event_policy=LateEventPolicy.UPDATE, watermark_interval_s=wm),
        StreamProcessor("sp.session", SessionWindow(eps), len, out, late_event_policy=LateEventPolicy.SIDE_OUTPUT, side_output=None, watermark_interval_s=wm),
        StreamProcessor("sp.sliding_many", SlidingWindow(p.lat(0), p.lat(0) / p.count(0, 3, hi=12)), len, out, allowed_lateness_s=0.0, watermark_interval_s=wm),
        StreamProcessor("sp.idle", TumblingWindow(p.lat(0)), len, out, watermark_interval_s=wm),  # only ever sees watermarks
    ]
    arr = sorted(p.arrivals(5))
    arr = arr + _tail(arr, wm * 1.5, 3)
    sim = make_sim([*procs, out], p.end())
    t0 = min(arr)
    for sp in procs:
        sim.schedule(ev(t0, "Watermark", sp, context={"watermark_s": 0.0}))  # no open window yet
    sim.schedule(ev(t0 + 1, "Watermark", procs[-1], context={"watermark_s": 1e6}))  # far ahead
    sim.schedule(ev(t0 + 2, "Watermark", procs[-1], context={"watermark_s": -5.0}))  # behind
    for i, t in enumerate(arr):
        for sp in procs[:-1]:
            ets = 0.0 if i == 0 else t / 1e9 - (eps if i % 2 else 0.0)
            sim.schedule(ev(t, "Process", sp, context={"key": "k", "value": i, "event_time_s": ets}, i=i))
    return Scenario(sim, {sp.name: sp for sp in procs} | {"out": out}, "streaming", True, len(arr) * 4 + len(procs) + 2)


@scenario("streaming.composed_processor_and_log", "streaming")
def composed_processor_and_log(seed, params):
    """'Process' / 'Append' events reach a StreamProcessor / EventLog through a front stage
    (server_queue / conveyor / link by x.v), i.e. later than their creation time and spread out; the processor uses
    processing time (no event time given) for half of them and the creation time for the rest."""
    p = P(params, seed)
    v = int(p.x("v", seed * 7 + 3))
    # only the stages that keep the event type ('Process' / 'Append' are dispatched on it;
    # rate_limited / inductor re-type to 'forward::<type>', which both components ignore)
    stages = [k for k in FRONT_STAGES if k in ("server_queue", "conveyor", "link")]
    fk = stages[v % len(stages)]
    out = Recorder("out")
    kinds = [LateEventPolicy.DROP, LateEventPolicy.UPDATE, LateEventPolicy.SIDE_OUTPUT]
    policy = kinds[(v // 5) % 3]
    win = [TumblingWindow(p.lat(0) * 2), SlidingWindow(p.lat(0) * 2, p.lat(0) * 2 / p.count(0, 2, hi=6)), SessionWindow(p.lat(0))][(v // 15) % 3]
    sp = StreamProcessor("proc", win, len, out, allowed_lateness_s=p.lat(0) * 0.5, late_event_policy=policy, side_output=out if policy is LateEventPolicy.SIDE_OUTPUT else None, watermark_interval_s=_every(p, 1))
    log = EventLog("log", num_partitions=p.count(1, 2), retention_policy=TimeRetention(p.lat(0) * 3), append_latency=p.lat(2), read_latency=p.lat(2), retention_check_interval=_every(p, 3))
    e1, f1 = front_stage(fk, p, sp, 0, name="front.proc")
    e2, f2 = front_stage(fk, p, log, 0, name="front.log")
    arr = p.arrivals(8)
    sim = make_sim([sp, log, out, *f1, *f2], p.end())
    for i, t in enumerate(arr):
        ctx = {"key": f"k{i % 2}", "value": i}
        if i % 2:
            ctx["event_time_s"] = t / 1e9  # creation time: late by the stage delay on arrival
        sim.schedule(ev(t, "Process", e1, context=ctx, i=i))
        sim.schedule(ev(t, "Append", e2, context={"key": f"k{i % 3}", "value": i}, i=i))
    sc = Scenario(sim, {"proc": sp, "log": log, "out": out}, "streaming", True, 2 * len(arr))
    sc.notes = f"front={fk} policy={policy.name} window={type(win).__name__}"
    return sc

"""clients family: Client (+ every RetryPolicy), ConnectionPool, PooledClient.

Client / PooledClient are event driven (request events in, `_client_response` through the
completion hook of the forwarded event, `_client_timeout` timers).  ConnectionPool.acquire
is a generator API and is driven from `Proc` workers that keep the connection for a
positive time; its event API is warmup + idle-timeout timers.
"""

from __future__ import annotations

from happysimulator.components.client import Client, ConnectionPool, PooledClient
from happysimulator.components.client.retry import DecorrelatedJitter, ExponentialBackoff, FixedRetry, NoRetry
from happysimulator.components.server import Server

from hsverif.scenarios import Scenario, scenario
from hsverif.scenarios._kit import (
    FRONT_STAGES,
    ConstantLatency,
    Entity,
    Event,
    ExponentialLatency,
    P,
    Proc,
    Recorder,
    Replier,
    ev,
    front_stage,
    make_sim,
)


class VarBackend(Entity):
    """Generator backend: the k-th request takes services[k % len] seconds (all positive)."""

    def __init__(self, name: str, services: list[float], downstream=None):
        super().__init__(name)
        self.services = [float(s) for s in services]
        self.downstream = downstream
        self.received = 0
        self.completed = 0

    def handle_event(self, event):
        k = self.received
        self.received += 1
        yield self.services[k % len(self.services)]
        self.completed += 1
        if self.downstream is not None:
            return [Event(time=self.now, event_type=f"{event.event_type}.done", target=self.downstream)]
        return None

    @property
    def stats(self):
        return {"received": self.received, "completed": self.completed}


def _every(p: P, v: float, n: int = 3000) -> float:
    """Period of a timer that re-arms itself forever (idle timers of a pool at
    min_connections): the hostile value, floored so a run stays ~< n ticks per connection."""
    return max(v, p.end() / n)


def _tail(arr: list[int], gap_s: float, k: int) -> list[int]:
    g = max(1, int(gap_s * 1e9))
    return [max(arr) + (j + 1) * g + j for j in range(k)]


def _policy(kind: str, p: P, base: float):
    """Every policy of retry.py, delays from the hostile latency list."""
    if kind == "none":
        return NoRetry()
    attempts = p.count(0, 3, hi=5)  # 1 = "retry policy that never retries"
    if kind == "fixed":
        return FixedRetry(max_attempts=attempts, delay=p.lat(2))
    if kind == "fixed_zero":
        return FixedRetry(max_attempts=attempts, delay=0.0)  # allowed by the constructor (delay >= 0)
    if kind == "exponential":
        d = p.lat(2)
        return ExponentialBackoff(max_attempts=attempts + 1, initial_delay=d, max_delay=d * 3, multiplier=2.0, jitter=p.lat(3))
    if kind == "decorrelated":
        d = p.lat(2)
        return DecorrelatedJitter(max_attempts=attempts + 1, base_delay=d, max_delay=d * 5)
    raise KeyError(kind)


# ----------------------------------------------------------------------
# Client x retry policy


def _client(seed, params, kind: str, target_kind: str = "var"):
    p = P(params, seed)
    to = p.lat(0)
    rec = Recorder("rec")
    outcomes = {"ok": 0, "fail": 0}
    if target_kind == "server":
        # slow bounded server: queueing delay grows past the timeout during the burst
        target = Server("srv", concurrency=p.cap(1), service_time=ConstantLatency(to * 0.75), queue_capacity=4, downstream=rec)
    elif target_kind == "server_exp":
        target = Server("srv", concurrency=p.cap(2), service_time=ExponentialLatency(to), queue_capacity=6, downstream=rec)
    else:
        target = VarBackend("be", [to * 3, to * 0.5, to * 1.5, to * 0.999, to * 6], downstream=rec)
    client = Client(
        "client",
        target=target,
        timeout=to,
        retry_policy=_policy(kind, p, to),
        on_success=lambda req, resp: outcomes.__setitem__("ok", outcomes["ok"] + 1),
        on_failure=lambda req, why: outcomes.__setitem__("fail", outcomes["fail"] + 1),
    )

    def caller(proc, event):
        # the public API: build the request with send_request() at the current time
        i = event.context["metadata"]["i"]
        proc.done += 1
        return [client.send_request(payload={"i": i}, event_type="request" if i % 4 else "Lookup")]

    api = Proc("caller", caller)
    arr = p.arrivals(8)
    sim = make_sim([client, target, rec, api], p.end())
    for i, t in enumerate(arr):
        if i % 2 == 0:
            sim.schedule(ev(t, "call", api, i=i))
        else:
            sim.schedule(ev(t, "request", client, request_id=10_000 + i, payload={"i": i}, attempt=1))
    return Scenario(sim, {"client": client, "target": target, "rec": rec}, "clients", True, len(arr), extras={"outcomes": outcomes})


def _mk_client(kind: str, target_kind: str, suffix: str, doc: str):
    @scenario(f"clients.client_{suffix}", "clients")
    def builder(seed, params):
        return _client(seed, params, kind, target_kind)

    builder.__doc__ = doc
    return builder


_mk_client("none", "var", "no_retry", "Timeout, NoRetry: responses before / exactly around / long after the timeout.")
_mk_client("fixed", "var", "fixed_retry", "FixedRetry: retries overlap with the late responses of earlier attempts.")
_mk_client("fixed_zero", "var", "fixed_retry_zero_delay", "FixedRetry(delay=0): the retry is issued at the timeout instant.")
_mk_client("exponential", "var", "exponential_backoff", "ExponentialBackoff with positive jitter.")
_mk_client("decorrelated", "var", "decorrelated_jitter", "DecorrelatedJitter (stateful delays).")
_mk_client("fixed", "server", "fixed_retry_slow_server", "FixedRetry against a slow bounded Server (retries pile into its queue).")
_mk_client("exponential", "server_exp", "backoff_exponential_server", "ExponentialBackoff against a Server with exponential service times.")


@scenario("clients.client_without_timeout", "clients")
def client_without_timeout(seed, params):
    """timeout=None (no timers at all) and timeout=0 (allowed: >= 0) side by side."""
    p = P(params, seed)
    be = VarBackend("be", [p.lat(0), p.lat(1)])
    c1 = Client("c.none", target=be, timeout=None)
    c2 = Client("c.zero", target=be, timeout=0.0, retry_policy=FixedRetry(max_attempts=2, delay=p.lat(2)))
    arr = p.arrivals(6)
    sim = make_sim([c1, c2, be], p.end())
    for i, t in enumerate(arr):
        sim.schedule(ev(t, "request", c1 if i % 2 else c2, request_id=i + 1, payload=i, attempt=1))
    return Scenario(sim, {"c.none": c1, "c.zero": c2, "be": be}, "clients", True, len(arr))


# ----------------------------------------------------------------------
# ConnectionPool


def _pool(p: P, target, *, min_conn: int, conn_timeout: float, idle: float, hooks: dict | None = None) -> ConnectionPool:
    cap = p.cap(2)
    hooks = hooks if hooks is not None else {}
    return ConnectionPool(
        "pool",
        target=target,
        min_connections=min(min_conn, cap),
        max_connections=cap,
        connection_timeout=conn_timeout,
        idle_timeout=idle,
        connection_latency=ConstantLatency(p.lat(0)),
        on_acquire=lambda c: hooks.__setitem__("acq", hooks.get("acq", 0) + 1),
        on_release=lambda c: hooks.__setitem__("rel", hooks.get("rel", 0) + 1),
        on_timeout=lambda: hooks.__setitem__("to", hooks.get("to", 0) + 1),
    )


def _pool_workers(seed, params, *, conn_timeout_x: float, idle_i: int, warm: bool, close: bool):
    p = P(params, seed)
    hold = p.hold()
    cap = p.cap(2)
    L = p.lat(0)  # connection latency
    hooks: dict = {}
    be = Recorder("target")
    arr = p.arrivals(7)
    t0 = min(arr)
    span_s = (max(arr) - t0) / 1e9
    fill_hold = L + span_s + hold  # the first `cap` workers fill the pool and outlive the burst
    idle = _every(p, p.lat(idle_i)) if warm else p.lat(idle_i)
    pool = _pool(p, be, min_conn=1 if warm else 0, conn_timeout=fill_hold * conn_timeout_x, idle=idle, hooks=hooks)

    def body(proc, event):
        i = event.context["metadata"]["worker"]
        try:
            conn = yield from pool.acquire()
        except TimeoutError:
            proc.log.append("timeout")
            proc.done += 1
            return None
        yield fill_hold if i < cap else hold * (1 + (i % 3))
        evs = pool.release(conn)  # returns the idle-timeout timer (if the connection went idle)
        if i % 5 == 0:
            evs = evs + pool.release(conn)  # double release: documented as ignored
        proc.done += 1
        return evs

    def closer(proc, event):
        pool.close_all()
        proc.done += 1

    # workers 0..cap-1 start at t0 and create the connections (takes L); everybody else
    # arrives (shifted by L + 1 ns) when the pool is full and has to wait for a release
    shift = int(L * 1e9) + 1
    starts = [t0] * cap + [t + shift for t in arr]
    late = _tail(starts, fill_hold + hold * 3 + idle * 1.5, 3)  # after idle connections expired
    starts = starts + late
    procs = [Proc(f"w{i}", body) for i in range(len(starts))]
    cl = Proc("closer", closer)
    sim = make_sim([pool, be, cl, *procs], p.end())
    if warm:
        sim.schedule(pool.warmup())
    for i, t in enumerate(starts):
        sim.schedule(ev(t, "start", procs[i], worker=i))
    n = len(starts)
    if close:
        sim.schedule(ev(t0 + shift + int(fill_hold * 1e9 * 0.5) + 1, "close", cl))
        n += 1
    return Scenario(sim, {"pool": pool, **{q.name: q for q in procs}}, "clients", True, n, extras={"hooks": hooks})


@scenario("clients.pool_acquire_contention", "clients")
def pool_acquire_contention(seed, params):
    """Burst > max_connections; holders keep the connection for a positive time, waiters poll;
    connection_timeout long enough for most; idle connections expire between bursts."""
    return _pool_workers(seed, params, conn_timeout_x=8.0, idle_i=1, warm=False, close=False)


@scenario("clients.pool_acquire_timeouts", "clients")
def pool_acquire_timeouts(seed, params):
    """connection_timeout shorter than the hold time: waiters give up (TimeoutError) while a
    release may hand them a connection at the same moment; warmup with min_connections > 0."""
    return _pool_workers(seed, params, conn_timeout_x=0.6, idle_i=2, warm=True, close=False)


@scenario("clients.pool_warmup_idle_close", "clients")
def pool_warmup_idle_close(seed, params):
    """Warmup, tiny idle_timeout (timers re-armed at min_connections), close_all() while
    workers still hold connections / wait."""
    return _pool_workers(seed, params, conn_timeout_x=3.0, idle_i=3, warm=True, close=True)


@scenario("clients.pool_idle_rearm_at_min_connections", "clients")
def pool_idle_rearm_at_min_connections(seed, params):
    """min_connections > 0 with the *raw* hostile idle_timeout: at min_connections the idle
    timer re-arms itself instead of closing the connection.  To keep the run small the
    workers come as one burst (no idle gaps) and the pool is closed (close_all) about 1500
    idle periods (at least 1 us) after the last worker released its connection."""
    p = P(params, seed)
    hold = p.hold()
    idle = p.lat(3)
    be = Recorder("target")
    n = p.n(5)
    pool = _pool(p, be, min_conn=1, conn_timeout=hold * (n + 2), idle=idle)
    finished = [0]

    def closer(proc, event):
        pool.close_all()
        proc.done += 1

    cl = Proc("closer", closer)

    def body(proc, event):
        try:
            conn = yield from pool.acquire()
        except TimeoutError:
            conn = None
        evs = []
        if conn is not None:
            yield hold
            evs = pool.release(conn)
        proc.done += 1
        finished[0] += 1
        if finished[0] == n:
            evs = evs + [Event(time=proc.now + max(1500 * idle, 1e-6), event_type="close", target=cl)]
        return evs

    t0 = min(p.arrivals(5))
    procs = [Proc(f"w{i}", body) for i in range(n)]
    sim = make_sim([pool, be, cl, *procs], p.end())
    for i in range(n):
        sim.schedule(ev(t0 + i, "start", procs[i], worker=i))
    return Scenario(sim, {"pool": pool}, "clients", True, n)


# ----------------------------------------------------------------------
# PooledClient


def _pooled(seed, params, kind: str, *, idle_x: float, timeout_x: float, conn_timeout_x: float, server: bool, min_conn: int = 1):
    p = P(params, seed)
    svc = p.lat(1)
    rec = Recorder("rec")
    outcomes = {"ok": 0, "fail": 0}
    cap = p.cap(2)
    L = p.lat(0)  # connection latency
    arr = p.arrivals(8)
    t0 = min(arr)
    span_s = (max(arr) - t0) / 1e9
    if server:
        target = Server("srv", concurrency=cap, service_time=ConstantLatency(svc), queue_capacity=5, downstream=rec)
    else:
        # the first `cap` requests are long: they pin every connection while the burst arrives
        target = VarBackend("be", [L + span_s + svc * 2] * cap + [svc * 2, svc * 0.5, svc * 4], downstream=rec)
    idle = p.lat(2) * idle_x
    if min_conn > 0:
        idle = _every(p, idle)  # idle timers re-arm forever at min_connections
    pool = _pool(p, target, min_conn=min_conn, conn_timeout=svc * conn_timeout_x, idle=idle)
    pc = PooledClient(
        "pooled",
        connection_pool=pool,
        timeout=svc * timeout_x,
        retry_policy=_policy(kind, p, svc),
        on_success=lambda req, resp: outcomes.__setitem__("ok", outcomes["ok"] + 1),
        on_failure=lambda req, why: outcomes.__setitem__("fail", outcomes["fail"] + 1),
    )

    def caller(proc, event):
        proc.done += 1
        return [pc.send_request(payload=event.context["metadata"]["i"])]

    api = Proc("caller", caller)
    # `cap` requests at t0 create the connections (takes L); the burst arrives when the pool is full
    shift = int(L * 1e9) + 1
    arr = [t0] * cap + [t + shift for t in arr]
    arr = arr + _tail(arr, span_s + svc * 6 + idle, 2)
    sim = make_sim([pc, target, rec, api], p.end())  # PooledClient.set_clock injects the pool's clock
    if min_conn > 0:
        sim.schedule(pool.warmup())
    for i, t in enumerate(arr):
        if i % 2 == 0:
            sim.schedule(ev(t, "call", api, i=i))
        else:
            sim.schedule(ev(t, "request", pc, request_id=10_000 + i, payload=i, attempt=1))
    return Scenario(sim, {"pooled": pc, "pool": pool, "target": target, "rec": rec}, "clients", True, len(arr), extras={"outcomes": outcomes})


@scenario("clients.pooled_client_fixed_retry", "clients")
def pooled_client_fixed_retry(seed, params):
    """Pool smaller than the burst, request timeout below some responses, FixedRetry; the
    timed-out request releases its connection and retries after a positive delay."""
    return _pooled(seed, params, "fixed", idle_x=4.0, timeout_x=1.5, conn_timeout_x=6.0, server=False)


@scenario("clients.pooled_client_short_idle_timeout", "clients")
def pooled_client_short_idle_timeout(seed, params):
    """idle_timeout far below the retry delay: the connection released at the request timeout
    goes idle and its idle timer is due before the retry delay has elapsed."""
    return _pooled(seed, params, "exponential", idle_x=0.05, timeout_x=1.0, conn_timeout_x=6.0, server=False, min_conn=0)


@scenario("clients.pooled_client_connection_wait_timeouts", "clients")
def pooled_client_connection_wait_timeouts(seed, params):
    """connection_timeout below the service time: requests fail waiting for a connection
    (or get one in the very poll in which they would have given up); NoRetry."""
    return _pooled(seed, params, "none", idle_x=1.0, timeout_x=3.0, conn_timeout_x=0.4, server=False)


@scenario("clients.pooled_client_decorrelated", "clients")
def pooled_client_decorrelated(seed, params):
    """DecorrelatedJitter retries through a pool in front of a Server."""
    return _pooled(seed, params, "decorrelated", idle_x=2.0, timeout_x=0.75, conn_timeout_x=5.0, server=True)


# ----------------------------------------------------------------------
# composition: clients BEHIND a delaying / queueing stage, in front of different targets
#
#   x.v % 5         front stage (server_queue / conveyor / rate_limited / inductor / link)
#   (x.v // 5) % 3  target: zero-latency Replier / Replier 3x slower than the timeout / Server
#   (x.v // 15) % 2 timeout = 0.5 x or 3 x the front stage latency


def _variant(p: P, seed: int):
    v = int(p.x("v", seed * 7 + 3))
    return FRONT_STAGES[v % 5], (v // 5) % 3, (0.5 if (v // 15) % 2 == 0 else 3.0), v


def _make_target(kind: int, p: P, timer: float, rec, name: str = "target"):
    if kind == 0:
        return Replier(name, 0.0, downstream=rec)
    if kind == 1:
        return Replier(name, timer * 3, downstream=rec)
    return Server(name, concurrency=p.cap(2), service_time=ConstantLatency(p.lat(1)), queue_capacity=8, downstream=rec)


def _composed_client(seed, params, kind: str, pooled: bool):
    p = P(params, seed)
    fk, tk, scale, v = _variant(p, seed)
    timeout = p.lat(0) * scale
    rec = Recorder("rec")
    target = _make_target(tk, p, timeout, rec)
    outcomes = {"ok": 0, "fail": 0}
    kw = dict(
        timeout=timeout,
        retry_policy=_policy(kind, p, timeout),
        on_success=lambda req, resp: outcomes.__setitem__("ok", outcomes["ok"] + 1),
        on_failure=lambda req, why: outcomes.__setitem__("fail", outcomes["fail"] + 1),
    )
    comps: dict = {}
    if pooled:
        pool = _pool(p, target, min_conn=0, conn_timeout=max(timeout, p.lat(1)) * 4, idle=p.lat(3))
        client = PooledClient("client", connection_pool=pool, **kw)
        comps["pool"] = pool
    else:
        client = Client("client", target=target, **kw)
    entry, fents = front_stage(fk, p, client, 0)
    arr = p.arrivals(8)
    sim = make_sim([client, target, rec, *fents], p.end())
    for i, t in enumerate(arr):
        # request events are what send_request() builds; they travel through the front stage
        sim.schedule(ev(t, "request" if i % 3 else "Lookup", entry, request_id=i + 1, payload={"i": i}, attempt=1, client_name="client"))
    sc = Scenario(sim, {"client": client, **comps, "target": target, "rec": rec}, "clients", True, len(arr), extras={"outcomes": outcomes})
    sc.notes = f"front={fk} target={('zero', 'slow', 'server')[tk]} timeout={scale}x policy={kind}"
    return sc


def _mk_composed(kind: str, suffix: str):
    @scenario(f"clients.composed_client_{suffix}", "clients")
    def builder(seed, params):
        return _composed_client(seed, params, kind, pooled=False)

    builder.__doc__ = f"Client ({kind} retry policy, attempts from counts) behind a front stage, target by x.v."
    return builder


for _k, _s in (("none", "no_retry"), ("fixed", "fixed"), ("fixed_zero", "fixed_zero_delay"), ("exponential", "exponential"), ("decorrelated", "decorrelated")):
    _mk_composed(_k, _s)


@scenario("clients.composed_pooled_client", "clients")
def composed_pooled_client(seed, params):
    """PooledClient + ConnectionPool behind a front stage; retry policy picked by x.v // 30."""
    p = P(params, seed)
    kinds = ["fixed", "none", "exponential", "decorrelated", "fixed_zero"]
    return _composed_client(seed, params, kinds[(int(p.x("v", seed * 7 + 3)) // 30) % len(kinds)], pooled=True)


# ----------------------------------------------------------------------
# degenerate configurations the constructors accept


@scenario("clients.degenerate_zero_latency_and_zero_timeouts", "clients")
def degenerate_zero_latency_and_zero_timeouts(seed, params):
    """Zero-latency target; Client / PooledClient with timeout 0 and with a positive timeout;
    retry policies with a single attempt (never retry) and with zero delay; a pool of exactly
    one connection with zero connection latency."""
    p = P(params, seed)
    rec = Recorder("rec")
    zero = Replier("zero", 0.0, downstream=rec)
    slow = Replier("slow", p.lat(0), downstream=rec)
    clients = [
        Client("c.zero_timeout", target=zero, timeout=0.0, retry_policy=FixedRetry(max_attempts=1, delay=0.0)),
        Client("c.zero_target", target=zero, timeout=p.lat(1), retry_policy=NoRetry()),
        Client("c.zero_delay", target=slow, timeout=p.lat(0) * 0.5, retry_policy=FixedRetry(max_attempts=p.count(0, 2, hi=5), delay=0.0)),
        Client("c.one_attempt", target=slow, timeout=p.lat(0) * 0.5, retry_policy=ExponentialBackoff(max_attempts=1, initial_delay=p.lat(2), max_delay=p.lat(2))),
        Client("c.jitter_one", target=slow, timeout=0.0, retry_policy=DecorrelatedJitter(max_attempts=1, base_delay=p.lat(2), max_delay=p.lat(2))),
    ]
    pool0 = ConnectionPool("pool.zero", target=zero, min_connections=1, max_connections=1, connection_timeout=p.lat(3), idle_timeout=_every(p, p.lat(2)), connection_latency=ConstantLatency(0.0))
    pool1 = ConnectionPool("pool.slow", target=slow, min_connections=0, max_connections=1, connection_timeout=p.lat(0) * 0.5, idle_timeout=p.lat(2), connection_latency=ConstantLatency(0.0))
    pooled = [
        PooledClient("pc.zero", connection_pool=pool0, timeout=0.0, retry_policy=FixedRetry(max_attempts=2, delay=0.0)),
        PooledClient("pc.slow", connection_pool=pool1, timeout=p.lat(0) * 2, retry_policy=NoRetry()),
    ]
    everyone = clients + pooled
    arr = p.arrivals(4)
    sim = make_sim([*everyone, zero, slow, rec], p.end())
    sim.schedule(pool0.warmup())
    for i, t in enumerate(arr):
        for c in everyone:  # every client sees the whole arrival pattern
            sim.schedule(ev(t, "request", c, request_id=i + 1, payload=i, attempt=1))
    return Scenario(sim, {c.name: c for c in everyone} | {"pool.zero": pool0, "pool.slow": pool1, "rec": rec}, "clients", True, len(arr) * len(everyone))


@scenario("clients.degenerate_pool_single_connection", "clients")
def degenerate_pool_single_connection(seed, params):
    """max_connections = min_connections = 1, zero hold time (acquire and release in the same
    instant), a release with nobody waiting, close_all() on an empty pool and acquire after it."""
    p = P(params, seed)
    be = Recorder("target")
    pool = ConnectionPool("pool", target=be, min_connections=1, max_connections=1, connection_timeout=p.lat(1), idle_timeout=_every(p, p.lat(2)), connection_latency=ConstantLatency(p.lat(0)))

    def body(proc, event):
        i = event.context["metadata"]["worker"]
        try:
            conn = yield from pool.acquire()
        except TimeoutError:
            proc.log.append("timeout")
            proc.done += 1
            return None
        if i % 2:
            yield p.hold()
        proc.done += 1
        return pool.release(conn)  # i even: released in the instant it was acquired

    def closer(proc, event):
        pool.close_all()
        pool.close_all()  # second call: nothing left
        proc.done += 1

    arr = p.arrivals(6)
    procs = [Proc(f"w{i}", body) for i in range(len(arr) + 2)]
    cl = Proc("closer", closer)
    sim = make_sim([pool, be, cl, *procs], p.end())
    sim.schedule(pool.warmup())
    for i, t in enumerate(arr):
        sim.schedule(ev(t, "start", procs[i], worker=i))
    t_close = max(arr) + int((p.lat(1) + p.hold()) * 2e9) + 1
    sim.schedule(ev(t_close, "close", cl))
    for j in range(2):  # acquire on a closed (empty) pool
        sim.schedule(ev(t_close + 1 + j, "start", procs[len(arr) + j], worker=len(arr) + j))
    return Scenario(sim, {"pool": pool}, "clients", True, len(arr) + 3)


# ----------------------------------------------------------------------
# zero / sub-nanosecond retry delays at instants that do not round-trip through float seconds


@scenario("clients.zero_delay_retry_nonroundtrip_timeouts", "clients")
def zero_delay_retry_nonroundtrip_timeouts(seed, params):
    """Every client-like component with a retry policy, retry delay 0 or below 1 ns, and requests sent so
    that the timeout fires at an instant that loses 1 ns in `Instant.from_seconds(t.to_seconds())`
    (`p.arrivals_before(timeout)`): a retry stamped through float seconds is 1 ns in the past there.
    The targets answer long after the timeout, so every attempt times out and is retried."""
    from happysimulator.components.microservice import Sidecar

    p = P(params, seed)
    to = p.lat(0)
    k = p.count(0, 3, lo=2, hi=4)
    slow = Replier("slow", to * 5)
    tiny = 1e-10  # positive, below the clock resolution: accepted where delay must be > 0
    policies = {
        "fixed0": FixedRetry(max_attempts=k, delay=0.0),
        "fixed_tiny": FixedRetry(max_attempts=k, delay=tiny),
        "expo_tiny": ExponentialBackoff(max_attempts=k, initial_delay=tiny, max_delay=tiny, multiplier=1.0, jitter=0.0),
        "decorr_tiny": DecorrelatedJitter(max_attempts=k, base_delay=tiny, max_delay=tiny),
    }
    clients = [Client(f"client_{n}", target=slow, timeout=to, retry_policy=pol) for n, pol in policies.items()]
    arr = p.arrivals_before(to, 6)
    pool = ConnectionPool(
        "pool", target=slow, min_connections=0, max_connections=max(4, 4 * len(arr)), connection_timeout=to * 50,
        idle_timeout=to * 100, connection_latency=ConstantLatency(0.0),
    )  # fmt: skip
    pooled = PooledClient("pooled", connection_pool=pool, timeout=to, retry_policy=FixedRetry(max_attempts=k, delay=0.0))
    sidecar = Sidecar(
        "sidecar", target=slow, request_timeout=to, max_retries=k, retry_base_delay=0.0,
        circuit_failure_threshold=10_000, circuit_timeout=to * 100,
    )  # fmt: skip

    def caller(proc, event):
        i = event.context["metadata"]["i"]
        proc.done += 1
        out = [c.send_request(payload={"i": i}) for c in clients]
        out.append(pooled.send_request(payload={"i": i}))
        return out

    api = Proc("caller", caller)
    sim = make_sim([*clients, pool, pooled, sidecar, slow, api], max(p.end(), (max(arr) / 1e9) + to * 40))
    for i, t in enumerate(arr):
        sim.schedule(ev(t, "call", api, i=i))
        sim.schedule(ev(t, "Request", sidecar, n=i))
        for c in clients:
            sim.schedule(ev(t, "request", c, request_id=20_000 + i, payload={"i": i}, attempt=1))
    comps = {c.name: c for c in clients}
    comps.update(pool=pool, pooled=pooled, sidecar=sidecar, slow=slow)
    return Scenario(sim, comps, "clients", True, len(arr) * (2 * len(clients) + 2))


# ----------------------------------------------------------------------
# zero set-up latency paired with pool exhaustion


@scenario("clients.zero_setup_latency_pool_exhaustion", "clients")
def zero_setup_latency_pool_exhaustion(seed, params):
    """ConnectionPool whose connections cost ZERO set-up time, fewer connections than concurrent users, holders
    keeping a connection for a positive time: waiters go through the polling / hand-over path with a zero set-up
    latency (generator API), and a PooledClient bursts into a one-connection zero-latency pool in front of a slow target."""
    p = P(params, seed)
    hold = p.hold()
    slow = Replier("slow", p.lat(0))
    pool = ConnectionPool(
        "pool", target=slow, min_connections=0, max_connections=p.cap(2), connection_timeout=hold * 40 + 1.0,
        idle_timeout=p.lat(1) * 50, connection_latency=ConstantLatency(0.0),
    )  # fmt: skip
    pool1 = ConnectionPool(
        "pool1", target=slow, min_connections=0, max_connections=1, connection_timeout=p.lat(0) * 60 + 1.0,
        idle_timeout=p.lat(1) * 50, connection_latency=ConstantLatency(0.0),
    )  # fmt: skip
    pooled = PooledClient("pooled", connection_pool=pool1, timeout=p.lat(0) * 30, retry_policy=NoRetry())

    def worker(proc, event):
        conn = yield from pool.acquire()
        yield hold
        out = pool.release(conn)
        proc.done += 1
        return out

    arr = p.arrivals(8)
    procs = [Proc(f"w{i}", worker) for i in range(len(arr))]

    def caller(proc, event):
        proc.done += 1
        return [pooled.send_request(payload={"i": event.context["metadata"]["i"]})]

    api = Proc("caller", caller)
    sim = make_sim([pool, pool1, pooled, slow, api, *procs], max(p.end(), max(arr) / 1e9 + (hold + p.lat(0)) * (len(arr) + 2) + 2.0))
    for i, t in enumerate(arr):
        sim.schedule(ev(t, "start", procs[i], worker=i))
        sim.schedule(ev(t, "call", api, i=i))
    return Scenario(sim, {"pool": pool, "pool1": pool1, "pooled": pooled, "slow": slow}, "clients", True, 2 * len(arr))

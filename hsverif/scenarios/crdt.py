"""crdt family: CRDTStore gossiping GCounter / PNCounter / LWWRegister / ORSet states.

Several stores over a `Network` (latency + jitter, optional loss, a partition
that heals), `gossip_interval > 0`.  Clients are harness `Proc`s started at the
arrival instants; bursts of writes hit the same key on different replicas at
the same nanosecond, reads race them, every client parks on its reply future.
"""

from __future__ import annotations

import itertools
import random

from happysimulator.components.crdt import CRDTStore, GCounter, LWWRegister, ORSet, PNCounter
from happysimulator.components.network import Network, NetworkLink
from happysimulator.core.logical_clocks import HLCTimestamp
from happysimulator.core.sim_future import SimFuture

from hsverif.scenarios import Scenario, scenario
from hsverif.scenarios._kit import ConstantLatency, Event, ExponentialLatency, P, Proc, ev, make_sim

KEYS = ["a", "b", "c"]


def _period(v: float, floor: float) -> float:
    """Bring a hostile latency into [floor, 2*floor): powers of ten up, then halvings.

    Periodic timers keep an awkward (non-representable) value but a run has a bounded
    number of ticks whatever the drawn latency and `end` are.
    """
    while v < floor:
        v *= 10.0
    while v / 2.0 >= floor:
        v /= 2.0
    return v


def _below(v: float, ceil: float) -> float:
    """Divide by ten until <= ceil (never below one nanosecond)."""
    while v > ceil:
        v /= 10.0
    return max(v, 1e-9)


def _mesh(net, nodes, p, k0=0, loss=0.0, bw=5_000_011.0, lat_fn=None, jitter=True):
    k = k0
    lat_fn = lat_fn or (lambda j: p.lat(j))
    for i, a in enumerate(nodes):
        for b in nodes[i + 1 :]:
            net.add_bidirectional_link(
                a,
                b,
                NetworkLink(
                    name=f"l_{a.name}_{b.name}",
                    latency=ConstantLatency(lat_fn(k)),
                    jitter=ExponentialLatency(lat_fn(k + 1)) if jitter else None,
                    bandwidth_bps=bw,
                    packet_loss_rate=loss,
                ),
            )
            k += 1


def _stamped_lww_factory():
    """LWWRegister whose `set(value)` stamps itself (CRDTStore calls `set(value)` with one argument).

    Subclass of the public CRDT type, defined in harness code; the stamp is a
    deterministic per-scenario counter (an HLC without wall clock).
    """
    counter = itertools.count(1)

    class StampedLWW(LWWRegister):
        __slots__ = ()

        def set(self, value, timestamp=None):
            if timestamp is None:
                timestamp = HLCTimestamp(next(counter), 0, self.node_id)
            super().set(value, timestamp)

    return lambda node_id: StampedLWW(node_id)


def _client(name, plan):
    """`plan(i) -> (store, 'Write'|'Read', key, operation, value)`."""

    def body(proc, event):
        i = event.context["metadata"]["worker"]
        store, op, key, operation, value = plan(i)
        fut = SimFuture()
        md = {"key": key, "reply_future": fut}
        if op == "Write":
            md["operation"] = operation
            md["value"] = value
        yield 0.0, [Event(time=proc.now, event_type=op, target=store, context={"metadata": md})]
        r = yield fut
        proc.log.append((i, op, key, operation, str((r or {}).get("value"))[:40]))
        proc.done += 1

    return Proc(name, body)


def _ops_for(kind: str):
    if kind == "g":
        # value None => the operation is called without argument; "reset" is not a GCounter operation
        return lambda rng, i: ("increment", (1 + i % 3) if i % 4 else None) if i % 11 != 10 else ("reset", 1)
    if kind == "pn":
        return lambda rng, i: (("increment", 1 + i % 4) if i % 3 else ("decrement", 2 if i % 2 else None))
    if kind == "lww":
        return lambda rng, i: ("set", f"v{i}")
    if kind == "or":
        # i % 7 == 6: remove of an element nobody ever added
        return lambda rng, i: (
            ("remove", "absent") if i % 7 == 6 else (("add", f"e{i % 4}") if i % 4 != 3 else ("remove", f"e{(i - 1) % 4}"))
        )
    raise KeyError(kind)


def _factory_for(kind: str):
    return {
        "g": lambda: (lambda node_id: GCounter(node_id)),
        "pn": lambda: (lambda node_id: PNCounter(node_id)),
        "lww": _stamped_lww_factory,
        "or": lambda: (lambda node_id: ORSet(node_id)),
    }[kind]()


def _crdt(kind: str, n_default: int, default_loss: float, with_partition: bool, proportion=None, writes=True):
    """Stores = count(0) (1..12; a partition needs 2).  proportion 'gossip_fast': gossip interval <<
    link latency (many pushes in flight); 'gossip_slow': interval >> link latency.  writes=False: the
    clients only read (read before any write, merges of empty states, zero commands)."""

    def build(seed, params):
        p = P(params, seed)
        rng = random.Random(seed)
        end = p.end()
        n = p.count(0, n_default, lo=2 if (with_partition or not writes) else 1, hi=5 if proportion == "gossip_fast" else 12)
        net = Network(name="net")
        factory = _factory_for(kind)
        link_lat = None
        if proportion == "gossip_fast":
            gi = [_period(p.lat(i), end / 400.0) for i in range(n)]
            link_lat = lambda k: _period(p.lat(k), end / 10.0)
        elif proportion == "gossip_slow":
            gi = [_period(p.lat(i), end / 6.0) for i in range(n)]
            link_lat = lambda k: _below(p.lat(k), end / 6.0 / 2000.0)
        else:
            # x.raw_intervals: use the drawn latencies unscaled
            gi = [p.lat(i) if p.x("raw_intervals", False) else _period(p.lat(i), end / 120.0) for i in range(n)]
        stores = [CRDTStore(f"s{i}", network=net, crdt_factory=factory, gossip_interval=gi[i]) for i in range(n)]
        for s in stores:
            s.add_peers([o for o in stores if o is not s])
        if kind == "lww":
            # every replica owns a (stamping) register for every key before gossip can hand it a plain one
            for s in stores:
                for k in KEYS:
                    s.get_or_create(k)
        _mesh(net, stores, p, k0=n, loss=float(p.x("loss", default_loss)), lat_fn=link_lat)
        ops = _ops_for(kind)
        arr = p.arrivals(12)

        def plan(i):
            key = KEYS[0] if rng.random() < 0.7 else KEYS[1 + i % 2]
            store = stores[i % n]
            if i % 9 == 8:
                return (store, "Read", "never_written", None, None)
            if i % 5 == 4 or not writes:
                return (store, "Read", key, None, None)
            operation, value = ops(rng, i)
            return (store, "Write", key, operation, value)

        clients = [_client(f"cli{i}", plan) for i in range(3)]

        def late_start(proc, event):
            e = stores[-1].get_gossip_event()  # positive time: the tick is stamped `now`
            proc.done += 1
            return [e] if e is not None else None

        starter = Proc("gossip_starter", late_start)
        ents = [net, *stores, *clients, starter]
        comps = {s.name: s for s in stores}
        comps["net"] = net
        if with_partition:

            def cut(proc, event):
                yield p.lat(0) * 0.5
                part = net.partition([stores[0]], stores[1:])
                yield max(gi) * 2.5
                part.heal()
                proc.done += 1
                # writes right after the heal
                return [ev(proc.now.nanoseconds, "start", clients[j % 3], worker=j) for j in range(n)]

            pp = Proc("partitioner", cut)
            ents.append(pp)
            comps["partitioner"] = pp
        sim = make_sim(ents, end)
        for s in stores[:-1]:
            e = s.get_gossip_event()  # t=0: first tick one interval later
            if e is not None:
                sim.schedule(e)
        sim.schedule(ev(min(arr), "start", starter))
        for i, t in enumerate(arr):
            sim.schedule(ev(t, "start", clients[i % 3], worker=i))
        # a late read of the contended key (also moves the clock of a single-store cluster)
        sim.schedule(ev(max(arr) + int(p.lat(0) * 1e9) + 1, "start", clients[0], worker=4))
        if with_partition:
            sim.schedule(ev(min(arr), "start", pp))
            t_mid = min(arr) + int((p.lat(0) * 0.5 + max(gi)) * 1e9)
            for j in range(n):
                sim.schedule(ev(t_mid, "start", clients[j % 3], worker=j))
        return Scenario(sim, comps, "crdt", True, len(arr) + 2 + (2 * n if with_partition else 0))

    return build


scenario("crdt.gcounter_gossip", "crdt")(_crdt("g", 3, 0.0, False))
scenario("crdt.gcounter_lossy_partition", "crdt")(_crdt("g", 4, 0.1, True))
scenario("crdt.pncounter_gossip", "crdt")(_crdt("pn", 3, 0.05, False))
scenario("crdt.pncounter_partition", "crdt")(_crdt("pn", 3, 0.0, True))
scenario("crdt.lww_stamped_gossip", "crdt")(_crdt("lww", 3, 0.05, False))
scenario("crdt.lww_stamped_partition", "crdt")(_crdt("lww", 4, 0.0, True))
scenario("crdt.orset_gossip", "crdt")(_crdt("or", 3, 0.05, False))
scenario("crdt.orset_partition", "crdt")(_crdt("or", 5, 0.02, True))
# wide: many stores, gossip interval out of proportion with the links, no writes at all
scenario("crdt.gcounter_many_stores", "crdt")(_crdt("g", 10, 0.0, False))
scenario("crdt.orset_many_stores_lossy", "crdt")(_crdt("or", 12, 0.05, False))
scenario("crdt.pncounter_gossip_faster_than_links", "crdt")(_crdt("pn", 3, 0.0, False, proportion="gossip_fast"))
scenario("crdt.orset_gossip_slower_than_links", "crdt")(_crdt("or", 3, 0.02, False, proportion="gossip_slow"))
scenario("crdt.lww_reads_only_empty_state", "crdt")(_crdt("lww", 3, 0.0, False, writes=False))
scenario("crdt.orset_reads_only_empty_state", "crdt")(_crdt("or", 2, 0.0, True, writes=False))


@scenario("crdt.mixed_types_two_stores", "crdt")
def mixed_types(seed, params):
    """Two stores whose factory depends on nothing but the node: each KEY family holds a different
    CRDT type, so gossip reconstructs unknown keys of every type (`_reconstruct_crdt`)."""
    p = P(params, seed)
    end = p.end()
    net = Network(name="net")
    # store A creates counters, store B creates sets; keys are disjoint so no cross-type merge happens
    a = CRDTStore("sa", network=net, crdt_factory=lambda nid: PNCounter(nid), gossip_interval=_period(p.lat(0), end / 100.0))
    b = CRDTStore("sb", network=net, crdt_factory=lambda nid: ORSet(nid), gossip_interval=_period(p.lat(1), end / 100.0))
    c = CRDTStore("sc", network=net, crdt_factory=lambda nid: GCounter(nid), gossip_interval=_period(p.lat(2), end / 100.0))
    stores = [a, b, c]
    for s in stores:
        s.add_peers([o for o in stores if o is not s])
    _mesh(net, stores, p, k0=3, loss=float(p.x("loss", 0.02)))
    arr = p.arrivals(9)

    def plan(i):
        s = stores[i % 3]
        if s is a:
            return (a, "Write", "cnt", "decrement" if i % 2 else "increment", 1 + i % 3)
        if s is b:
            return (b, "Write", "set", "add", f"x{i % 3}")
        return (c, "Write", "g", "increment", 2)

    clients = [_client(f"cli{i}", plan) for i in range(3)]
    sim = make_sim([net, *stores, *clients], end)
    for s in stores:
        sim.schedule(s.get_gossip_event())
    for i, t in enumerate(arr):
        sim.schedule(ev(t, "start", clients[i % 3], worker=i))
    # reads of keys learnt only through gossip, late
    t_late = max(arr) + int(3 * max(s._gossip_interval for s in stores) * 1e9)
    for j, (s, k) in enumerate([(a, "set"), (b, "g"), (c, "cnt")]):
        sim.schedule(ev(t_late, "Read", s, key=k))
    return Scenario(sim, {s.name: s for s in stores}, "crdt", True, len(arr) + 3)


@scenario("crdt.lww_default_factory_set", "crdt")
def lww_default_factory(seed, params):
    """CRDTStore with every default (LWWRegister factory, operation 'set'): the plain `Write` of the API."""
    p = P(params, seed)
    end = p.end()
    net = Network(name="net")
    stores = [CRDTStore(f"s{i}", network=net, gossip_interval=_period(p.lat(i), end / 100.0)) for i in range(2)]
    stores[0].add_peers([stores[1]])
    stores[1].add_peers([stores[0]])
    _mesh(net, stores, p, k0=2)
    arr = p.arrivals(4)
    plan = lambda i: (stores[i % 2], "Write", "k", "set", f"v{i}")
    clients = [_client(f"cli{i}", plan) for i in range(2)]
    sim = make_sim([net, *stores, *clients], end)
    for s in stores:
        sim.schedule(s.get_gossip_event())
    # the writes come after a few gossip rounds (the first plain `set` write raises TypeError in
    # CRDTStore._apply_operation: LWWRegister.set() needs a timestamp the store never passes)
    shift = int(3.5 * max(s._gossip_interval for s in stores) * 1e9)
    for i, t in enumerate(arr):
        sim.schedule(ev(t + shift, "start", clients[i % 2], worker=i))
    sc = Scenario(sim, {s.name: s for s in stores}, "crdt", True, len(arr))
    sc.notes = "expected library exception: TypeError LWWRegister.set() missing 'timestamp' (crdt_store.py:352)"
    return sc


@scenario("crdt.gossip_one_ns_interval", "crdt")
def gossip_one_ns(seed, params):
    """gossip_interval of exactly one nanosecond (x.tick) over a 3 microsecond horizon.

    A correct periodic timer makes ~3000 ticks and stops at the horizon; the horizon (not
    `p.end()`) bounds the work so that the smallest representable interval can be used unscaled.
    """
    p = P(params, seed)
    tick = float(p.x("tick", 1e-9))
    net = Network(name="net")
    a = CRDTStore("sa", network=net, crdt_factory=lambda nid: GCounter(nid), gossip_interval=tick)
    b = CRDTStore("sb", network=net, crdt_factory=lambda nid: GCounter(nid), gossip_interval=_period(p.lat(0), 2e-7))
    a.add_peers([b])
    b.add_peers([a])
    _mesh(net, [a, b], p, k0=1)
    arr = p.arrivals(4)
    t0 = min(arr)
    horizon_ns = t0 + 3_000

    def start(proc, event):
        proc.done += 1
        return [e for e in (a.get_gossip_event(), b.get_gossip_event()) if e is not None]

    starter = Proc("gossip_starter", start)
    plan = lambda i: ((a, b)[i % 2], "Write", "a", "increment", 1)
    clients = [_client(f"cli{i}", plan) for i in range(2)]
    sim = make_sim([net, a, b, starter, *clients], (horizon_ns + 1) / 1e9)
    sim.schedule(ev(t0, "start", starter))
    for i, t in enumerate(arr):
        sim.schedule(ev(t, "start", clients[i % 2], worker=i))
    return Scenario(sim, {"sa": a, "sb": b}, "crdt", True, len(arr) + 1)

"""Harness toolkit for scenario builders (everything here is *harness* code).

Nothing in this module lives under `happysimulator.`, so events emitted by
these entities are never attributed to the library by the C07 monitors.
"""

from __future__ import annotations

import dataclasses
import enum
import random
from typing import Any, Callable

from hsverif.core import ensure_repo_on_path

ensure_repo_on_path()

from happysimulator.core.entity import Entity  # noqa: E402
from happysimulator.core.event import Event  # noqa: E402
from happysimulator.core.simulation import Simulation  # noqa: E402
from happysimulator.core.temporal import Duration, Instant  # noqa: E402
from happysimulator.distributions.constant import ConstantLatency  # noqa: E402
from happysimulator.distributions.exponential import ExponentialLatency  # noqa: E402

__all__ = [
    "P",
    "Proc",
    "Recorder",
    "Replier",
    "front_stage",
    "FRONT_STAGES",
    "roundtrips",
    "nrt_ns",
    "ConstantLatency",
    "ExponentialLatency",
    "Duration",
    "Entity",
    "Event",
    "Instant",
    "Simulation",
    "ev",
    "at",
    "make_sim",
    "seed_all",
    "hostile_params",
    "public_state",
]

# positive, awkward latencies: not representable exactly, sub-microsecond, thirds
HOSTILE_LATS = [0.001, 0.0123456789, 1e-6, 0.000333333, 0.05, 0.1, 0.007, 1e-9, 0.25, 0.0021, 0.0003, 0.3, 0.29, 2.01, 0.03, 0.015]
# structural counts (subscribers, backends, replicas, shards, workers, steps ...)
HOSTILE_COUNTS = [1, 2, 3, 5, 9, 10, 11, 12]
DEFAULT_LATS = [0.0123456789, 0.003, 0.000333333, 0.05, 0.007, 0.0021, 0.001, 0.02]


def roundtrips(ns: int) -> bool:
    """True when the instant survives ns -> float seconds -> Instant.from_seconds() (which truncates)."""
    return int(int(ns) / 1e9 * 1e9) >= int(ns)


def nrt_ns(start_ns: int, plus_ns: int = 0) -> int:
    """Smallest n >= start_ns such that the instant n + plus_ns does NOT round-trip through float seconds.

    About 1.7 % of all nanosecond instants lose one nanosecond in `Instant.from_seconds(t.to_seconds())`
    (1.001 s -> 1 000 999 999 ns); code that stamps `from_seconds(now.to_seconds() + delay)` is 1 ns in
    the past there when the delay is zero or below 1 ns.  Scenarios use this to put arrivals (plus_ns=0)
    or the instants an arrival leads to (plus_ns = a timeout in ns) on such instants deliberately."""
    # Such instants are clustered: they only occur in the bands [2^j s, 2^j * 1.0737 s) (1.0737 = 2^30 / 1e9),
    # j any integer (1.0-1.07 s, 2.0-2.15 s, 0.5-0.537 s, 0.125-0.134 s ...), with a density of about 23 %
    # there and not at all in between: go to the current band, or to the start of the next one.
    import math

    t = max(16, int(start_ns) + int(plus_ns))
    j = math.floor(math.log2(t / 1e9))
    for _ in range(80):
        lo = math.ceil((2.0**j) * 1e9)
        hi = int((2.0**j) * 1073741824.0)
        m = max(t, lo)
        while m < hi:
            if not roundtrips(m):
                return max(int(start_ns), m - int(plus_ns))
            m += 1
            if m - max(t, lo) > 5000:
                break
        j += 1
    return int(start_ns)


def seed_all(seed: int) -> None:
    """Seed the global RNGs a user of the library would seed."""
    random.seed(seed)
    try:
        import numpy as np

        np.random.seed(seed % (2**32))
    except Exception:  # noqa: BLE001
        pass


class P:
    """Accessor for the common JSON parameter vocabulary of scenario builders.

    arrivals_ns  explicit arrival instants in ns (several on one ns = burst)
    lats         list of positive latencies (s); `lat(i)` hands them out cyclically so
                 every latency knob of a component gets a non-zero (and different) value
    counts       list of structural counts; `count(i, default)` (subscribers, backends, shards ...)
    cap          capacity / concurrency / pool size (smaller than the burst = contention)
    hold         positive time a holder keeps a lock / resource / connection (s)
    end          end_time of the simulation (s)
    x            builder specific extras
    """

    def __init__(self, params: dict | None, seed: int = 0):
        self.d = dict(params or {})
        self.seed = seed

    def arrivals(self, default_n: int = 8, start_ns: int = 1_000_003, spread_ns: int = 0) -> list[int]:
        a = self.d.get("arrivals_ns")
        if a:
            return [int(x) for x in a]
        # default: a burst on one nanosecond followed by a few stragglers
        out = [start_ns] * default_n
        rng = random.Random(self.seed * 7919 + default_n)
        t = start_ns
        for _ in range(max(2, default_n // 3)):
            t += rng.choice([0, 1, 999, 1_234_567, 10_000_019]) + spread_ns
            out.append(t)
        return out

    def arrivals_before(self, delay_s: float, default_n: int = 8) -> list[int]:
        """The arrivals, each moved forward (by < 1 us typically) so that `arrival + delay_s` - e.g. the
        instant a timeout armed at the arrival fires - does not round-trip through float seconds."""
        plus = int(float(delay_s) * 1e9)
        return [nrt_ns(a, plus) for a in self.arrivals(default_n)]

    def n(self, default: int = 8) -> int:
        a = self.d.get("arrivals_ns")
        return len(a) if a else default

    def lat(self, i: int = 0) -> float:
        lats = self.d.get("lats") or DEFAULT_LATS
        v = float(lats[i % len(lats)])
        return v if v >= 1e-9 else 1e-9  # never below one nanosecond (would truncate to zero)

    def cap(self, default: int = 2) -> int:
        return max(1, int(self.d.get("cap", default)))

    def count(self, i: int = 0, default: int = 3, lo: int = 1, hi: int = 12) -> int:
        """i-th structural count (number of subscribers / backends / replicas / shards / steps ...).

        Taken cyclically from params["counts"] (drawn from {1, 2, 3, 5, 9, 10, 11, 12}); `default`
        when the case gives none; clamped to [lo, hi] for components that need a minimum (a quorum).
        """
        cs = self.d.get("counts")
        v = int(cs[i % len(cs)]) if cs else int(default)
        return max(lo, min(hi, v))

    def hold(self, default: float = 0.0100001) -> float:
        v = float(self.d.get("hold", default))
        return v if v > 0 else default

    def end(self, default: float = 30.0) -> float:
        return float(self.d.get("end", default))

    def x(self, key: str, default=None):
        return (self.d.get("x") or {}).get(key, default)


def hostile_params(rng: random.Random, tier: str = "quick") -> dict:
    """Generate the common hostile parameters (all JSON)."""
    n = rng.choice([2, 3, 5, 8, 13, 21, 34] if tier == "quick" else [2, 3, 5, 8, 13, 21, 34, 55, 89])
    base = rng.choice([0, 1, 1_000_003, 123_456_789, 999_999_999, 1_000_000_000, 2_500_000_001])
    shape = rng.choice(["burst", "burst", "two-bursts", "pairs", "spread", "burst+stragglers"])
    arr: list[int] = []
    if shape == "burst":
        arr = [base] * n
    elif shape == "two-bursts":
        gap = rng.choice([1, 999, 1_000_000, 10_000_019, 100_000_007])
        arr = [base] * (n // 2 + 1) + [base + gap] * (n - n // 2)
    elif shape == "pairs":
        t = base
        for i in range(n):
            if i % 2 == 0:
                t += rng.choice([1, 37, 1_000_001, 5_000_011])
            arr.append(t)
    elif shape == "spread":
        t = base
        for _ in range(n):
            t += rng.choice([0, 1, 3, 999, 123_457, 1_234_567, 12_345_679, 100_000_007])
            arr.append(t)
    else:
        arr = [base] * n
        t = base
        for _ in range(max(1, n // 3)):
            t += rng.choice([1, 999_983, 7_000_003, 50_000_021, 400_000_009])
            arr.append(t)
    k = rng.randrange(3, 7)
    lats = [max(1e-9, rng.choice(HOSTILE_LATS) * rng.choice([1, 1, 1, 3, 0.1])) for _ in range(k)]
    lats = [float(f"{v:.12g}") for v in lats]
    snap = rng.choice(["none", "arrival", "arrival", "arrival+lat0"])
    if snap == "arrival":
        # every arrival on an instant that does not survive the float-seconds round trip (see nrt_ns)
        arr = [nrt_ns(a) for a in arr]
    elif snap == "arrival+lat0":
        # ... or such that the instant one lats[0] later (a timeout / latency armed at the arrival) is one
        plus = int(lats[0] * 1e9)
        if plus < 2_000_000_000:
            arr = [nrt_ns(a, plus) for a in arr]
    return {
        "arrivals_ns": arr,
        "lats": lats,
        "counts": [rng.choice(HOSTILE_COUNTS) for _ in range(3)],
        "cap": rng.choice([1, 1, 2, 2, 3, 5]),
        "hold": float(f"{rng.choice(HOSTILE_LATS) * rng.choice([1, 2, 10]):.12g}"),
        "end": max(rng.choice([5.0, 10.0, 30.0, 60.0]), float(int(max(arr) / 1e9 * 2) + 2)),
        "x": {"v": rng.randrange(0, 1000)},
    }


# ----------------------------------------------------------------------
# events / simulation


def at(ns: int) -> Instant:
    return Instant(int(ns))


def ev(t_ns: int, event_type: str, target, daemon: bool = False, context: dict | None = None, **metadata) -> Event:
    ctx = dict(context) if context else {}
    md = dict(ctx.get("metadata") or {})
    md.update(metadata)
    ctx["metadata"] = md
    ctx.setdefault("created_at", Instant(int(t_ns)))
    return Event(time=Instant(int(t_ns)), event_type=event_type, target=target, daemon=daemon, context=ctx)


def make_sim(entities: list, end_s: float, sources: list | None = None, probes: list | None = None, **kw) -> Simulation:
    return Simulation(
        entities=list(entities), sources=sources or [], probes=probes or [], end_time=Instant.from_seconds(float(end_s)), **kw
    )


# ----------------------------------------------------------------------
# harness entities


class Recorder(Entity):
    """Terminal sink: counts what it receives (by event type)."""

    def __init__(self, name: str = "rec"):
        super().__init__(name)
        self.received = 0
        self.by_type: dict[str, int] = {}
        self.times_ns: list[int] = []

    def handle_event(self, event):
        self.received += 1
        self.by_type[event.event_type] = self.by_type.get(event.event_type, 0) + 1
        if len(self.times_ns) < 2000:
            self.times_ns.append(event.time.nanoseconds)
        return None

    @property
    def stats(self):
        return {"received": self.received, "by_type": dict(sorted(self.by_type.items()))}


class Proc(Entity):
    """Harness entity whose reaction is `fn(self, event)` (may be a generator)."""

    def __init__(self, name: str, fn: Callable[["Proc", Event], Any]):
        super().__init__(name)
        self.fn = fn
        self.done = 0
        self.started = 0
        self.log: list = []

    def handle_event(self, event):
        self.started += 1
        return self.fn(self, event)

    @property
    def stats(self):
        return {"started": self.started, "done": self.done, "log": list(self.log[:200])}


class Replier(Entity):
    """Backend that takes a positive service time and then answers.

    Answers by resolving `context['reply_future']` / `context['metadata']['reply_future']`
    when present and by forwarding a '<type>.done' event to `downstream` when given.
    `fail_every` = k makes every k-th request fail (resolves with an Exception value /
    sets metadata['error']).
    """

    def __init__(self, name: str, service_s: float, downstream=None, fail_every: int = 0, capacity: int | None = None):
        super().__init__(name)
        self.service_s = service_s
        self.downstream = downstream
        self.fail_every = fail_every
        self.capacity = capacity
        self.active = 0
        self.received = 0
        self.completed = 0

    def has_capacity(self) -> bool:
        return self.capacity is None or self.active < self.capacity

    def handle_event(self, event):
        self.received += 1
        n = self.received
        self.active += 1
        yield self.service_s
        self.active -= 1
        self.completed += 1
        failed = bool(self.fail_every) and n % self.fail_every == 0
        ctx = event.context or {}
        fut = ctx.get("reply_future") or (ctx.get("metadata") or {}).get("reply_future")
        if fut is not None and hasattr(fut, "resolve"):
            fut.resolve({"ok": not failed, "n": n})
        if failed:
            ctx.setdefault("metadata", {})["error"] = "injected"
        if self.downstream is not None:
            return [Event(time=self.now, event_type=f"{event.event_type}.done", target=self.downstream, context=ctx)]
        return None

    @property
    def stats(self):
        return {"received": self.received, "completed": self.completed}


# ----------------------------------------------------------------------
# composition: a delaying / queueing stage in front of the component under test


FRONT_STAGES = ("server_queue", "conveyor", "rate_limited", "inductor", "link", "none")


def front_stage(kind: str, p: "P", downstream, lat_index: int = 0, name: str = "front"):
    """(entry entity, [entities to register]) of a stage that delays each request and forwards its
    *context* (so `created_at` is the original creation time) to `downstream`.

    server_queue  Server(concurrency=1, service=lat): the k-th request of a burst arrives k*lat late
    conveyor      ConveyorBelt(transit_time=lat)
    rate_limited  RateLimitedEntity(TokenBucket 1 token / lat): queues the burst, forwards `forward::<type>`
    inductor      Inductor(time_constant=lat)
    link          NetworkLink(latency=lat, jitter=lat/4) with egress=downstream
    none          no stage (entry is `downstream`)
    """
    lat = p.lat(lat_index)
    if kind == "none":
        return downstream, []
    if kind == "server_queue":
        from happysimulator.components.server import Server

        e = Server(name, concurrency=1, service_time=ConstantLatency(lat), downstream=downstream)
    elif kind == "conveyor":
        from happysimulator.components.industrial import ConveyorBelt

        e = ConveyorBelt(name, downstream=downstream, transit_time=lat)
    elif kind == "rate_limited":
        from happysimulator.components.rate_limiter import RateLimitedEntity, TokenBucketPolicy

        e = RateLimitedEntity(name, downstream=downstream, policy=TokenBucketPolicy(capacity=1.0, refill_rate=1.0 / lat))
    elif kind == "inductor":
        from happysimulator.components.rate_limiter import Inductor

        e = Inductor(name, downstream=downstream, time_constant=lat)
    elif kind == "link":
        from happysimulator.components.network import NetworkLink

        e = NetworkLink(name, latency=ConstantLatency(lat), jitter=ExponentialLatency(lat / 4), egress=downstream)
    else:
        raise KeyError(kind)
    return e, [e]


# ----------------------------------------------------------------------
# snapshots of public state (C03 compares these across processes)


def _plain(v, depth=0):
    if depth > 4:
        return repr(type(v).__name__)
    if isinstance(v, (bool, int, str)) or v is None:
        return v
    if isinstance(v, float):
        return float(f"{v:.12g}")
    if isinstance(v, (Instant, Duration)):
        return v.nanoseconds
    if isinstance(v, enum.Enum):
        return v.name
    if dataclasses.is_dataclass(v) and not isinstance(v, type):
        return {f.name: _plain(getattr(v, f.name), depth + 1) for f in dataclasses.fields(v)}
    if isinstance(v, dict):
        return {str(k): _plain(x, depth + 1) for k, x in list(v.items())[:200]}
    if isinstance(v, (list, tuple)):
        return [_plain(x, depth + 1) for x in list(v)[:200]]
    if isinstance(v, (set, frozenset)):
        return sorted(str(x) for x in v)[:200]
    return type(v).__name__


def public_state(obj) -> dict:
    """Public `stats` plus public int/float/str/bool attributes and properties."""
    out: dict[str, Any] = {}
    if isinstance(obj, dict):
        return _plain(obj)
    for name in dir(type(obj)):
        if name.startswith("_"):
            continue
        attr = getattr(type(obj), name, None)
        if isinstance(attr, property):
            try:
                out[name] = _plain(getattr(obj, name))
            except Exception as exc:  # noqa: BLE001
                out[name] = f"<{type(exc).__name__}>"
    for name, v in getattr(obj, "__dict__", {}).items():
        if name.startswith("_") or name in out:
            continue
        if isinstance(v, (bool, int, float, str, list, dict, tuple)) or v is None:
            out[name] = _plain(v)
    return out

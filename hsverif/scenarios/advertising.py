"""advertising family: AdPlatform, Advertiser, AudienceTier.

An Advertiser re-evaluates its campaigns every `evaluation_interval` seconds forever (the
first evaluation comes from `start_events()`), reports revenue to the AdPlatform at the
same instant and receives 'SentimentChange' events at the arrival instants.
"""

from __future__ import annotations

import random

from happysimulator.components.advertising import AdPlatform, Advertiser, AudienceTier

from hsverif.scenarios import Scenario, scenario
from hsverif.scenarios._kit import P, Proc, ev, make_sim


def _every(p: P, i: int, n: int = 2000) -> float:
    """Evaluation period: the hostile value, floored so an advertiser evaluates ~< n times."""
    return max(p.lat(i), p.end() / n)


def _tiers(n: int = 4) -> list[AudienceTier]:
    base = [
        AudienceTier("hot", base_monthly_sales=1000, base_cpa=5.0),
        AudienceTier("warm", base_monthly_sales=600, base_cpa=12.0),
        AudienceTier("cold", base_monthly_sales=300, base_cpa=22.0),
        AudienceTier("frozen", base_monthly_sales=100, base_cpa=40.0),
    ]
    extra = [AudienceTier(f"tier{j}", base_monthly_sales=90 - 5 * j, base_cpa=45.0 + 3 * j) for j in range(max(0, n - 4))]
    return (base + extra)[:n]


def _drive_sentiment(sim, advertisers, arr, rng) -> None:
    for i, t in enumerate(arr):
        adv = advertisers[i % len(advertisers)]
        if i % 7 == 6:
            sim.schedule(ev(t, "Noise", adv, i=i))  # ignored event type
        else:
            sim.schedule(ev(t, "SentimentChange", adv, i=i, sentiment=rng.choice([1.2, 0.9, 0.6, 0.35, 0.1, 0.0, -0.5])))


@scenario("advertising.advertisers_periodic_evaluation", "advertising")
def advertisers_periodic_evaluation(seed, params):
    """Three advertisers with different (awkward) evaluation intervals on one platform;
    sentiment shocks arrive in bursts, tiers shut off and come back."""
    p = P(params, seed)
    rng = random.Random(seed)
    platform = AdPlatform("platform")
    advs = [
        Advertiser(
            f"adv{j}",
            product_price=30.0 + 10 * j,
            production_cost=8.0 + j,
            tiers=_tiers(max(1, p.count(1, 4) - j % 3)),
            platform=platform,
            evaluation_interval=_every(p, j, n=max(300, 6000 // p.count(0, 3, hi=8))),
        )
        for j in range(p.count(0, 3, hi=8))  # counts[0] advertisers, counts[1] tiers
    ]
    arr = p.arrivals(9)
    sim = make_sim([platform, *advs], p.end())
    for a in advs:
        sim.schedule(a.start_events())
    _drive_sentiment(sim, advs, arr, rng)
    sim.schedule(ev(max(arr) + 3, "Noise", platform))
    return Scenario(sim, {"platform": platform, **{a.name: a for a in advs}}, "advertising", True, len(arr) + 1)


@scenario("advertising.advertiser_reset_midrun", "advertising")
def advertiser_reset_midrun(seed, params):
    """An operator resets the advertiser and the platform while the evaluation loop is running
    and runs a sensitivity analysis between two evaluations."""
    p = P(params, seed)
    rng = random.Random(seed)
    platform = AdPlatform("platform")
    adv = Advertiser(
        "adv", product_price=25.0, production_cost=5.0, tiers=_tiers(), platform=platform, evaluation_interval=_every(p, 0)
    )
    lat = p.lat(1)

    def operator(proc, event):
        yield lat
        proc.log.append(len(adv.sensitivity_analysis((0.0, 1.0), steps=10)))
        yield lat
        adv.reset()
        yield lat * 2
        platform.reset()
        proc.done += 1

    op = Proc("operator", operator)
    arr = p.arrivals(8)
    sim = make_sim([platform, adv, op], p.end())
    sim.schedule(adv.start_events())
    _drive_sentiment(sim, [adv], arr, rng)
    sim.schedule(ev(min(arr), "start", op))
    return Scenario(sim, {"platform": platform, "adv": adv, "operator": op}, "advertising", True, len(arr) + 1)


@scenario("advertising.advertiser_raw_evaluation_interval", "advertising")
def advertiser_raw_evaluation_interval(seed, params):
    """The *raw* hostile evaluation_interval (down to 1 ns) with a horizon of ~2000 periods
    instead of a floored period; sentiment shocks compressed into that horizon."""
    p = P(params, seed)
    rng = random.Random(seed)
    iv = p.lat(0)
    platform = AdPlatform("platform")
    adv = Advertiser("adv", product_price=25.0, production_cost=5.0, tiers=_tiers(), platform=platform, evaluation_interval=iv)
    n = p.n(8)
    horizon = min(p.end(), 2000 * iv)
    step = max(1, int(horizon * 1e9) // (n + 1))
    arr = [step * (1 + i // 2) for i in range(n)]  # pairs on one nanosecond inside the horizon
    sim = make_sim([platform, adv], horizon)
    sim.schedule(adv.start_events())
    _drive_sentiment(sim, [adv], arr, rng)
    return Scenario(sim, {"platform": platform, "adv": adv}, "advertising", True, n)


@scenario("advertising.degenerate_advertisers", "advertising")
def degenerate_advertisers(seed, params):
    """Advertisers with no tiers, a zero / negative margin, sentiment pinned at 0, a single
    tier that is never profitable, and one whose platform is shared with all the others."""
    p = P(params, seed)
    platform = AdPlatform("platform")
    advs = [
        Advertiser("adv.no_tiers", product_price=10.0, production_cost=2.0, tiers=[], platform=platform, evaluation_interval=_every(p, 0, n=500)),
        Advertiser("adv.no_margin", product_price=5.0, production_cost=5.0, tiers=_tiers(2), platform=platform, evaluation_interval=_every(p, 1, n=500)),
        Advertiser("adv.negative", product_price=1.0, production_cost=5.0, tiers=_tiers(1), platform=platform, evaluation_interval=_every(p, 2, n=500)),
        Advertiser("adv.unprofitable", product_price=10.0, production_cost=1.0, tiers=[AudienceTier("x", 0, 1e9)], platform=platform, evaluation_interval=_every(p, 0, n=500)),
        Advertiser("adv.same_instant", product_price=20.0, production_cost=1.0, tiers=_tiers(p.count(0, 4)), platform=platform, evaluation_interval=_every(p, 0, n=500)),
    ]
    arr = p.arrivals(6)
    sim = make_sim([platform, *advs], p.end())
    for a in advs:
        sim.schedule(a.start_events())
    for i, t in enumerate(arr):
        for a in advs:
            sim.schedule(ev(t, "SentimentChange", a, sentiment=[0.0, -1.0, 5.0][i % 3]))
            if i % 2:
                sim.schedule(ev(t, "SentimentChange", a))  # no sentiment given: keeps the old one
    return Scenario(sim, {"platform": platform, **{a.name: a for a in advs}}, "advertising", True, len(arr) * len(advs))

"""Library emitters outside components/: load (Source, profiles, providers), faults, instrumentation.

Families: "load", "faults", "instrumentation".
"""

from __future__ import annotations

from happysimulator.components.common import Counter, Sink
from happysimulator.components.network import Network, NetworkLink
from happysimulator.components.resource import Resource
from happysimulator.components.server import Server
from happysimulator.distributions.uniform import UniformDistribution
from happysimulator.distributions.zipf import ZipfDistribution
from happysimulator.faults import (
    CrashNode,
    FaultSchedule,
    InjectLatency,
    InjectPacketLoss,
    NetworkPartition,
    PauseNode,
    RandomPartition,
    ReduceCapacity,
)
from happysimulator.instrumentation import Data, LatencyTracker, Probe, ThroughputTracker
from happysimulator.instrumentation.recorder import InMemoryTraceRecorder
from happysimulator.load import (
    ConstantArrivalTimeProvider,
    DistributedFieldProvider,
    LinearRampProfile,
    PoissonArrivalTimeProvider,
    Source,
    SpikeProfile,
)

from hsverif.scenarios import Scenario, scenario
from hsverif.scenarios._kit import ConstantLatency, Entity, Event, ExponentialLatency, Instant, P, Proc, Recorder, ev, make_sim


def _bounded_rate(p: P, want: float) -> float:
    return max(0.2, min(want, 1500.0 / p.end()))


@scenario("load.sources_constant_and_poisson", "load")
def sources_constant_and_poisson(seed, params):
    """Two Sources (constant + poisson, different stop_after) into one overloaded Server."""
    p = P(params, seed)
    sink = Sink("sink")
    srv = Server("srv", concurrency=p.cap(1), service_time=ConstantLatency(p.lat(0)), queue_capacity=10, downstream=sink)
    r = _bounded_rate(p, 1.0 / p.lat(1))
    s1 = Source.constant(rate=r, target=srv, stop_after=min(p.end() / 3, 40 / r), name="const")
    s2 = Source.poisson(rate=r * 0.7, target=srv, event_type="Burst", stop_after=Instant.from_seconds(min(p.end() / 2, 40 / r)), name="pois")
    sim = make_sim([srv, sink], p.end(), sources=[s1, s2])
    return Scenario(sim, {"srv": srv, "sink": sink, "const": s1, "pois": s2}, "load", True, 80)


@scenario("load.profile_ramp_and_spike", "load")
def profile_ramp_and_spike(seed, params):
    """Sources with time-varying profiles (root finding for the next arrival)."""
    p = P(params, seed)
    cnt = Counter("counter")
    # The arrival-time solver integrates the profile numerically (~25 ms per arrival, much more for
    # an interval that straddles the spike's discontinuity), and a Source keeps ticking until
    # end_time: a short horizon with moderate rates keeps this at about 35 arrivals.
    end = min(p.end(), 1.0)
    k = 1.0 + (int(p.x("v", 0)) % 3) * 0.25
    ramp = LinearRampProfile(duration_s=end / 2, start_rate=5.0 * k, end_rate=40.0 * k)
    spike = SpikeProfile(baseline_rate=10.0 * k, spike_rate=60.0 * k, warmup_s=end / 5, spike_duration_s=end / 5)
    s1 = Source.with_profile(ramp, target=cnt, poisson=False, stop_after=end * 0.6, name="ramp")
    s2 = Source.with_profile(spike, target=cnt, event_type="Spike", poisson=True, stop_after=end * 0.6, name="spike")
    sim = make_sim([cnt], end, sources=[s1, s2])
    return Scenario(sim, {"counter": cnt, "ramp": s1, "spike": s2}, "load", True, 200)


@scenario("load.distributed_field_provider", "load")
def distributed_field_provider(seed, params):
    p = P(params, seed)
    sink = Recorder("sink")
    srv = Server("srv", concurrency=p.cap(2), service_time=ExponentialLatency(p.lat(0)), downstream=sink)
    r = _bounded_rate(p, 1.0 / p.lat(1))
    prov = DistributedFieldProvider(
        target=srv,
        event_type="Get",
        field_distributions={
            "key": ZipfDistribution(list(range(20)), s=1.1, seed=seed),
            "tenant": UniformDistribution(["a", "b", "c"], seed=seed + 1),
        },
        static_fields={"metadata": {}},
        stop_after=Instant.from_seconds(min(p.end() / 2, 50 / r)),
    )
    src = Source("zipf-src", event_provider=prov, arrival_time_provider=PoissonArrivalTimeProvider(profile=__import__("happysimulator").load.ConstantRateProfile(rate=r), start_time=Instant.Epoch))
    sim = make_sim([srv, sink], p.end(), sources=[src])
    return Scenario(sim, {"srv": srv, "sink": sink, "src": src}, "load", True, 50)


class Pinger(Entity):
    """Harness node: sends a message through the network on every 'tick', counts what it receives."""

    def __init__(self, name, network, peers_fn):
        super().__init__(name)
        self.network = network
        self.peers_fn = peers_fn
        self.sent = 0
        self.got = 0

    def handle_event(self, event):
        if event.event_type == "tick":
            out = []
            for peer in self.peers_fn(self):
                self.sent += 1
                out.append(self.network.send(self, peer, "Ping", payload={"n": self.sent}))
            return out
        self.got += 1
        return None

    @property
    def stats(self):
        return {"sent": self.sent, "got": self.got}


@scenario("faults.node_and_resource_faults", "faults")
def node_and_resource_faults(seed, params):
    """CrashNode / PauseNode on a busy Server, ReduceCapacity on a contended Resource."""
    p = P(params, seed)
    sink = Recorder("sink")
    srv = Server("srv", concurrency=p.cap(2), service_time=ConstantLatency(p.lat(0)), downstream=sink)
    res = Resource("res", capacity=4)
    hold = p.hold()

    def body(proc, event):
        grant = yield res.acquire(1 + event.context["metadata"]["worker"] % 2)
        yield hold
        try:
            grant.release()
        except ValueError as exc:
            # ReduceCapacity shrinks `available` without accounting for held grants, so a later release()
            # can exceed the (restored or reduced) capacity: that is C06/C09's subject, not C07's.
            proc.log.append(f"release raised: {exc}")
        proc.done += 1
        return [Event(time=proc.now, event_type="Request", target=srv, context=event.context)]

    arr = p.arrivals(8)
    t0 = min(arr) / 1e9
    span = max(p.lat(0) * 6, hold * 4)
    fs = FaultSchedule()
    fs.add(CrashNode("srv", at=t0 + span * 0.2, restart_at=t0 + span * 0.5))
    fs.add(PauseNode("srv", start=t0 + span * 0.6, end=t0 + span * 0.8))
    fs.add(ReduceCapacity("res", factor=0.5, start=t0 + span * 0.1, end=t0 + span * 0.7))
    h = fs.add(CrashNode("sink", at=t0 + span * 0.3))
    procs = [Proc(f"w{i}", body) for i in range(len(arr))]
    sim = make_sim([srv, sink, res, *procs], p.end(), fault_schedule=fs)
    h.cancel()
    for i, t in enumerate(arr):
        sim.schedule(ev(t, "start", procs[i], worker=i))
    return Scenario(sim, {"srv": srv, "res": res, "sink": sink, "faults": fs}, "faults", True, len(arr))


@scenario("faults.network_faults", "faults")
def network_faults(seed, params):
    """InjectLatency / InjectPacketLoss / NetworkPartition / RandomPartition while nodes ping each other."""
    p = P(params, seed)
    net = Network("net")
    nodes: list[Pinger] = []
    nodes.extend(Pinger(f"n{i}", net, lambda me: [x for x in nodes if x is not me]) for i in range(3))
    for i, a in enumerate(nodes):
        for b in nodes[i + 1 :]:
            net.add_bidirectional_link(a, b, NetworkLink(f"l-{a.name}-{b.name}", latency=ConstantLatency(p.lat(0)), jitter=ExponentialLatency(p.lat(1) / 4), packet_loss_rate=0.05))
    arr = p.arrivals(8)
    t0, t1 = min(arr) / 1e9, max(arr) / 1e9
    span = max(t1 - t0, p.lat(0) * 10)
    fs = FaultSchedule()
    fs.add(InjectLatency("n0", "n1", extra_ms=p.lat(2) * 1000, start=t0 + span * 0.1, end=t0 + span * 0.6))
    fs.add(InjectPacketLoss("n1", "n2", loss_rate=0.5, start=t0, end=t0 + span * 0.5))
    fs.add(NetworkPartition(["n0"], ["n2"], start=t0 + span * 0.2, end=t0 + span * 0.9, asymmetric=bool(p.x("v", 0) % 2)))
    fs.add(RandomPartition(["n0", "n1", "n2"], mtbf=span * 0.3 + 1e-3, mttr=span * 0.1 + 1e-3, seed=seed))
    sim = make_sim([net, *nodes], p.end(), fault_schedule=fs)
    for i, t in enumerate(arr):
        sim.schedule(ev(t, "tick", nodes[i % 3]))
    return Scenario(sim, {"net": net, **{n.name: n for n in nodes}, "faults": fs}, "faults", True, len(arr))


@scenario("instrumentation.probes_and_trackers", "instrumentation")
def probes_and_trackers(seed, params):
    """Probe sources sampling a busy Server, LatencyTracker / ThroughputTracker sinks, trace recorder on."""
    p = P(params, seed)
    lt = LatencyTracker("lt")
    tt = ThroughputTracker("tt")
    srv2 = Server("srv2", concurrency=1, service_time=ConstantLatency(p.lat(1)), downstream=tt)
    srv = Server("srv", concurrency=p.cap(2), service_time=ConstantLatency(p.lat(0)), downstream=lt)
    interval = max(p.lat(2), p.end() / 400)
    pr1, d1 = Probe.on(srv, "depth", interval=interval)
    prs, dd = Probe.on_many(srv2, ["depth", "utilization"], interval=interval * 1.7)
    pr3 = Probe(target=srv, metric="active_requests", data=Data(), interval=interval * 0.9, start_time=Instant.from_seconds(p.lat(0)))
    arr = p.arrivals(10)
    sim = make_sim([srv, srv2, lt, tt], p.end(), probes=[pr1, *prs, pr3], trace_recorder=InMemoryTraceRecorder())
    for i, t in enumerate(arr):
        sim.schedule(ev(t, "Request", srv if i % 2 else srv2, n=i))
    return Scenario(sim, {"srv": srv, "srv2": srv2, "lt": lt, "tt": tt}, "instrumentation", True, len(arr))

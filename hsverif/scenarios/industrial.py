"""industrial family: the operations-research components of happysimulator.components.industrial.

Every builder sends a burst (more simultaneous arrivals than capacity) plus a
few stragglers into one real component wired to real `Server`s / `Sink`s;
schedules (gates, shifts, appointments) are placed relative to the first
arrival so that arrivals hit closed gates / zero-capacity shifts.  The last
builders chain several components into a line.
"""

from __future__ import annotations

import random

from happysimulator.components.common import Sink
from happysimulator.components.industrial import (
    AppointmentScheduler,
    BalkingQueue,
    BatchProcessor,
    BreakdownScheduler,
    ConditionalRouter,
    ConveyorBelt,
    GateController,
    InspectionStation,
    InventoryBuffer,
    PerishableInventory,
    PooledCycleResource,
    PreemptibleResource,
    RenegingQueuedResource,
    Shift,
    ShiftedServer,
    ShiftSchedule,
    SplitMerge,
)
from happysimulator.components.queue_policy import FIFOQueue, LIFOQueue
from happysimulator.components.server import Server

from hsverif.scenarios import Scenario, scenario
from hsverif.scenarios._kit import ConstantLatency, Event, P, Proc, Recorder, Replier, ev, make_sim

FAMILY = "industrial"


def period(p: P, i: int, max_ticks: int = 300) -> float:
    """A periodic interval taken from p.lat(i), scaled by 10 until about max_ticks fit into p.end()."""
    iv = p.lat(i)
    while p.end() / iv > max_ticks:
        iv *= 10.0
    while p.end() / iv < max_ticks / 10.0:
        iv /= 10.0
    return iv


def below(v: float, limit: float) -> float:
    while v >= limit:
        v /= 3.0
    return v


def unit(p: P, t0_ns: int, k: int) -> float:
    """A time unit from p.hold() such that t0 + k units stays inside 80% of the run."""
    u = p.hold()
    room = max(0.5, p.end() * 0.8 - t0_ns / 1e9)
    while k * u > room:
        u /= 3.0
    return u


def _wave(t0: int, span_s: float, n: int) -> list[int]:
    gap = max(1, int(span_s * 1e9) // n)
    return [t0 + k * gap + (k % 2) for k in range(1, n + 1)]


def _send(sim, target, times, etype="Request", ctx=None, **md):
    for i, t in enumerate(times):
        c = dict(ctx(i)) if ctx else None
        sim.schedule(ev(t, etype, target, context=c, seq=i, **md))


# ----------------------------------------------------------------------
# AppointmentScheduler


@scenario("industrial.appointment_scheduler", FAMILY)
def appointment_scheduler(seed, params):
    """Appointments at the arrival instants (as float seconds) with no-shows, into a small pooled resource."""
    p = P(params, seed)
    sink = Sink("sink")
    pool = PooledCycleResource("rooms", pool_size=p.cap(2), cycle_time=p.lat(0), downstream=sink)
    arr = p.arrivals(10)
    t0 = min(arr)
    appts = [t / 1e9 for t in arr] + [t0 / 1e9 + p.lat(1) * k for k in range(1, 6)]
    sched = AppointmentScheduler("appointments", pool, appts, no_show_rate=0.25, event_type="Patient")
    sim = make_sim([sched, pool, sink], p.end())
    for e in sched.start_events():
        sim.schedule(e)
    sim.schedule(ev(t0, "Walk-in", sched))  # not a tick: ignored by the scheduler
    return Scenario(sim, {"appointments": sched, "rooms": pool, "sink": sink}, FAMILY, True, len(appts) + 1)


# ----------------------------------------------------------------------
# BalkingQueue


@scenario("industrial.balking_queue_server", FAMILY)
def balking_queue_server(seed, params):
    """Server whose queue policy balks (probabilistically) above a threshold, inner queue bounded."""
    p = P(params, seed)
    sink = Sink("sink")
    policy = BalkingQueue(FIFOQueue(capacity=6), balk_threshold=2, balk_probability=0.7)
    srv = Server("teller", concurrency=p.cap(1), service_time=ConstantLatency(p.lat(0)), queue_policy=policy, downstream=sink)
    arr = p.arrivals(12)
    sim = make_sim([srv, sink], p.end())
    _send(sim, srv, arr + _wave(min(arr), p.lat(0) * 6, 6))
    return Scenario(sim, {"teller": srv, "policy": policy, "sink": sink}, FAMILY, True, len(arr) + 6)


@scenario("industrial.balking_lifo_inspection", FAMILY)
def balking_lifo_inspection(seed, params):
    """BalkingQueue (always balks at depth >= cap) around a LIFO queue inside an InspectionStation."""
    p = P(params, seed)
    good, bad = Sink("good"), Recorder("scrap")
    policy = BalkingQueue(LIFOQueue(), balk_threshold=p.cap(2) + 1, balk_probability=1.0)
    st = InspectionStation("inspect", good, bad, inspection_time=p.lat(1), pass_rate=0.5, policy=policy)
    arr = p.arrivals(9)
    sim = make_sim([st, good, bad], p.end())
    _send(sim, st, arr, "Part")
    return Scenario(sim, {"inspect": st, "policy": policy, "good": good, "scrap": bad}, FAMILY, True, len(arr))


# ----------------------------------------------------------------------
# BatchProcessor


def _batch(seed, params, batch_size, timeout_of, default_n, process_time=None, via_server=False):
    p = P(params, seed)
    sink = Sink("sink")
    proc_t = p.lat(0) if process_time is None else process_time
    extra = []
    down = sink
    if via_server:  # keeps the scenario non-trivial when the processor itself takes zero time
        down = Server("after", concurrency=1, service_time=ConstantLatency(p.lat(2)), downstream=sink)
        extra = [down]
    bp = BatchProcessor("oven", down, batch_size=batch_size(p), process_time=proc_t, timeout_s=timeout_of(p))
    arr = p.arrivals(default_n)
    t0 = min(arr)
    # stragglers: singles and pairs (smaller than the batch) separated by more / less than the timeout
    tail = []
    t = max(arr)
    rng = random.Random(seed)
    for k in range(8):
        t += int(rng.choice([0.3, 0.9, 1.1, 2.5]) * max(p.lat(1), 1e-9) * 1e9) + rng.choice([0, 1])
        tail.append(t)
        if k % 3 == 0:
            tail.append(t)
    sim = make_sim([bp, sink, *extra], p.end())
    _send(sim, bp, arr + tail, "Item")
    return Scenario(sim, {"oven": bp, "sink": sink}, FAMILY, True, len(arr) + len(tail))


@scenario("industrial.batch_processor_timeout", FAMILY)
def batch_processor_timeout(seed, params):
    return _batch(seed, params, lambda p: 4, lambda p: p.lat(1), 9)


@scenario("industrial.batch_processor_cap", FAMILY)
def batch_processor_cap(seed, params):
    """batch_size from p.cap (1 included: every item completes a batch), timeout longer than the processing time."""
    return _batch(seed, params, lambda p: p.cap(3), lambda p: p.lat(1) + p.lat(0) * 2, 7)


@scenario("industrial.batch_processor_no_timeout", FAMILY)
def batch_processor_no_timeout(seed, params):
    return _batch(seed, params, lambda p: 3, lambda p: 0.0, 8)


# ----------------------------------------------------------------------
# BreakdownScheduler


@scenario("industrial.breakdown_server", FAMILY)
def breakdown_server(seed, params):
    """Random breakdowns / repairs (mean repair time straight from p.lat) of a Server that is serving a backlog."""
    p = P(params, seed)
    sink = Sink("sink")
    srv = Server("machine", concurrency=p.cap(1), service_time=ConstantLatency(p.lat(2)), downstream=sink)
    bd = BreakdownScheduler("breakdowns", srv, mean_time_to_failure=period(p, 0, 300), mean_repair_time=p.lat(1))
    arr = p.arrivals(10)
    sim = make_sim([srv, bd, sink], p.end())
    _send(sim, srv, arr + _wave(min(arr), unit(p, min(arr), 6) * 6, 12))
    sim.schedule(bd.start_event())
    sim.schedule(ev(min(arr), "Noise", bd))  # unknown event type: ignored
    return Scenario(sim, {"machine": srv, "breakdowns": bd, "sink": sink}, FAMILY, True, len(arr) + 14)


# ----------------------------------------------------------------------
# ConditionalRouter


@scenario("industrial.conditional_router", FAMILY)
def conditional_router(seed, params):
    """Predicate routes to two Servers and a conveyor, default Sink; a second router by context field that drops."""
    p = P(params, seed)
    sink, dropped = Sink("sink"), Recorder("other")
    a = Server("lineA", concurrency=p.cap(1), service_time=ConstantLatency(p.lat(0)), downstream=sink)
    b = Server("lineB", concurrency=1, service_time=ConstantLatency(p.lat(1)), queue_capacity=2, downstream=sink)
    belt = ConveyorBelt("belt", sink, transit_time=p.lat(2), capacity=p.cap(2))
    by_field = ConditionalRouter.by_context_field("by_kind", "kind", {"a": a, "belt": belt})
    by_field.drop_unmatched = True
    router = ConditionalRouter(
        "router",
        routes=[
            (lambda e: e.context["metadata"].get("seq", 0) % 4 == 0, a),
            (lambda e: e.context["metadata"].get("seq", 0) % 4 == 1, b),
            (lambda e: e.context.get("kind") is not None, by_field),
        ],
        default=dropped,
    )
    arr = p.arrivals(14)
    kinds = [None, "x", "a", "belt", "x", "zzz"]  # seq % 4 in (0, 1) never reaches the kind routes
    sim = make_sim([router, by_field, a, b, belt, sink, dropped], p.end())
    _send(sim, router, arr, "Order", ctx=lambda i: ({"kind": kinds[i % 6]} if kinds[i % 6] else {}))
    comps = {"router": router, "by_kind": by_field, "lineA": a, "lineB": b, "belt": belt, "sink": sink, "other": dropped}
    return Scenario(sim, comps, FAMILY, True, len(arr))


# ----------------------------------------------------------------------
# ConveyorBelt


@scenario("industrial.conveyor_capacity", FAMILY)
def conveyor_capacity(seed, params):
    """Bounded belt (capacity below the burst: rejects) feeding an unbounded belt feeding a Server."""
    p = P(params, seed)
    sink = Sink("sink")
    srv = Server("packer", concurrency=1, service_time=ConstantLatency(p.lat(2)), downstream=sink)
    belt2 = ConveyorBelt("belt2", srv, transit_time=p.lat(1), capacity=0)
    belt1 = ConveyorBelt("belt1", belt2, transit_time=p.lat(0), capacity=p.cap(2))
    arr = p.arrivals(9)
    sim = make_sim([belt1, belt2, srv, sink], p.end())
    _send(sim, belt1, arr + _wave(min(arr), p.lat(0) * 3, 9), "Box")
    return Scenario(sim, {"belt1": belt1, "belt2": belt2, "packer": srv, "sink": sink}, FAMILY, True, len(arr) + 9)


# ----------------------------------------------------------------------
# GateController


@scenario("industrial.gate_schedule", FAMILY)
def gate_schedule(seed, params):
    """Closed at the burst (queue_capacity below the burst: rejects); three scheduled windows flush the queue."""
    p = P(params, seed)
    sink = Sink("sink")
    srv = Server("dock", concurrency=p.cap(1), service_time=ConstantLatency(p.lat(1)), downstream=sink)
    arr = p.arrivals(10)
    t0 = min(arr)
    n = p.count(0, 3, hi=8)
    u = unit(p, t0, 2 * n + 2)
    t0s = t0 / 1e9
    windows = [(t0s + (2 * k + 1) * u, t0s + (2 * k + 2) * u) for k in range(n - 1)]
    windows.append((t0s + (2 * n - 1) * u, t0s + (2 * n - 1) * u + p.lat(0)))
    gate = GateController("gate", srv, schedule=windows, initially_open=False, queue_capacity=p.cap(2) + 2)
    sim = make_sim([gate, srv, sink], p.end())
    for e in gate.start_events():
        sim.schedule(e)
    _send(sim, gate, arr + _wave(t0, u * (2 * n + 1), 21), "Truck")
    return Scenario(sim, {"gate": gate, "dock": srv, "sink": sink}, FAMILY, True, len(arr) + 21)


@scenario("industrial.gate_manual", FAMILY)
def gate_manual(seed, params):
    """open() / close() called by an operator process (unbounded queue), initially open."""
    p = P(params, seed)
    sink = Sink("sink")
    belt = ConveyorBelt("ramp", sink, transit_time=p.lat(0))
    gate = GateController("gate", belt, initially_open=True, queue_capacity=0)
    arr = p.arrivals(8)
    t0 = min(arr)
    u = unit(p, t0, 8)

    def operator(proc, event):
        out = []
        for k in range(3):
            out.extend(gate.close())
            out.extend(gate.close())  # already closed: no-op
            yield u, out
            out = gate.open()
            out.extend(gate.open())
            yield u * 0.5, out
            out = []
        proc.done += 1

    op = Proc("operator", operator)
    sim = make_sim([gate, belt, sink, op], p.end())
    _send(sim, gate, arr + _wave(t0, u * 5, 20), "Car")
    sim.schedule(ev(t0, "start", op))
    return Scenario(sim, {"gate": gate, "ramp": belt, "sink": sink}, FAMILY, True, len(arr) + 21)


# ----------------------------------------------------------------------
# InspectionStation


@scenario("industrial.inspection_rework", FAMILY)
def inspection_rework(seed, params):
    """Failed parts go to a rework Server which sends them back to the station (bounded by pass_rate)."""
    p = P(params, seed)
    good = Sink("good")
    rework = Server("rework", concurrency=1, service_time=ConstantLatency(p.lat(1)))
    st = InspectionStation("inspect", good, rework, inspection_time=p.lat(0), pass_rate=0.6)
    rework.downstream = st
    arr = p.arrivals(10)
    sim = make_sim([st, rework, good], p.end())
    _send(sim, st, arr, "Part")
    return Scenario(sim, {"inspect": st, "rework": rework, "good": good}, FAMILY, True, len(arr))


# ----------------------------------------------------------------------
# InventoryBuffer / PerishableInventory


@scenario("industrial.inventory_buffer", FAMILY)
def inventory_buffer(seed, params):
    """Demand burst larger than the stock, reorders with lead_time straight from p.lat, demand continues."""
    p = P(params, seed)
    sink, lost = Sink("shipped"), Recorder("lost")
    inv = InventoryBuffer(
        "warehouse", initial_stock=5, reorder_point=2, order_quantity=4, lead_time=p.lat(0), downstream=sink, stockout_target=lost
    )
    arr = p.arrivals(10)
    t0 = min(arr)
    times = arr + _wave(t0, p.lat(0) * 5, 15)
    sim = make_sim([inv, sink, lost], p.end())
    _send(sim, inv, times, "Demand", ctx=lambda i: {"quantity": 1 + i % 3})
    return Scenario(sim, {"warehouse": inv, "shipped": sink, "lost": lost}, FAMILY, True, len(times))


@scenario("industrial.inventory_buffer_chain", FAMILY)
def inventory_buffer_chain(seed, params):
    """Two buffers in series (the shop's fulfilled orders are demand on the depot), no stockout target."""
    p = P(params, seed)
    sink = Sink("customer")
    depot = InventoryBuffer("depot", initial_stock=3, reorder_point=3, order_quantity=6, lead_time=p.lat(1), downstream=sink)
    shop = InventoryBuffer("shop", initial_stock=p.cap(2), reorder_point=0, order_quantity=2, lead_time=p.lat(0), downstream=depot)
    arr = p.arrivals(9)
    times = arr + _wave(min(arr), (p.lat(0) + p.lat(1)) * 4, 12)
    sim = make_sim([shop, depot, sink], p.end())
    _send(sim, shop, times, "Demand")
    return Scenario(sim, {"shop": shop, "depot": depot, "customer": sink}, FAMILY, True, len(times))


def _perishable(seed, params, stock_time):
    p = P(params, seed)
    sink, waste = Sink("sold"), Recorder("waste")
    iv = period(p, 0, 300)
    inv = PerishableInventory(
        "dairy",
        initial_stock=6,
        shelf_life_s=iv * 2.5,
        spoilage_check_interval_s=iv,
        reorder_point=2,
        order_quantity=5,
        lead_time=p.lat(1),
        downstream=sink,
        waste_target=waste,
        initial_stock_time=stock_time,
    )
    arr = p.arrivals(9)
    times = arr + _wave(min(arr), iv * 12, 24)
    sim = make_sim([inv, sink, waste], p.end())
    sim.schedule(inv.start_event())
    _send(sim, inv, times, "Demand", ctx=lambda i: {"quantity": 1 + i % 2})
    return Scenario(sim, {"dairy": inv, "sold": sink, "waste": waste}, FAMILY, True, len(times) + 1)


@scenario("industrial.perishable_inventory", FAMILY)
def perishable_inventory(seed, params):
    return _perishable(seed, params, None)


@scenario("industrial.perishable_inventory_stamped_stock", FAMILY)
def perishable_inventory_stamped_stock(seed, params):
    return _perishable(seed, params, 0.0)


# ----------------------------------------------------------------------
# PooledCycleResource


@scenario("industrial.pooled_cycle", FAMILY)
def pooled_cycle(seed, params):
    """Pool smaller than the burst, bounded wait queue (rejects), finished units hand over to queued events."""
    p = P(params, seed)
    sink = Sink("sink")
    pool = PooledCycleResource("forklifts", pool_size=p.cap(2), cycle_time=p.lat(0), downstream=sink, queue_capacity=p.cap(2) + 2)
    arr = p.arrivals(12)
    sim = make_sim([pool, sink], p.end())
    _send(sim, pool, arr + _wave(min(arr), p.lat(0) * 4, 8), "Pallet")
    return Scenario(sim, {"forklifts": pool, "sink": sink}, FAMILY, True, len(arr) + 8)


@scenario("industrial.pooled_cycle_chain", FAMILY)
def pooled_cycle_chain(seed, params):
    """Two pools in series, unbounded queues, no downstream on the last one."""
    p = P(params, seed)
    second = PooledCycleResource("dryers", pool_size=1, cycle_time=p.lat(1))
    first = PooledCycleResource("washers", pool_size=p.cap(2), cycle_time=p.lat(0), downstream=second)
    arr = p.arrivals(10)
    sim = make_sim([first, second], p.end())
    _send(sim, first, arr, "Load")
    return Scenario(sim, {"washers": first, "dryers": second}, FAMILY, True, len(arr))


# ----------------------------------------------------------------------
# PreemptibleResource


def _preemptible(seed, params, preempt):
    p = P(params, seed)
    cap = p.cap(2)
    res = PreemptibleResource("crane", capacity=cap)
    hold = p.hold()
    arr = p.arrivals(8)
    n = len(arr)
    preempted = {"n": 0}

    def body(proc, event):
        i = event.context["metadata"]["worker"]
        prio = float((n - i) % 5)  # later arrivals are more urgent (lower value) and preempt earlier holders
        amount = 1 + i % cap

        def on_preempt():
            preempted["n"] += 1
            proc.log.append(("preempted", i))

        grant = yield res.acquire(amount=amount, priority=prio, preempt=preempt, on_preempt=on_preempt)
        yield hold * (1 + i % 3)
        grant.release()  # no-op when the grant was preempted meanwhile
        proc.done += 1

    procs = [Proc(f"job{i}", body) for i in range(n)]
    sim = make_sim([res, *procs], p.end())
    for i, t in enumerate(arr):
        sim.schedule(ev(t, "start", procs[i], worker=i))
    return Scenario(sim, {"crane": res, "preempted": preempted}, FAMILY, True, n)


@scenario("industrial.preemptible_resource_preempt", FAMILY)
def preemptible_resource_preempt(seed, params):
    return _preemptible(seed, params, True)


@scenario("industrial.preemptible_resource_wait", FAMILY)
def preemptible_resource_wait(seed, params):
    return _preemptible(seed, params, False)


# ----------------------------------------------------------------------
# RenegingQueuedResource


class RenegingCounter(RenegingQueuedResource):
    """Concrete reneging resource (harness): `concurrency` servers with a constant service time."""

    def __init__(self, name, service_s, concurrency=1, downstream=None, **kw):
        super().__init__(name, **kw)
        self.service_s = service_s
        self.concurrency = concurrency
        self.downstream = downstream
        self.active = 0

    def has_capacity(self) -> bool:
        return self.active < self.concurrency

    def _handle_served_event(self, event):
        self.active += 1
        try:
            yield self.service_s
        finally:
            self.active -= 1
        if self.downstream is not None:
            return [Event(time=self.now, event_type="Served", target=self.downstream, context=event.context)]
        return None


@scenario("industrial.reneging_small_patience", FAMILY)
def reneging_small_patience(seed, params):
    """Burst on a counter whose service time exceeds the (default / per-customer) patience: most renege."""
    p = P(params, seed)
    sink, gone = Sink("served"), Recorder("reneged")
    svc = p.hold()
    res = RenegingCounter("counter", svc, concurrency=p.cap(1), downstream=sink, reneged_target=gone, default_patience_s=svc * 1.5)
    arr = p.arrivals(10)
    times = arr + _wave(min(arr), svc * 3, 6)
    sim = make_sim([res, sink, gone], p.end())
    _send(sim, res, times, "Customer", ctx=lambda i: ({"patience_s": p.lat(i)} if i % 3 == 0 else {}))
    return Scenario(sim, {"counter": res, "served": sink, "reneged": gone}, FAMILY, True, len(times))


@scenario("industrial.reneging_no_target", FAMILY)
def reneging_no_target(seed, params):
    """No reneged_target, LIFO policy, patience straight from p.lat."""
    p = P(params, seed)
    res = RenegingCounter("counter", p.lat(1), concurrency=1, policy=LIFOQueue(), default_patience_s=p.lat(0))
    arr = p.arrivals(8)
    sim = make_sim([res], p.end())
    _send(sim, res, arr, "Customer")
    return Scenario(sim, {"counter": res}, FAMILY, True, len(arr))


# ----------------------------------------------------------------------
# ShiftedServer


def _shifted(seed, params, boundaries_of):
    p = P(params, seed)
    sink = Sink("sink")
    arr = p.arrivals(10)
    t0 = min(arr)
    u = unit(p, t0, 10)
    b = boundaries_of(p, t0 / 1e9, u)
    cap = p.cap(2)
    sched = ShiftSchedule(
        [Shift(0.0, b[0], cap), Shift(b[0], b[1], 0), Shift(b[1], b[2], cap + 1), Shift(b[2], b[3], 1)], default_capacity=cap
    )
    srv = ShiftedServer("line", sched, service_time=below(p.lat(0), u), downstream=sink)
    times = arr + _wave(t0, (b[3] - t0 / 1e9) * 1.2, 24)
    sim = make_sim([srv, sink], p.end())
    _send(sim, srv, times, "Job")
    return Scenario(sim, {"line": srv, "sink": sink}, FAMILY, True, len(times))


@scenario("industrial.shifted_server_grid", FAMILY)
def shifted_server_grid(seed, params):
    """Shift boundaries on a 1/8 s grid (exact in binary and in ns) after the burst; one shift has capacity 0."""

    def grid(p, t0s, u):
        g = max(0.125, round(u * 8) / 8)
        first = (int(t0s * 8) + 1) / 8
        while first + 3 * g > p.end() * 0.9 and g > 0.125:
            g -= 0.125
        return [first, first + g, first + 2 * g, first + 3 * g]

    return _shifted(seed, params, grid)


@scenario("industrial.shifted_server_hostile", FAMILY)
def shifted_server_hostile(seed, params):
    """Shift boundaries at first arrival + multiples of an awkward unit (not representable in whole ns)."""
    return _shifted(seed, params, lambda p, t0s, u: [t0s + u, t0s + 2 * u, t0s + 4 * u, t0s + 5 * u])


# ----------------------------------------------------------------------
# SplitMerge


@scenario("industrial.split_merge", FAMILY)
def split_merge(seed, params):
    """Fan out to three workers with different service times, merge on all_of; bursts overlap."""
    p = P(params, seed)
    sink = Sink("sink")
    workers = [Replier(f"cell{k}", p.lat(k)) for k in range(p.count(0, 3, lo=2))]
    sm = SplitMerge("assembly", workers, sink)
    arr = p.arrivals(8)
    sim = make_sim([sm, sink, *workers], p.end())
    _send(sim, sm, arr, "Order")
    return Scenario(sim, {"assembly": sm, "sink": sink, **{w.name: w for w in workers}}, FAMILY, True, len(arr))


@scenario("industrial.split_merge_nested", FAMILY)
def split_merge_nested(seed, params):
    """A SplitMerge whose merged result feeds a BatchProcessor; two workers, one much slower (p.hold)."""
    p = P(params, seed)
    sink = Sink("sink")
    bp = BatchProcessor("pack", sink, batch_size=3, process_time=p.lat(2), timeout_s=p.lat(3))
    workers = [Replier("fast", p.lat(0)), Replier("slow", p.hold())]
    sm = SplitMerge("assembly", workers, bp, split_event_type="Cut", merge_event_type="Kit")
    arr = p.arrivals(7)
    sim = make_sim([sm, bp, sink, *workers], p.end())
    _send(sim, sm, arr, "Order")
    return Scenario(sim, {"assembly": sm, "pack": bp, "sink": sink}, FAMILY, True, len(arr))


# ----------------------------------------------------------------------
# a whole line


@scenario("industrial.production_line", FAMILY)
def production_line(seed, params):
    """gate -> belt -> inspection (breakdowns) -> router -> {batch oven, pooled rework} -> warehouse."""
    p = P(params, seed)
    arr = p.arrivals(12)
    t0 = min(arr)
    u = unit(p, t0, 8)
    t0s = t0 / 1e9
    sink, lost = Sink("shipped"), Recorder("lost")
    warehouse = InventoryBuffer(
        "warehouse", initial_stock=2, reorder_point=1, order_quantity=3, lead_time=p.lat(4), downstream=sink, stockout_target=lost
    )
    oven = BatchProcessor("oven", warehouse, batch_size=3, process_time=p.lat(3), timeout_s=p.lat(2) + p.lat(3))
    rework = PooledCycleResource("rework", pool_size=1, cycle_time=p.lat(2), downstream=oven, queue_capacity=3)
    router = ConditionalRouter("router", routes=[(lambda e: e.context["metadata"].get("seq", 0) % 3 != 2, oven)], default=rework)
    inspect = InspectionStation("inspect", router, lost, inspection_time=p.lat(1), pass_rate=0.8)
    belt = ConveyorBelt("belt", inspect, transit_time=p.lat(0), capacity=p.cap(2) + 3)
    gate = GateController("gate", belt, schedule=[(t0s + u, t0s + 3 * u), (t0s + 4 * u, t0s + 6 * u)], initially_open=False, queue_capacity=8)
    bd = BreakdownScheduler("breakdowns", inspect, mean_time_to_failure=period(p, 5, 200), mean_repair_time=p.lat(1))
    ents = [gate, belt, inspect, router, oven, rework, warehouse, bd, sink, lost]
    sim = make_sim(ents, p.end())
    for e in gate.start_events():
        sim.schedule(e)
    sim.schedule(bd.start_event())
    times = arr + _wave(t0, u * 6, 24)
    _send(sim, gate, times, "Part")
    comps = {e.name: e for e in ents}
    return Scenario(sim, comps, FAMILY, True, len(times) + 1)


# ======================================================================
# degenerate operations / zero durations / structural counts


@scenario("industrial.batch_size_one_with_timeout", FAMILY)
def batch_size_one_with_timeout(seed, params):
    """batch_size 1 with a timeout: every item is a full batch, the timeout event must never be left armed."""
    return _batch(seed, params, lambda p: 1, lambda p: p.lat(1), 8)


@scenario("industrial.batch_timeout_tiny", FAMILY)
def batch_timeout_tiny(seed, params):
    """timeout_s = 1 ns (tiny against every arrival gap): partial batches are flushed one nanosecond later."""
    return _batch(seed, params, lambda p: p.count(0, 4, lo=2), lambda p: 1e-9, 9)


@scenario("industrial.batch_timeout_huge", FAMILY)
def batch_timeout_huge(seed, params):
    """timeout_s longer than the run: only full batches are released, the rest stays buffered."""
    return _batch(seed, params, lambda p: p.count(0, 4, lo=2), lambda p: p.end() * 3.0, 9)


@scenario("industrial.batch_process_time_zero", FAMILY)
def batch_process_time_zero(seed, params):
    """process_time 0.0 (accepted): batches are released at the instant they fill / time out."""
    return _batch(seed, params, lambda p: p.cap(2) + 1, lambda p: p.lat(1), 9, process_time=0.0, via_server=True)


@scenario("industrial.batch_zero_time_size_one_no_timeout", FAMILY)
def batch_zero_time_size_one_no_timeout(seed, params):
    """batch_size 1, process_time 0.0, timeout 0.0: a pure pass-through."""
    return _batch(seed, params, lambda p: 1, lambda p: 0.0, 7, process_time=0.0, via_server=True)


def _conveyor_chain(seed, params, transit_of, capacity_of, n_of):
    p = P(params, seed)
    sink = Sink("sink")
    srv = Server("packer", concurrency=1, service_time=ConstantLatency(p.lat(3)), downstream=sink)
    belts: list = []
    down = srv
    n = n_of(p)
    for k in reversed(range(n)):
        b = ConveyorBelt(f"belt{k}", down, transit_time=transit_of(p, k), capacity=capacity_of(p, k))
        belts.insert(0, b)
        down = b
    arr = p.arrivals(9)
    sim = make_sim([*belts, srv, sink], p.end())
    _send(sim, belts[0], arr + _wave(min(arr), p.lat(3) * 4, 8), "Box")
    return Scenario(sim, {**{b.name: b for b in belts}, "packer": srv, "sink": sink}, FAMILY, True, len(arr) + 8)


@scenario("industrial.conveyor_tiny_transit_capacity_one", FAMILY)
def conveyor_tiny_transit_capacity_one(seed, params):
    """transit_time 1 ns, capacity 1: all but one item of a burst are rejected, stragglers 1 ns apart pass."""
    return _conveyor_chain(seed, params, lambda p, k: 1e-9, lambda p, k: 1, lambda p: 1)


@scenario("industrial.conveyor_zero_transit", FAMILY)
def conveyor_zero_transit(seed, params):
    """transit_time 0.0 (accepted) with capacity 1, then a positive-latency belt."""
    return _conveyor_chain(seed, params, lambda p, k: 0.0 if k == 0 else p.lat(k), lambda p, k: 1 if k == 0 else 0, lambda p: 2)


@scenario("industrial.conveyor_chain_counts", FAMILY)
def conveyor_chain_counts(seed, params):
    """p.count belts in series, alternating unbounded / capacity p.cap, transit times from p.lat."""
    return _conveyor_chain(seed, params, lambda p, k: p.lat(k), lambda p, k: 0 if k % 2 else p.cap(2) + 1, lambda p: p.count(0, 3, hi=10))


# ----------------------------------------------------------------------
# GateController schedules


@scenario("industrial.gate_zero_length_and_back_to_back", FAMILY)
def gate_zero_length_and_back_to_back(seed, params):
    """Zero-length windows (open == close) and back-to-back windows (close == next open), p.count windows."""
    p = P(params, seed)
    sink = Sink("sink")
    srv = Server("dock", concurrency=p.cap(1), service_time=ConstantLatency(p.lat(1)), downstream=sink)
    arr = p.arrivals(8)
    t0 = min(arr)
    n = p.count(0, 5, lo=2, hi=10)
    u = unit(p, t0, n + 3)
    t0s = t0 / 1e9
    windows = []
    for k in range(n):
        a = t0s + (k + 1) * u
        if k % 3 == 0:
            windows.append((a, a))  # zero length
        else:
            windows.append((a, a + u))  # ends exactly where the next one starts
    gate = GateController("gate", srv, schedule=windows, initially_open=False, queue_capacity=0)
    sim = make_sim([gate, srv, sink], p.end())
    for e in gate.start_events():
        sim.schedule(e)
    times = arr + _wave(t0, u * (n + 2), 3 * n + 6)
    _send(sim, gate, times, "Truck")
    return Scenario(sim, {"gate": gate, "dock": srv, "sink": sink}, FAMILY, True, len(times))


@scenario("industrial.gate_schedule_in_the_past", FAMILY)
def gate_schedule_in_the_past(seed, params):
    """Every window lies before the first arrival (a belt delays the arrivals); an operator opens the gate later."""
    p = P(params, seed)
    sink = Sink("sink")
    arr = p.arrivals(8)
    t0 = min(arr)
    t0s = t0 / 1e9
    n = p.count(0, 3, hi=6)
    windows = [(t0s * k / (2 * n + 1), t0s * (k + 1) / (2 * n + 1)) for k in range(0, 2 * n, 2)]
    srv = Server("dock", concurrency=1, service_time=ConstantLatency(p.lat(1)), downstream=sink)
    gate = GateController("gate", srv, schedule=windows, initially_open=True, queue_capacity=p.cap(2) + 3)
    belt = ConveyorBelt("approach", gate, transit_time=p.lat(0))
    u = unit(p, t0, 6)

    def operator(proc, event):
        proc.done += 1
        return gate.open()

    op = Proc("operator", operator)
    sim = make_sim([gate, belt, srv, sink, op], p.end())
    for e in gate.start_events():
        sim.schedule(e)
    times = arr + _wave(t0, u * 4, 10)
    _send(sim, belt, times, "Truck")
    sim.schedule(ev(t0 + int(u * 3 * 1e9), "open", op))
    return Scenario(sim, {"gate": gate, "approach": belt, "dock": srv, "sink": sink}, FAMILY, True, len(times) + 1)


@scenario("industrial.late_start_gate_schedule", FAMILY)
def late_start_gate_schedule(seed, params):
    """gate.start_events() obtained while the clock is already at the first arrival (gate switched on mid-run);
    both windows of the absolute schedule are still ahead."""
    p = P(params, seed)
    sink = Sink("sink")
    arr = p.arrivals(8)
    t0 = min(arr)
    t0s = t0 / 1e9
    u = unit(p, t0, 6)
    srv = Server("dock", concurrency=1, service_time=ConstantLatency(p.lat(1)), downstream=sink)
    # The schedule is in absolute times: windows that already elapsed when start_events() is asked for
    # would be the caller's mistake (an absolute schedule in the past), so both windows lie ahead.
    gate = GateController("gate", srv, schedule=[(t0s + u / 3, t0s + u / 2), (t0s + u, t0s + 2 * u)], initially_open=False)

    def switch_on(proc, event):
        proc.done += 1
        return gate.start_events()

    sw = Proc("switch_on", switch_on)
    sim = make_sim([gate, srv, sink, sw], p.end())
    sim.schedule(ev(t0, "on", sw))
    times = arr + _wave(t0, u * 4, 12)
    _send(sim, gate, times, "Truck")
    return Scenario(sim, {"gate": gate, "dock": srv, "sink": sink}, FAMILY, True, len(times) + 1)


@scenario("industrial.late_start_cycles", FAMILY)
def late_start_cycles(seed, params):
    """BreakdownScheduler.start_event() / PerishableInventory.start_event() obtained at the first arrival
    (components switched on mid-run): both describe a delay from "now" (time to failure, check interval)."""
    p = P(params, seed)
    sink, waste = Sink("sink"), Recorder("waste")
    arr = p.arrivals(8)
    t0 = min(arr)
    u = unit(p, t0, 6)
    srv = Server("machine", concurrency=1, service_time=ConstantLatency(p.lat(1)), downstream=sink)
    iv = period(p, 0, 300)
    inv = PerishableInventory(
        "dairy", initial_stock=4, shelf_life_s=iv * 2, spoilage_check_interval_s=iv, reorder_point=1, order_quantity=3,
        lead_time=p.lat(2), downstream=srv, waste_target=waste,
    )  # fmt: skip
    bd = BreakdownScheduler("breakdowns", srv, mean_time_to_failure=period(p, 3, 300), mean_repair_time=p.lat(1))

    def switch_on(proc, event):
        proc.done += 1
        return [inv.start_event(), bd.start_event()]

    sw = Proc("switch_on", switch_on)
    sim = make_sim([srv, inv, bd, sink, waste, sw], p.end())
    sim.schedule(ev(t0, "on", sw))
    times = arr + _wave(t0, u * 4, 12)
    _send(sim, inv, times, "Demand")
    comps = {"machine": srv, "dairy": inv, "breakdowns": bd, "sink": sink, "waste": waste}
    return Scenario(sim, comps, FAMILY, True, len(times) + 1)


# ----------------------------------------------------------------------
# inventories


def _long_wave(p: P, t0: int, n: int) -> list[int]:
    """Demand spread until 70% of the run (reaches instants beyond 16 s when the run is long)."""
    span = max(1.0, p.end() * 0.7 - t0 / 1e9)
    return _wave(t0, span, n)


@scenario("industrial.inventory_zero_lead_time", FAMILY)
def inventory_zero_lead_time(seed, params):
    """lead_time 0.0 (accepted), order_quantity 1, initial_stock 0: every demand reorders for the same instant."""
    p = P(params, seed)
    sink, lost = Sink("shipped"), Recorder("lost")
    pack = Server("pack", concurrency=1, service_time=ConstantLatency(p.lat(0)), downstream=sink)
    inv = InventoryBuffer("warehouse", initial_stock=0, reorder_point=0, order_quantity=1, lead_time=0.0, downstream=pack, stockout_target=lost)
    arr = p.arrivals(8)
    times = arr + _long_wave(p, min(arr), 40)
    sim = make_sim([inv, pack, sink, lost], p.end())
    _send(sim, inv, times, "Demand")
    return Scenario(sim, {"warehouse": inv, "pack": pack, "shipped": sink, "lost": lost}, FAMILY, True, len(times))


@scenario("industrial.inventory_order_quantity_one", FAMILY)
def inventory_order_quantity_one(seed, params):
    """order_quantity 1, initial_stock 0, reorder_point above the order quantity, lead_time of 1 ns."""
    p = P(params, seed)
    sink, lost = Sink("shipped"), Recorder("lost")
    inv = InventoryBuffer("warehouse", initial_stock=0, reorder_point=3, order_quantity=1, lead_time=1e-9, downstream=sink, stockout_target=lost)
    arr = p.arrivals(8)
    times = arr + _long_wave(p, min(arr), 30)
    sim = make_sim([inv, sink, lost], p.end())
    _send(sim, inv, times, "Demand", ctx=lambda i: {"quantity": 1 + i % 2})
    return Scenario(sim, {"warehouse": inv, "shipped": sink, "lost": lost}, FAMILY, True, len(times))


def _perishable_extreme(seed, params, shelf_of, check_ticks, lead_of, stock=6):
    p = P(params, seed)
    sink, waste = Sink("sold"), Recorder("waste")
    iv = period(p, 0, check_ticks)
    pack = Server("pack", concurrency=1, service_time=ConstantLatency(p.lat(2)), downstream=sink)
    inv = PerishableInventory(
        "dairy", initial_stock=stock, shelf_life_s=shelf_of(p, iv), spoilage_check_interval_s=iv, reorder_point=2,
        order_quantity=p.count(0, 5, hi=9), lead_time=lead_of(p, iv), downstream=pack, waste_target=waste,
    )  # fmt: skip
    arr = p.arrivals(8)
    times = arr + _long_wave(p, min(arr), 30)
    sim = make_sim([inv, pack, sink, waste], p.end())
    sim.schedule(inv.start_event())
    _send(sim, inv, times, "Demand", ctx=lambda i: {"quantity": 1 + i % 2})
    return Scenario(sim, {"dairy": inv, "pack": pack, "sold": sink, "waste": waste}, FAMILY, True, len(times) + 1)


@scenario("industrial.perishable_shelf_life_shorter_than_check", FAMILY)
def perishable_shelf_life_shorter_than_check(seed, params):
    """shelf_life = 1/20 of the check interval: every check wastes everything that was replenished."""
    return _perishable_extreme(seed, params, lambda p, iv: iv / 20.0, 200, lambda p, iv: p.lat(1))


@scenario("industrial.perishable_check_much_shorter_than_shelf", FAMILY)
def perishable_check_much_shorter_than_shelf(seed, params):
    """check interval = 1/50 of the shelf life, lead_time 0.0 (accepted), initial_stock 0."""
    return _perishable_extreme(seed, params, lambda p, iv: iv * 50.0, 500, lambda p, iv: 0.0, stock=0)


@scenario("industrial.perishable_zero_shelf_life", FAMILY)
def perishable_zero_shelf_life(seed, params):
    """shelf_life 0.0 (accepted): stock expires at the first check at or after its arrival; long lead time."""
    return _perishable_extreme(seed, params, lambda p, iv: 0.0, 200, lambda p, iv: iv * 3.3)


# ----------------------------------------------------------------------
# pools / preemption


def _pool_one(seed, params, qcap, cycle, chain):
    p = P(params, seed)
    sink = Sink("sink")
    down = Server("after", concurrency=1, service_time=ConstantLatency(p.lat(2)), downstream=sink)
    ents: list = [down, sink]
    pools = []
    for k in reversed(range(chain(p))):
        pool = PooledCycleResource(f"unit{k}", pool_size=1, cycle_time=cycle(p, k), downstream=down, queue_capacity=qcap)
        pools.insert(0, pool)
        down = pool
    arr = p.arrivals(9)
    sim = make_sim([*pools, *ents], p.end())
    _send(sim, pools[0], arr + _wave(min(arr), max(p.lat(0), 1e-9) * 5, 8), "Pallet")
    return Scenario(sim, {**{q.name: q for q in pools}, "sink": sink}, FAMILY, True, len(arr) + 8)


@scenario("industrial.pooled_one_unit_queue_capacity_one", FAMILY)
def pooled_one_unit_queue_capacity_one(seed, params):
    return _pool_one(seed, params, 1, lambda p, k: p.lat(k), lambda p: 1)


@scenario("industrial.pooled_one_unit_unbounded_zero_cycle", FAMILY)
def pooled_one_unit_unbounded_zero_cycle(seed, params):
    """pool_size 1, queue_capacity 0 (= unbounded), cycle_time 0.0: the whole backlog drains at one instant."""
    return _pool_one(seed, params, 0, lambda p, k: 0.0, lambda p: 1)


@scenario("industrial.pooled_one_unit_chain_counts", FAMILY)
def pooled_one_unit_chain_counts(seed, params):
    """p.count single-unit pools in series, alternating zero and positive cycle times, unbounded queues."""
    return _pool_one(seed, params, 0, lambda p, k: 0.0 if k % 2 else p.lat(k), lambda p: p.count(0, 3, hi=10))


@scenario("industrial.preemptible_capacity_one", FAMILY)
def preemptible_capacity_one(seed, params):
    """capacity 1, equal and distinct priorities, holders of 1 ns and of p.hold: chains of preemptions."""
    p = P(params, seed)
    res = PreemptibleResource("crane", capacity=1)
    arr = p.arrivals(9)
    n = len(arr)
    preempted = {"n": 0}

    def body(proc, event):
        i = event.context["metadata"]["worker"]
        prio = float((n - i) // 2)  # pairs of equal priority, later pairs more urgent

        def on_preempt():
            preempted["n"] += 1

        grant = yield res.acquire(amount=1, priority=prio, preempt=(i % 4 != 3), on_preempt=on_preempt)
        yield (1e-9 if i % 3 == 0 else p.hold())
        if not grant.preempted:
            grant.release()
        grant.release()  # double release: no-op
        proc.done += 1

    procs = [Proc(f"job{i}", body) for i in range(n)]
    sim = make_sim([res, *procs], p.end())
    for i, t in enumerate(arr):
        sim.schedule(ev(t, "start", procs[i], worker=i))
    return Scenario(sim, {"crane": res, "preempted": preempted}, FAMILY, True, n)


# ----------------------------------------------------------------------
# shifts


@scenario("industrial.shifted_zero_length_adjacent_gaps", FAMILY)
def shifted_zero_length_adjacent_gaps(seed, params):
    """p.count shifts: zero-length shifts, adjacent shifts, gaps (default capacity 0), overlapping shifts."""
    p = P(params, seed)
    sink = Sink("sink")
    arr = p.arrivals(10)
    t0 = min(arr)
    n = p.count(0, 6, lo=2, hi=12)
    u = unit(p, t0, n + 3)
    t0s = t0 / 1e9
    shifts = []
    for k in range(n):
        a = t0s + (k + 1) * u
        kind = k % 4
        if kind == 0:
            shifts.append(Shift(a, a, 5))  # zero length
        elif kind == 1:
            shifts.append(Shift(a, a + u, 1 + k % 3))  # adjacent to the next
        elif kind == 2:
            shifts.append(Shift(a, a + u * 0.5, 2))  # gap of half a unit behind it
        else:
            shifts.append(Shift(a - u * 0.25, a + u, 1))  # overlaps the previous
    sched = ShiftSchedule(shifts, default_capacity=0)
    srv = ShiftedServer("line", sched, service_time=below(p.lat(0), u), downstream=sink)
    times = arr + _wave(t0, u * (n + 2), 2 * n + 10)
    sim = make_sim([srv, sink], p.end())
    _send(sim, srv, times, "Job")
    return Scenario(sim, {"line": srv, "sink": sink}, FAMILY, True, len(times))


@scenario("industrial.shifted_single_shift_from_zero", FAMILY)
def shifted_single_shift_from_zero(seed, params):
    """One shift [0, first arrival + unit) of capacity 1, nothing afterwards (default 0); service longer than the shift."""
    p = P(params, seed)
    sink = Sink("sink")
    arr = p.arrivals(7)
    t0 = min(arr)
    u = unit(p, t0, 6)
    sched = ShiftSchedule([Shift(0.0, t0 / 1e9 + u, 1)], default_capacity=0)
    srv = ShiftedServer("line", sched, service_time=u * 1.5, downstream=sink)
    sim = make_sim([srv, sink], p.end())
    _send(sim, srv, arr + _wave(t0, u * 3, 6), "Job")
    return Scenario(sim, {"line": srv, "sink": sink}, FAMILY, True, len(arr) + 6)


# ----------------------------------------------------------------------
# appointments, split/merge, breakdowns


@scenario("industrial.appointment_duplicates_unsorted_noshow", FAMILY)
def appointment_duplicates_unsorted_noshow(seed, params):
    """Duplicate and unsorted appointment times (no_show_rate 0.0) next to a scheduler whose patients never show up."""
    p = P(params, seed)
    sink = Sink("sink")
    pool = PooledCycleResource("rooms", pool_size=1, cycle_time=p.lat(0), downstream=sink, queue_capacity=1)
    arr = p.arrivals(8)
    t0s = min(arr) / 1e9
    rng = random.Random(seed)
    appts = [t / 1e9 for t in arr] + [t0s + p.lat(1)] * 3 + [t0s + p.lat(1) * 2, t0s, t0s + p.lat(2)]
    rng.shuffle(appts)
    shows = AppointmentScheduler("shows", pool, appts, no_show_rate=0.0)
    ghosts = AppointmentScheduler("ghosts", pool, list(reversed(appts)), no_show_rate=1.0, event_type="Ghost")
    empty = AppointmentScheduler("empty", pool, [])
    sim = make_sim([shows, ghosts, empty, pool, sink], p.end())
    for s in (shows, ghosts, empty):
        for e in s.start_events():
            sim.schedule(e)
    comps = {"shows": shows, "ghosts": ghosts, "empty": empty, "rooms": pool, "sink": sink}
    return Scenario(sim, comps, FAMILY, True, 2 * len(appts))


@scenario("industrial.split_merge_single_target", FAMILY)
def split_merge_single_target(seed, params):
    """SplitMerge with ONE target (fan-out 1)."""
    p = P(params, seed)
    sink = Sink("sink")
    worker = Replier("cell", p.lat(0))
    sm = SplitMerge("assembly", [worker], sink)
    arr = p.arrivals(6)
    sim = make_sim([sm, sink, worker], p.end())
    _send(sim, sm, arr, "Order")
    return Scenario(sim, {"assembly": sm, "sink": sink, "cell": worker}, FAMILY, True, len(arr))


@scenario("industrial.split_merge_instant_targets", FAMILY)
def split_merge_instant_targets(seed, params):
    """p.count targets, all but one answer in ZERO time (Replier 0.0); merged results feed a Server."""
    p = P(params, seed)
    sink = Sink("sink")
    after = Server("after", concurrency=1, service_time=ConstantLatency(p.lat(1)), downstream=sink)
    n = p.count(0, 3, lo=2)
    workers = [Replier(f"cell{k}", 0.0 if k else p.lat(0)) for k in range(n)]
    sm = SplitMerge("assembly", workers, after)
    arr = p.arrivals(7)
    sim = make_sim([sm, after, sink, *workers], p.end())
    _send(sim, sm, arr, "Order")
    return Scenario(sim, {"assembly": sm, "after": after, "sink": sink}, FAMILY, True, len(arr))


def _breakdown_extreme(seed, params, mttf_of, mrt_of):
    p = P(params, seed)
    sink = Sink("sink")
    srv = Server("machine", concurrency=1, service_time=ConstantLatency(p.lat(2)), downstream=sink)
    base = period(p, 0, 300)
    bd = BreakdownScheduler("breakdowns", srv, mean_time_to_failure=mttf_of(p, base), mean_repair_time=mrt_of(p, base))
    arr = p.arrivals(8)
    sim = make_sim([srv, bd, sink], p.end())
    _send(sim, srv, arr + _long_wave(p, min(arr), 16))
    sim.schedule(bd.start_event())
    return Scenario(sim, {"machine": srv, "breakdowns": bd, "sink": sink}, FAMILY, True, len(arr) + 17)


@scenario("industrial.breakdown_repair_much_longer_than_uptime", FAMILY)
def breakdown_repair_much_longer_than_uptime(seed, params):
    """mean_repair_time = 60 x mean_time_to_failure (mean time to failure of 1/60 base interval)."""
    return _breakdown_extreme(seed, params, lambda p, b: b / 60.0, lambda p, b: b)


@scenario("industrial.breakdown_repair_much_shorter_than_uptime", FAMILY)
def breakdown_repair_much_shorter_than_uptime(seed, params):
    """mean_repair_time = 1 ns << mean_time_to_failure: repairs complete (almost) at the breakdown instant."""
    return _breakdown_extreme(seed, params, lambda p, b: b, lambda p, b: 1e-9)

"""Derived scenarios: existing builders re-run with fixed degenerate constructor values.

* zero set-up latency paired with pool exhaustion (the waiters' poll / hand-over path at a zero set-up cost);
* parameters the library itself guards (`> 0` / `<= 0` = disabled, "-1 = no timeout") at -1 and 0
  (table `GUARDED` in `_mutate.py`); no other parameter is ever made negative.

Imported last (every base builder must already be registered).
"""

from __future__ import annotations

from hsverif.scenarios import CATALOGUE, scenario
from hsverif.scenarios._mutate import derive

_DERIVED = [
    # name, family, base, overrides
    ("datastore.database_zero_connection_latency_exhaustion", "datastore", "datastore.database_pool_exhaustion",
     {("Database", "connection_latency"): 0.0}),
    ("datastore.database_zero_connection_latency_single", "datastore", "datastore.database_callable_latency",
     {("Database", "connection_latency"): 0.0}),
    ("datastore.database_zero_connection_and_commit_latency", "datastore", "datastore.database_slow_connect_single",
     {("Database", "connection_latency"): 0.0, ("Database", "rollback_latency"): 0.0}),
    ("industrial.batch_timeout_minus_one", "industrial", "industrial.batch_processor_timeout", {("BatchProcessor", "timeout_s"): -1.0}),
    ("industrial.batch_timeout_minus_one_cap", "industrial", "industrial.batch_processor_cap", {("BatchProcessor", "timeout_s"): -1.0}),
    ("industrial.batch_timeout_minus_one_ns", "industrial", "industrial.batch_processor_timeout", {("BatchProcessor", "timeout_s"): -1e-9}),
    ("behavior.agents_guards_negative", "behavior", "behavior.agents_rules",
     {("Agent", "heartbeat_interval"): -1.0, ("Agent", "action_delay"): -1.0}),
    ("behavior.environment_guards_negative", "behavior", "behavior.environment_degroot_complete",
     {("Agent", "heartbeat_interval"): -1e-9, ("Agent", "action_delay"): -1e-9}),
    ("replication.multi_leader_anti_entropy_minus_one", "replication", "replication.multi_leader_lww",
     {("LeaderNode", "anti_entropy_interval"): -1.0}),
    ("crdt.gossip_interval_minus_one", "crdt", "crdt.gcounter_gossip", {("CRDTStore", "gossip_interval"): -1.0}),
    ("microservice.gateway_auth_latency_minus_one", "microservice", "microservice.gateway_mixed_routes",
     {("APIGateway", "auth_latency"): -1.0}),
    ("microservice.outbox_relay_latency_zero", "microservice", "microservice.outbox_relay_to_server",
     {("OutboxRelay", "relay_latency"): 0.0}),
]

for _name, _family, _base, _ov in _DERIVED:
    if _base in CATALOGUE and _name not in CATALOGUE:
        scenario(_name, _family)(derive(_base, _ov))
